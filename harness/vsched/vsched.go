// Package vsched is the schedule explorer for Mode D: a cooperative scheduler whose
// scheduling points are the environment seams (memdb statements, coordinator messages,
// virtual timers, stub resource-manager calls) and whose notion of "every thread has
// stopped" is quiescence of the whole process (package quiet) - so goroutines the
// repository spawns itself and blocking inside un-instrumented code are handled
// without rewriting the repository's synchronisation.
//
// Exactly one released thread runs at a time: the scheduler releases one parked thread
// (or fires one external action such as a timer), waits until the process is quiet
// again - every goroutine parked at a point, blocked, or finished - and only then
// looks at the enabled actions and chooses the next one.
package vsched

import (
	"bytes"
	"fmt"
	"runtime"
	"sort"
	"strconv"
	"sync"
	"time"

	"verifharness/quiet"
)

type thread struct {
	gid    int64
	id     int
	name   string
	gate   chan struct{}
	parked bool
	desc   string
	done   bool
}

// EnvAction is an environment event the scheduler may choose (a reply arriving, a timer firing, a connection dropping).
type EnvAction struct {
	Desc string
	Fire func()
}

// Point describes one decision of an execution.
type Point struct {
	Enabled     []string // descriptions in canonical order
	Costs       []int    // deviation cost of each alternative
	Choice      int
	LastEnabled bool
}

type Sched struct {
	mu      sync.Mutex
	threads []*thread
	byGID   map[int64]*thread
	// Env lists the environment actions enabled in the current (quiescent) state, in a canonical order.
	Env     func() []EnvAction
	last    int // id of the thread released last (-1 none)
	aborted bool
	Points  []Point
	Log     []string
	Horizon int
	Adopt   bool // goroutines that reach a point without having been started through Go/GoNow become controlled threads
	nextID  int
	stepCh  chan struct{} // signalled when a thread parks at a point or finishes
}

func New() *Sched {
	return &Sched{byGID: map[int64]*thread{}, last: -1, Horizon: 400, stepCh: make(chan struct{}, 1024)}
}

func gid() int64 {
	var buf [64]byte
	n := runtime.Stack(buf[:], false)
	b := buf[:n]
	b = bytes.TrimPrefix(b, []byte("goroutine "))
	i := bytes.IndexByte(b, ' ')
	id, _ := strconv.ParseInt(string(b[:i]), 10, 64)
	return id
}

// Go starts a controlled thread; it is parked before its first instruction.
func (s *Sched) Go(name string, f func()) {
	s.mu.Lock()
	t := &thread{id: s.nextID, name: name, gate: make(chan struct{}, 1), parked: true, desc: "start " + name}
	s.nextID++
	s.threads = append(s.threads, t)
	s.mu.Unlock()
	go func() {
		s.mu.Lock()
		t.gid = gid()
		s.byGID[t.gid] = t
		s.mu.Unlock()
		<-t.gate
		defer func() {
			s.mu.Lock()
			t.done, t.parked = true, false
			delete(s.byGID, gid())
			s.mu.Unlock()
		}()
		if s.isAborted() {
			return
		}
		f()
	}()
}

func (s *Sched) signal() {
	select {
	case s.stepCh <- struct{}{}:
	default:
	}
}

// settle waits until nothing runs: fast path - the released thread parks or finishes (signalled), then the process is
// observed quiet; slow path (the thread blocked inside un-instrumented code) - quiescence alone.
func (s *Sched) settle() {
	for {
		select {
		case <-s.stepCh:
			continue // drain
		default:
		}
		break
	}
	quiet.Spin(nil, 2)
}

func (s *Sched) isAborted() bool {
	s.mu.Lock()
	defer s.mu.Unlock()
	return s.aborted
}

// Point parks the calling goroutine until the scheduler releases it. A goroutine the scheduler has not seen before
// (spawned by repository code) is adopted as a new thread.
func (s *Sched) Point(desc string) {
	g := gid()
	s.mu.Lock()
	if s.aborted {
		known := s.byGID[g] != nil
		s.mu.Unlock()
		if known {
			runtime.Goexit() // a thread of an execution that is over
		}
		return
	}
	t := s.byGID[g]
	if t == nil && !s.Adopt {
		s.mu.Unlock()
		return // a goroutine this execution does not control (background worker of the client)
	}
	if t == nil {
		t = &thread{id: s.nextID, name: "adopted", gate: make(chan struct{}, 1), gid: g}
		s.nextID++
		s.threads = append(s.threads, t)
		s.byGID[g] = t
	}
	t.parked, t.desc = true, desc
	s.mu.Unlock()
	s.signal()
	<-t.gate
	if s.isAborted() {
		runtime.Goexit()
	}
}

// GoNow starts a controlled thread that runs at once (used by environment actions: the scheduler itself is the caller,
// so nothing else is running).
func (s *Sched) GoNow(name string, f func()) {
	s.mu.Lock()
	t := &thread{id: s.nextID, name: name, gate: make(chan struct{}, 1), desc: "running " + name}
	s.nextID++
	s.threads = append(s.threads, t)
	s.last = t.id
	s.mu.Unlock()
	ready := make(chan struct{})
	go func() {
		s.mu.Lock()
		t.gid = gid()
		s.byGID[t.gid] = t
		s.mu.Unlock()
		close(ready)
		defer func() {
			s.mu.Lock()
			t.done, t.parked = true, false
			delete(s.byGID, gid())
			s.mu.Unlock()
		}()
		f()
	}()
	<-ready
}

// Current is the id of the thread released last.
func (s *Sched) Current() int {
	s.mu.Lock()
	defer s.mu.Unlock()
	return s.last
}

// Done reports whether thread id has finished.
func (s *Sched) Done(id int) bool {
	s.mu.Lock()
	defer s.mu.Unlock()
	for _, t := range s.threads {
		if t.id == id {
			return t.done
		}
	}
	return false
}

type action struct {
	desc string
	t    *thread
	e    *EnvAction
	cost int
}

// enabledActions in canonical order: the thread released last first (if parked again), then threads by id, then externals.
func (s *Sched) enabledActions() ([]action, bool) {
	var envs []EnvAction
	if s.Env != nil {
		envs = s.Env()
	}
	s.mu.Lock()
	defer s.mu.Unlock()
	var acts []action
	var lastT *thread
	var others []*thread
	for _, t := range s.threads {
		if t.parked && !t.done {
			if t.id == s.last {
				lastT = t
			} else {
				others = append(others, t)
			}
		}
	}
	sort.Slice(others, func(i, j int) bool { return others[i].id < others[j].id })
	if lastT != nil {
		acts = append(acts, action{desc: fmt.Sprintf("T%d:%s", lastT.id, lastT.desc), t: lastT})
	}
	for _, t := range others {
		c := 0
		if lastT != nil {
			c = 1 // switching away from a thread that could continue is a preemption
		}
		acts = append(acts, action{desc: fmt.Sprintf("T%d:%s", t.id, t.desc), t: t, cost: c})
	}
	nThreads := len(acts)
	for i := range envs {
		c := 0
		if nThreads > 0 {
			c = 1 // an environment event landing before a runnable thread is a deviation
		}
		acts = append(acts, action{desc: "E:" + envs[i].Desc, e: &envs[i], cost: c})
	}
	return acts, lastT != nil
}

// Threads returns "id(name)" of every thread that has not finished.
func (s *Sched) Unfinished() []string {
	s.reap()
	s.mu.Lock()
	defer s.mu.Unlock()
	var out []string
	for _, t := range s.threads {
		if !t.done {
			out = append(out, fmt.Sprintf("T%d(%s)@%s", t.id, t.name, t.desc))
		}
	}
	return out
}

// Canonicalize renumbers the threads known so far by the point they are parked at. Goroutines that the code under test
// starts by itself before the run begins are adopted in a racy order; after this call their ids are a function of where
// they wait (threads waiting at the same point are interchangeable).
func (s *Sched) Canonicalize() {
	s.mu.Lock()
	defer s.mu.Unlock()
	sort.SliceStable(s.threads, func(i, j int) bool { return s.threads[i].desc < s.threads[j].desc })
	for i, t := range s.threads {
		t.id = i
	}
	s.nextID = len(s.threads)
}

// reap marks adopted threads whose goroutine has ended as finished (an adopted goroutine has no wrapper that could say so).
func (s *Sched) reap() {
	buf := make([]byte, 1<<20)
	for {
		n := runtime.Stack(buf, true)
		if n < len(buf) {
			buf = buf[:n]
			break
		}
		buf = make([]byte, 2*len(buf))
	}
	alive := map[int64]bool{}
	for _, line := range bytes.Split(buf, []byte("\n")) {
		if bytes.HasPrefix(line, []byte("goroutine ")) {
			rest := line[len("goroutine "):]
			if i := bytes.IndexByte(rest, ' '); i > 0 {
				if id, err := strconv.ParseInt(string(rest[:i]), 10, 64); err == nil {
					alive[id] = true
				}
			}
		}
	}
	s.mu.Lock()
	defer s.mu.Unlock()
	for _, t := range s.threads {
		if !t.done && !t.parked && t.name == "adopted" && t.gid != 0 && !alive[t.gid] {
			t.done = true
			delete(s.byGID, t.gid)
		}
	}
}

// Blocked lists the threads that are neither parked at a point nor finished (blocked inside code the scheduler does not
// see), with the description of the last point each of them passed.
func (s *Sched) Blocked() []string {
	s.reap()
	s.mu.Lock()
	defer s.mu.Unlock()
	var out []string
	for _, t := range s.threads {
		if !t.done && !t.parked {
			out = append(out, fmt.Sprintf("T%d(%s)@%s", t.id, t.name, t.desc))
		}
	}
	return out
}

// Parked lists the descriptions of the points at which threads are parked right now.
func (s *Sched) Parked() []string {
	s.mu.Lock()
	defer s.mu.Unlock()
	var out []string
	for _, t := range s.threads {
		if !t.done && t.parked {
			out = append(out, t.desc)
		}
	}
	return out
}

// Result of one execution.
type Result struct {
	Choices  []int
	Points   []Point
	Stuck    []string // threads that are neither done nor parked when nothing is enabled (blocked for good)
	Horizon  bool     // the step horizon was reached
	Diverged string   // a replayed prefix asked for a choice that does not exist
}

// Run drives the execution: prefix is replayed, afterwards choice 0 is taken.
func (s *Sched) Run(prefix []int) Result {
	var res Result
	for step := 0; ; step++ {
		s.settle()
		acts, lastEnabled := s.enabledActions()
		if len(acts) == 0 && len(s.Unfinished()) > 0 {
			// nothing is enabled although threads are unfinished: before calling them blocked for good, look again, slowly
			quiet.Settle(nil, 10)
			acts, lastEnabled = s.enabledActions()
		}
		if len(acts) == 0 {
			s.mu.Lock()
			for _, t := range s.threads {
				if !t.done {
					res.Stuck = append(res.Stuck, fmt.Sprintf("T%d(%s) after %q", t.id, t.name, t.desc))
				}
			}
			s.mu.Unlock()
			break
		}
		if step >= s.Horizon {
			res.Horizon = true
			break
		}
		choice := 0
		if step < len(prefix) {
			choice = prefix[step]
			if choice >= len(acts) {
				res.Diverged = fmt.Sprintf("step %d: choice %d of %d enabled actions", step, choice, len(acts))
				break
			}
		}
		p := Point{Choice: choice, LastEnabled: lastEnabled}
		for _, a := range acts {
			p.Enabled = append(p.Enabled, a.desc)
			p.Costs = append(p.Costs, a.cost)
		}
		res.Points = append(res.Points, p)
		res.Choices = append(res.Choices, choice)
		a := acts[choice]
		s.mu.Lock()
		s.Log = append(s.Log, a.desc)
		if a.t != nil {
			a.t.parked = false
			s.last = a.t.id
		}
		s.mu.Unlock()
		if a.t != nil {
			a.t.gate <- struct{}{}
		} else {
			a.e.Fire()
		}
	}
	s.Points = res.Points
	return res
}

// Abort ends the execution: every parked thread is released and exits.
func (s *Sched) Abort() {
	s.mu.Lock()
	s.aborted = true
	var parked []*thread
	for _, t := range s.threads {
		if t.parked && !t.done {
			parked = append(parked, t)
			t.parked = false
		}
	}
	s.mu.Unlock()
	for _, t := range parked {
		t.gate <- struct{}{}
	}
	quiet.Spin(nil, 2)
}

// ---- iterative deviation-bounded DFS ------------------------------------------

type Explorer struct {
	// Shard/NShards split the exploration over worker processes: the subtrees below the root execution are dealt
	// round-robin; every worker runs the root execution itself (only shard 0 reports it).
	Shard, NShards int
	child          int
	Bound          int
	MaxExec        int
	Deadline       time.Time // when set and passed, the exploration stops and reports Capped (never a violation)
	Executions     int
	Capped         bool
	Silent         bool // the current execution belongs to another shard's report (root re-run)
	// RunOne executes the system under the given choice prefix and returns the result (it must build a fresh system each time).
	RunOne func(prefix []int) Result
	// Check is called for every complete execution.
	Check func(r Result)
}

func cost(points []Point, upto int) int {
	c := 0
	for i := 0; i < upto && i < len(points); i++ {
		c += points[i].Costs[points[i].Choice]
	}
	return c
}

func (e *Explorer) Explore(prefix []int) {
	if (e.MaxExec > 0 && e.Executions >= e.MaxExec) || (!e.Deadline.IsZero() && time.Now().After(e.Deadline)) {
		e.Capped = true
		return
	}
	root := prefix == nil
	e.Silent = root && e.NShards > 1 && e.Shard != 0
	r := e.RunOne(prefix)
	if !e.Silent {
		e.Executions++
		e.Check(r)
	}
	e.Silent = false
	for i := len(prefix); i < len(r.Points); i++ {
		base := cost(r.Points, i)
		for alt := 1; alt < len(r.Points[i].Enabled); alt++ {
			if base+r.Points[i].Costs[alt] > e.Bound {
				continue
			}
			if root && e.NShards > 1 {
				e.child++
				if (e.child-1)%e.NShards != e.Shard {
					continue
				}
			}
			np := append(append([]int{}, r.Choices[:i]...), alt)
			e.Explore(np)
			if e.Capped {
				return
			}
		}
	}
}
