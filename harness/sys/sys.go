// Package sys assembles the closed system: real seata-go client + memdb + faketc.
package sys

import (
	"context"
	"database/sql"
	"fmt"
	"os"
	"path/filepath"
	"seata.apache.org/seata-go/pkg/protocol/message"
	"seata.apache.org/seata-go/pkg/util/vshim/vtime"
	"strings"
	"sync"
	"sync/atomic"
	"time"

	"seata.apache.org/seata-go/pkg/client"
	ssql "seata.apache.org/seata-go/pkg/datasource/sql"
	"seata.apache.org/seata-go/pkg/datasource/sql/datasource"
	"seata.apache.org/seata-go/pkg/datasource/sql/undo"
	"seata.apache.org/seata-go/pkg/protocol/branch"
	sgetty "seata.apache.org/seata-go/pkg/remoting/getty"
	"seata.apache.org/seata-go/pkg/util/log"

	"verifharness/faketc"
	"verifharness/memdb"
	"verifharness/quiet"
)

type nopLogger struct{}

func (nopLogger) Debug(v ...interface{})                 {}
func (nopLogger) Debugf(format string, v ...interface{}) {}
func (nopLogger) Info(v ...interface{})                  {}
func (nopLogger) Infof(format string, v ...interface{})  {}
func (nopLogger) Warn(v ...interface{})                  {}
func (nopLogger) Warnf(format string, v ...interface{})  {}
func (nopLogger) Error(v ...interface{})                 { capture(fmt.Sprint(v...)) }
func (nopLogger) Errorf(format string, v ...interface{}) { capture(fmt.Sprintf(format, v...)) }
func (nopLogger) Panic(v ...interface{})                 { panic(fmt.Sprint(v...)) }
func (nopLogger) Panicf(format string, v ...interface{}) { panic(fmt.Sprintf(format, v...)) }
func (nopLogger) Fatal(v ...interface{})                 { panic(fmt.Sprint(v...)) }
func (nopLogger) Fatalf(format string, v ...interface{}) { panic(fmt.Sprintf(format, v...)) }

var (
	errMu   sync.Mutex
	errRing []string
)

func capture(m string) {
	errMu.Lock()
	if len(m) > 400 {
		m = m[:400] + "..."
	}
	errRing = append(errRing, m)
	if len(errRing) > 40 {
		errRing = errRing[len(errRing)-40:]
	}
	errMu.Unlock()
}

// TakeErrors returns and clears the client's error-level log lines captured since the last call.
func TakeErrors() []string {
	errMu.Lock()
	defer errMu.Unlock()
	out := errRing
	errRing = nil
	return out
}

var (
	initOnce sync.Once
	envSeq   int32
	// DefaultUndo is the undo configuration every case starts from.
	DefaultUndo = undo.Config{DataValidation: true, LogSerialization: "json", LogTable: "undo_log", OnlyCareUpdateColumns: true,
		CompressConfig: undo.CompressConfig{Enable: false, Type: "None", Threshold: "64k"}}
)

const (
	ATDriver   = "verif-at-mysql"
	XADriver   = "verif-xa-mysql"
	BareDriver = "verif-memdb"
)

// InitClient initialises the real client once per process from the repository's own
// sample configuration, with an empty server list so that no TCP client is started.
func InitClient() {
	initOnce.Do(func() {
		b, err := os.ReadFile("/repo/testdata/conf/seatago.yml")
		if err != nil {
			panic(err)
		}
		cfg := strings.Replace(string(b), "default: 127.0.0.1:8091", "default: \"\"", 1)
		dir := os.Getenv("VERIF_TMP")
		if dir == "" {
			dir = filepath.Join("/verif/.build", "tmp")
		}
		os.MkdirAll(dir, 0o755)
		path := filepath.Join(dir, fmt.Sprintf("seatago-%d.yml", os.Getpid()))
		if err := os.WriteFile(path, []byte(cfg), 0o644); err != nil {
			panic(err)
		}
		defer os.Remove(path)
		// the client builds a zap logger on stdout/stderr during initialisation and complains about the empty server list
		devnull, _ := os.OpenFile(os.DevNull, os.O_WRONLY, 0)
		so, se := os.Stdout, os.Stderr
		if os.Getenv("VERIF_LOG") == "" && devnull != nil {
			os.Stdout, os.Stderr = devnull, devnull
		}
		// the client's background tickers (asynchronous phase-two commit flush, table-meta refresh) are created while time is
		// virtual: they tick only when a check calls vtime.Tick, so no background statement lands in the middle of a case
		vtime.SetVirtual(nil)
		client.InitPath(path)
		quiet.Spin(nil, 5) // the goroutines started by the initialisation create their tickers on their own time
		vtime.SetPassThrough()
		os.Stdout, os.Stderr = so, se
		log.SetLogger(nopLogger{})
		if os.Getenv("VERIF_LOG") != "" {
			log.Init()
		}
		ssql.VerifRegisterDrivers(ATDriver, XADriver, memdb.Driver{})
		sql.Register(BareDriver, memdb.Driver{})
		undo.UndoConfig = DefaultUndo
	})
}

// QuietInit prepares a process that uses repository packages without initialising the client: silent logger, bare driver.
func QuietInit() {
	log.SetLogger(nopLogger{})
	sql.Register(BareDriver, memdb.Driver{})
}

// SplitDDL splits a DDL script into statements.
func SplitDDL(s string) []string { return splitDDL(s) }

// UndoLogDDL is the repository's own testdata/sql/undo_log.sql.
func UndoLogDDL() string {
	b, err := os.ReadFile("/repo/testdata/sql/undo_log.sql")
	if err != nil {
		panic(err)
	}
	return string(b)
}

// Env is one closed system: a database, a coordinator, proxied and bare handles.
type Env struct {
	Srv        *memdb.Server
	TC         *faketc.TC
	Sess       *faketc.Session
	AT         *sql.DB
	XA         *sql.DB
	Bare       *sql.DB
	DSN        string
	ResourceID string
}

// ResourceDB is the pool the AT resource manager itself uses for phase two (rollback transactions, undo-log clean-up): a
// *sql.DB over the bare target connector, distinct from the proxy handle e.AT.
func (e *Env) ResourceDB() *sql.DB {
	m := datasource.GetDataSourceManager(branch.BranchTypeAT)
	if m == nil {
		return nil
	}
	if v, ok := m.GetCachedResources().Load(e.ResourceID); ok {
		if r, ok := v.(*ssql.DBResource); ok {
			return r.GetDB()
		}
	}
	return nil
}

type Options struct {
	Params  string // DSN parameters (default memdb.DefaultParams)
	Version string
	NoXA    bool
	NoAT    bool
	Wire    bool
	// Concurrent: several client threads run against the database (lock waits really wait)
	Concurrent bool
}

// NewEnv builds a fresh closed system with the given DDL applied (undo_log is always created).
func NewEnv(ddl []string, opt Options) (*Env, error) {
	InitClient()
	n := atomic.AddInt32(&envSeq, 1)
	addr := fmt.Sprintf("10.0.%d.%d:3306", n/250, n%250+1)
	srv := memdb.NewServer(addr, "seata_client")
	if opt.Version != "" {
		srv.Version = opt.Version
	}
	srv.SequentialWaits = !opt.Concurrent
	memdb.Register(srv)
	params := opt.Params
	if params == "" {
		params = memdb.DefaultParams
	}
	e := &Env{Srv: srv, DSN: memdb.DSN(srv, params)}
	e.ResourceID = strings.SplitN(e.DSN, "?", 2)[0]
	var err error
	if e.Bare, err = sql.Open(BareDriver, e.DSN); err != nil {
		return nil, err
	}
	for _, stmt := range splitDDL(UndoLogDDL()) {
		if _, err := e.Bare.Exec(stmt); err != nil {
			return nil, fmt.Errorf("undo_log ddl: %w", err)
		}
	}
	for _, d := range ddl {
		if _, err := e.Bare.Exec(d); err != nil {
			return nil, fmt.Errorf("ddl %q: %w", d, err)
		}
	}
	sgetty.VerifResetRemoting()
	e.TC = faketc.New("192.168.0.1:8091")
	e.TC.Wire = opt.Wire
	e.Sess = e.TC.Open("192.168.0.1:8091")
	// OnOpen announces the TM on its own goroutine; wait until that exchange is over so it cannot land in a later case
	for i := 0; i < 2000; i++ {
		done := false
		for _, ev := range e.TC.Events() {
			if _, ok := ev.Msg.Body.(message.RegisterTMResponse); ok && ev.Dir == "s2c" {
				done = true
			}
		}
		if done {
			break
		}
		time.Sleep(time.Millisecond)
	}
	// sql.Open registers the resource with the coordinator (RegisterRMRequest) synchronously
	if !opt.NoXA {
		if e.XA, err = sql.Open(XADriver, e.DSN); err != nil {
			return nil, err
		}
	}
	if !opt.NoAT {
		if e.AT, err = sql.Open(ATDriver, e.DSN); err != nil {
			return nil, err
		}
	}
	srv.ClearJournal()
	return e, nil
}

func splitDDL(s string) []string {
	var out []string
	var lines []string
	for _, l := range strings.Split(s, "\n") {
		t := strings.TrimSpace(l)
		if strings.HasPrefix(t, "--") || strings.HasPrefix(t, "#") || t == "" {
			continue
		}
		lines = append(lines, l)
	}
	for _, st := range strings.Split(strings.Join(lines, "\n"), ";") {
		if strings.TrimSpace(st) != "" {
			out = append(out, st)
		}
	}
	return out
}

func (e *Env) Close() {
	for _, db := range []*sql.DB{e.AT, e.XA, e.Bare} {
		if db != nil {
			db.Close()
		}
	}
	memdb.Unregister(e.Srv.Addr)
}

// Ctx is a background context (helper for terse call sites).
func Ctx() context.Context { return context.Background() }
