package sys

import (
	"context"
	"fmt"
	"testing"

	"seata.apache.org/seata-go/pkg/tm"
)

func TestSmoke(t *testing.T) {
	e, err := NewEnv([]string{"CREATE TABLE t_s1 (id BIGINT NOT NULL, name VARCHAR(32), cnt INT NOT NULL DEFAULT 0, PRIMARY KEY (id))"}, Options{})
	if err != nil {
		t.Fatal(err)
	}
	e.Bare.Exec("INSERT INTO t_s1 VALUES (1,'a',10),(2,'b',20)")
	e.TC.AutoRollback = true
	err = tm.WithGlobalTx(context.Background(), &tm.GtxConfig{Name: "smoke"}, func(ctx context.Context) error {
		if _, err := e.AT.ExecContext(ctx, "UPDATE t_s1 SET cnt = cnt + ? WHERE id = ?", 5, 1); err != nil {
			return err
		}
		if _, err := e.AT.ExecContext(ctx, "INSERT INTO t_s1 (id, name, cnt) VALUES (?, ?, ?)", 3, "c", 30); err != nil {
			return err
		}
		fmt.Println("rows mid:", e.Srv.TableRows("t_s1"), "undo:", len(e.Srv.TableRows("undo_log")))
		return fmt.Errorf("business failure")
	})
	fmt.Println("WithGlobalTx err:", err)
	fmt.Println("rows after:", e.Srv.TableRows("t_s1"), "undo:", len(e.Srv.TableRows("undo_log")))
	for _, ev := range e.TC.Events() {
		fmt.Printf("%d %s %T\n", ev.G, ev.Dir, ev.Msg.Body)
	}
	for _, j := range e.Srv.Journal() {
		fmt.Printf("  %d c%d t%d %s %q %v err=%s aff=%d\n", j.G, j.Conn, j.Txn, j.Kind, j.SQL, j.Args, j.Err, j.Affected)
	}
}
