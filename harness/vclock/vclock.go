// Package vclock is the one global event counter shared by memdb's journal and
// faketc's message log, so that oracles can order database steps against coordinator messages.
package vclock

import "sync/atomic"

var n int64

func Next() int64 { return atomic.AddInt64(&n, 1) }
func Now() int64  { return atomic.LoadInt64(&n) }
