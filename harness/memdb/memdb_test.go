package memdb

import (
	"database/sql"
	"testing"
	"time"
)

func open(t *testing.T) (*Server, *sql.DB) {
	srv := NewServer("mem-test:3306", "testdb")
	Register(srv)
	sql.Register("memdb-"+t.Name(), Driver{})
	db, err := sql.Open("memdb-"+t.Name(), DSN(srv, DefaultParams))
	if err != nil {
		t.Fatal(err)
	}
	return srv, db
}

func TestBasic(t *testing.T) {
	srv, db := open(t)
	must := func(_ sql.Result, err error) {
		t.Helper()
		if err != nil {
			t.Fatal(err)
		}
	}
	must(db.Exec("CREATE TABLE t (id BIGINT NOT NULL AUTO_INCREMENT, a INT DEFAULT 5, b VARCHAR(32) NOT NULL DEFAULT 'x', d DATETIME(6), PRIMARY KEY (id), UNIQUE KEY uk_b (b))"))
	r, err := db.Exec("INSERT INTO t (a,b) VALUES (1,'p'),(?,?)", 2, "q")
	must(r, err)
	if id, _ := r.LastInsertId(); id != 1 {
		t.Fatalf("last insert id %d", id)
	}
	if n, _ := r.RowsAffected(); n != 2 {
		t.Fatalf("affected %d", n)
	}
	if _, err := db.Exec("INSERT INTO t (a,b) VALUES (3,'p')"); err == nil {
		t.Fatal("expected duplicate")
	}
	r, err = db.Exec("INSERT INTO t (a,b) VALUES (3,'p') ON DUPLICATE KEY UPDATE a = VALUES(a)+10")
	must(r, err)
	if n, _ := r.RowsAffected(); n != 2 {
		t.Fatalf("upsert affected %d", n)
	}
	var a int
	var b string
	if err := db.QueryRow("SELECT a, b FROM t WHERE id = ?", 1).Scan(&a, &b); err != nil || a != 13 || b != "p" {
		t.Fatalf("got %d %s %v", a, b, err)
	}
	tx, _ := db.Begin()
	must(tx.Exec("UPDATE t SET a = a + 1 WHERE b IN ('p','q') ORDER BY id DESC LIMIT 1"))
	must(tx.Exec("DELETE FROM t WHERE id = 1"))
	tx.Rollback()
	rows := srv.TableRows("t")
	if len(rows) != 2 || rows[1][1] != int64(2) {
		t.Fatalf("rows %v", rows)
	}
	must(db.Exec("UPDATE t SET d = now(6) WHERE (id,b) IN ((?,?))", 2, "q"))
	var d sql.NullTime
	if err := db.QueryRow("SELECT d FROM t WHERE id = 2").Scan(&d); err != nil || !d.Valid || d.Time.Nanosecond() != 678901000 {
		t.Fatalf("%v %v", d, err)
	}
	// information schema
	rs, err := db.Query("SELECT `COLUMN_NAME`, `DATA_TYPE`, `COLUMN_KEY`, `IS_NULLABLE`, `COLUMN_DEFAULT`, `EXTRA` FROM INFORMATION_SCHEMA.COLUMNS WHERE `TABLE_SCHEMA` = ? AND `TABLE_NAME` = ?", "testdb", "T")
	if err != nil {
		t.Fatal(err)
	}
	n := 0
	for rs.Next() {
		var cn, dt, ck, nu, ex string
		var def []byte
		rs.Scan(&cn, &dt, &ck, &nu, &def, &ex)
		t.Log(cn, dt, ck, nu, string(def), ex)
		n++
	}
	if n != 4 {
		t.Fatalf("%d columns", n)
	}
	rs, _ = db.Query("SELECT `INDEX_NAME`, `COLUMN_NAME`, `NON_UNIQUE` FROM `INFORMATION_SCHEMA`.`STATISTICS` WHERE `TABLE_SCHEMA` = ? AND `TABLE_NAME` = ?", "testdb", "t")
	n = 0
	for rs.Next() {
		var a, b string
		var c int64
		rs.Scan(&a, &b, &c)
		t.Log(a, b, c)
		n++
	}
	if n != 2 {
		t.Fatalf("%d index rows", n)
	}
}

func TestLockWait(t *testing.T) {
	_, db := open(t)
	db.Exec("CREATE TABLE t (id BIGINT NOT NULL, a INT, PRIMARY KEY (id))")
	db.Exec("INSERT INTO t VALUES (1,1)")
	tx1, _ := db.Begin()
	tx1.Exec("UPDATE t SET a = 2 WHERE id = 1")
	done := make(chan int, 1)
	go func() {
		tx2, _ := db.Begin()
		tx2.Exec("UPDATE t SET a = a + 10 WHERE id = 1")
		tx2.Commit()
		done <- 1
	}()
	select {
	case <-done:
		t.Fatal("tx2 did not wait")
	case <-time.After(50 * time.Millisecond):
	}
	tx1.Commit()
	<-done
	var a int
	db.QueryRow("SELECT a FROM t WHERE id = 1").Scan(&a)
	if a != 12 {
		t.Fatalf("a=%d", a)
	}
}

func TestXA(t *testing.T) {
	srv, db := open(t)
	db.Exec("CREATE TABLE t (id BIGINT NOT NULL, a INT, PRIMARY KEY (id))")
	c, _ := db.Conn(nil2())
	ex := func(q string) error { _, err := c.ExecContext(nil2(), q); return err }
	for _, q := range []string{"XA START 'g1,b1'", "INSERT INTO t VALUES (1,1)", "XA END 'g1,b1'", "XA PREPARE 'g1,b1'"} {
		if err := ex(q); err != nil {
			t.Fatal(q, err)
		}
	}
	if err := ex("INSERT INTO t VALUES (2,1)"); err == nil {
		t.Fatal("statement in prepared state accepted")
	}
	c.Raw(func(dc interface{}) error { return dc.(*conn).Close() })
	if got := srv.PreparedXA(); len(got) != 1 {
		t.Fatal(got)
	}
	if _, err := db.Exec("XA COMMIT 'g1,b1'"); err != nil {
		t.Fatal(err)
	}
	if len(srv.TableRows("t")) != 1 {
		t.Fatal("not committed")
	}
}
