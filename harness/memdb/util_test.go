package memdb

import "context"

func nil2() context.Context { return context.Background() }
