package memdb

import (
	"fmt"
	"regexp"
	"sort"
	"strconv"
	"strings"
	"time"

	aparser "github.com/arana-db/parser"
	"github.com/arana-db/parser/ast"
	"github.com/arana-db/parser/format"
	pmysql "github.com/arana-db/parser/mysql"
	"github.com/arana-db/parser/opcode"
	"github.com/arana-db/parser/test_driver"
)

type resCol struct {
	name string
	col  *Column // nil for computed expressions
}

type result struct {
	isQuery  bool
	cols     []resCol
	rows     [][]Value
	affected int64
	insertID int64
	diff     []RowChange
}

var (
	reXA         = regexp.MustCompile(`(?is)^\s*XA\s+(START|BEGIN|END|PREPARE|COMMIT|ROLLBACK|RECOVER)\b\s*(.*?)\s*$`)
	reSavepoint  = regexp.MustCompile(`(?is)^\s*SAVEPOINT\s+` + "`?" + `([A-Za-z0-9_$]+)` + "`?" + `\s*$`)
	reRollbackTo = regexp.MustCompile(`(?is)^\s*ROLLBACK\s+(?:WORK\s+)?TO\s+(?:SAVEPOINT\s+)?` + "`?" + `([A-Za-z0-9_$]+)` + "`?" + `\s*$`)
	reRelease    = regexp.MustCompile(`(?is)^\s*RELEASE\s+SAVEPOINT\s+` + "`?" + `([A-Za-z0-9_$]+)` + "`?" + `\s*$`)
)

func trimSemis(q string) string {
	q = strings.TrimSpace(q)
	for strings.HasSuffix(q, ";") {
		q = strings.TrimSpace(strings.TrimSuffix(q, ";"))
	}
	return q
}

// execSQL runs one query string (possibly several statements) for connection c.
// Called with s.mu held.
func (s *Server) execSQL(c *conn, query string, args []Value, allowMulti bool) ([]*result, error) {
	q := trimSemis(query)
	if m := reXA.FindStringSubmatch(q); m != nil {
		r, err := s.execXA(c, strings.ToUpper(m[1]), m[2])
		return []*result{r}, err
	}
	if m := reSavepoint.FindStringSubmatch(q); m != nil {
		if c.tx != nil {
			c.tx.saves = append(c.tx.saves, savepoint{strings.ToLower(m[1]), copyWrites(c.tx.writes), append([]wkey(nil), c.tx.order...), copyLocks(c.tx.locks)})
		}
		return []*result{{}}, nil
	}
	if m := reRollbackTo.FindStringSubmatch(q); m != nil {
		name := strings.ToLower(m[1])
		if c.tx != nil {
			for i := len(c.tx.saves) - 1; i >= 0; i-- {
				if c.tx.saves[i].name == name {
					sp := c.tx.saves[i]
					c.tx.writes = copyWrites(sp.writes)
					c.tx.order = append([]wkey(nil), sp.order...)
					// A2: locks taken after the savepoint are released
					for l := range c.tx.locks {
						if !sp.locks[l] {
							if s.locks[l] == c.tx {
								delete(s.locks, l)
							}
							delete(c.tx.locks, l)
						}
					}
					s.cond.Broadcast()
					c.tx.saves = c.tx.saves[:i+1]
					return []*result{{}}, nil
				}
			}
		}
		return nil, myErr(1305, "SAVEPOINT %s does not exist", m[1])
	}
	if m := reRelease.FindStringSubmatch(q); m != nil {
		name := strings.ToLower(m[1])
		if c.tx != nil {
			for i := len(c.tx.saves) - 1; i >= 0; i-- {
				if c.tx.saves[i].name == name {
					c.tx.saves = c.tx.saves[:i]
					return []*result{{}}, nil
				}
			}
		}
		return nil, myErr(1305, "SAVEPOINT %s does not exist", m[1])
	}
	p := aparser.New()
	nodes, _, err := p.Parse(query, "", "")
	if err != nil {
		return nil, myErr(1064, "You have an error in your SQL syntax; %v", err)
	}
	if len(nodes) == 0 {
		return nil, myErr(1065, "Query was empty")
	}
	if len(nodes) > 1 && !allowMulti {
		return nil, myErr(1064, "You have an error in your SQL syntax; multiple statements need multiStatements=true")
	}
	// parameter markers are numbered per statement by the parser; number them across the whole string
	base := 0
	var out []*result
	for _, n := range nodes {
		cnt := renumberParams(n, base)
		r, err := s.execStmt(c, n, args)
		if err != nil {
			return out, err
		}
		out = append(out, r)
		base += cnt
	}
	return out, nil
}

func copyLocks(m map[string]bool) map[string]bool {
	out := map[string]bool{}
	for k, v := range m {
		out[k] = v
	}
	return out
}

type paramVisitor struct {
	markers []*test_driver.ParamMarkerExpr
}

func (v *paramVisitor) Enter(n ast.Node) (ast.Node, bool) {
	if p, ok := n.(*test_driver.ParamMarkerExpr); ok {
		v.markers = append(v.markers, p)
	}
	return n, false
}
func (v *paramVisitor) Leave(n ast.Node) (ast.Node, bool) { return n, true }

// renumberParams makes marker orders global over a multi-statement string (by text offset).
func renumberParams(n ast.StmtNode, base int) int {
	v := &paramVisitor{}
	n.Accept(v)
	sort.Slice(v.markers, func(i, j int) bool { return v.markers[i].Offset < v.markers[j].Offset })
	for i, m := range v.markers {
		m.Order = base + i
	}
	return len(v.markers)
}

func countParams(query string) int {
	p := aparser.New()
	nodes, _, err := p.Parse(query, "", "")
	if err != nil {
		return strings.Count(query, "?")
	}
	n := 0
	for _, nd := range nodes {
		v := &paramVisitor{}
		nd.Accept(v)
		n += len(v.markers)
	}
	return n
}

// withTxn runs f inside c's transaction, or inside an implicit one that is committed at the end (autocommit).
func (s *Server) withTxn(c *conn, f func(tx *txn) (*result, error)) (*result, error) {
	implicit := c.tx == nil
	tx := c.tx
	if implicit {
		tx = s.newTxn(c)
	} else if tx.xaSt == 2 || tx.xaSt == 3 {
		return nil, myErr(1399, "XAER_RMFAIL: The command cannot be executed when global transaction is in the %s state", xaStateName(tx.xaSt))
	}
	// statement-level atomicity
	savedW, savedO := copyWrites(tx.writes), append([]wkey(nil), tx.order...)
	r, err := f(tx)
	if err != nil {
		tx.writes, tx.order = savedW, savedO
		if implicit {
			s.releaseLocks(tx)
		}
		return nil, err
	}
	if implicit {
		ws := s.commitLocked(tx)
		if len(ws) > 0 {
			c.autoWS = ws
		}
	}
	return r, nil
}

func (s *Server) execStmt(c *conn, n ast.StmtNode, args []Value) (*result, error) {
	switch st := n.(type) {
	case *ast.SelectStmt:
		return s.execSelect(c, st, args)
	case *ast.InsertStmt:
		return s.withTxn(c, func(tx *txn) (*result, error) { return s.execInsert(tx, st, args) })
	case *ast.UpdateStmt:
		return s.withTxn(c, func(tx *txn) (*result, error) { return s.execUpdate(tx, st, args) })
	case *ast.DeleteStmt:
		return s.withTxn(c, func(tx *txn) (*result, error) { return s.execDelete(tx, st, args) })
	case *ast.BeginStmt:
		if err := s.beginLocked(c); err != nil {
			return nil, err
		}
		return &result{}, nil
	case *ast.CommitStmt:
		_, err := s.commitConn(c)
		return &result{}, err
	case *ast.RollbackStmt:
		return &result{}, s.rollbackConn(c)
	case *ast.SetStmt, *ast.UseStmt:
		return &result{}, nil
	case *ast.ShowStmt:
		if st.Tp == ast.ShowVariables {
			r := &result{isQuery: true, cols: []resCol{{name: "Variable_name"}, {name: "Value"}}}
			pat := ""
			if st.Pattern != nil {
				if v, ok := st.Pattern.Pattern.(*test_driver.ValueExpr); ok {
					pat = v.GetString()
				}
			}
			vars := map[string]string{"auto_increment_increment": "1", "auto_increment_offset": "1", "version": s.Version}
			var names []string
			for k := range vars {
				names = append(names, k)
			}
			sort.Strings(names)
			for _, k := range names {
				if pat == "" || likeMatch(k, pat) {
					r.rows = append(r.rows, []Value{k, vars[k]})
				}
			}
			return r, nil
		}
		return &result{isQuery: true, cols: []resCol{{name: "x"}}}, nil
	case *ast.CreateTableStmt:
		if c.tx != nil && c.tx.xaSt == 0 {
			s.commitConn(c) // implicit commit
		}
		return &result{}, s.createTable(st)
	case *ast.DropTableStmt:
		if c.tx != nil && c.tx.xaSt == 0 {
			s.commitConn(c)
		}
		for _, tn := range st.Tables {
			if s.table(tn.Name.O) == nil {
				if st.IfExists {
					continue
				}
				return nil, myErr(1051, "Unknown table '%s.%s'", s.DBName, tn.Name.O)
			}
			delete(s.tables, lower(tn.Name.O))
		}
		return &result{}, nil
	}
	return nil, myErr(1235, "memdb: statement type %T is not supported", n)
}

// ---- DDL ---------------------------------------------------------------------

func (s *Server) createTable(st *ast.CreateTableStmt) error {
	name := st.Table.Name.O
	if s.table(name) != nil {
		if st.IfNotExists {
			return nil
		}
		return myErr(1050, "Table '%s' already exists", name)
	}
	t := &Table{Name: name, rows: map[string]Row{}}
	for _, cd := range st.Cols {
		compact := cd.Tp.CompactStr()
		typ := strings.ToUpper(compact)
		if i := strings.IndexByte(typ, '('); i >= 0 {
			typ = typ[:i]
		}
		col := Column{Name: cd.Name.Name.O, Type: typ, ColumnType: cd.Tp.InfoSchemaStr(), Nullable: true, Unsigned: pmysql.HasUnsignedFlag(cd.Tp.Flag)}
		switch classOf(typ) {
		case clsString, clsBytes:
			if cd.Tp.Flen > 0 && (typ == "VARCHAR" || typ == "CHAR" || typ == "VARBINARY" || typ == "BINARY") {
				col.Length = cd.Tp.Flen
			}
		case clsDecimal:
			if cd.Tp.Decimal > 0 {
				col.Scale = cd.Tp.Decimal
			}
		case clsTime:
			if cd.Tp.Decimal > 0 {
				col.Scale = cd.Tp.Decimal
			}
		}
		isPK := false
		for _, o := range cd.Options {
			switch o.Tp {
			case ast.ColumnOptionNotNull:
				col.Nullable = false
			case ast.ColumnOptionNull:
				col.Nullable = true
			case ast.ColumnOptionAutoIncrement:
				col.AutoInc = true
			case ast.ColumnOptionPrimaryKey:
				isPK = true
				col.Nullable = false
			case ast.ColumnOptionUniqKey:
				t.Indexes = append(t.Indexes, Index{Name: col.Name, Cols: []int{len(t.Cols)}, Unique: true})
			case ast.ColumnOptionDefaultValue:
				v, err := evalExpr(&evalCtx{}, o.Expr)
				if err != nil {
					return err
				}
				col.HasDefault = true
				if v != nil {
					cv, err := coerce(&col, v)
					if err != nil {
						return err
					}
					v = cv
				}
				col.Default = v
			}
		}
		if isPK {
			t.PK = []int{len(t.Cols)}
		}
		t.Cols = append(t.Cols, col)
	}
	for _, k := range st.Constraints {
		var cols []int
		for _, key := range k.Keys {
			ci := t.colIndex(key.Column.Name.O)
			if ci < 0 {
				return myErr(1072, "Key column '%s' doesn't exist in table", key.Column.Name.O)
			}
			cols = append(cols, ci)
		}
		switch k.Tp {
		case ast.ConstraintPrimaryKey:
			t.PK = cols
			for _, ci := range cols {
				t.Cols[ci].Nullable = false
			}
		case ast.ConstraintUniq, ast.ConstraintUniqKey, ast.ConstraintUniqIndex:
			n := k.Name
			if n == "" {
				n = t.Cols[cols[0]].Name
			}
			t.Indexes = append(t.Indexes, Index{Name: n, Cols: cols, Unique: true})
		case ast.ConstraintKey, ast.ConstraintIndex:
			n := k.Name
			if n == "" {
				n = t.Cols[cols[0]].Name
			}
			t.Indexes = append(t.Indexes, Index{Name: n, Cols: cols})
		}
	}
	if len(t.PK) > 0 {
		t.Indexes = append([]Index{{Name: "PRIMARY", Cols: t.PK, Unique: true}}, t.Indexes...)
	}
	s.tables[lower(name)] = t
	s.tableSeq = append(s.tableSeq, lower(name))
	return nil
}

// ---- expression evaluation ---------------------------------------------------

type evalCtx struct {
	t      *Table
	row    Row
	args   []Value
	values Row // the would-be-inserted row, for VALUES(col) in ON DUPLICATE KEY UPDATE
	srv    *Server
}

func truth(v Value) (b, isNull bool) {
	if v == nil {
		return false, true
	}
	switch x := v.(type) {
	case bool:
		return x, false
	case string:
		return toFloat(x) != 0, false
	}
	return toFloat(v) != 0, false
}

func evalExpr(ec *evalCtx, e ast.ExprNode) (Value, error) {
	switch x := e.(type) {
	case *test_driver.ParamMarkerExpr:
		if x.Order >= len(ec.args) {
			return nil, myErr(1210, "Incorrect arguments to EXECUTE (marker %d, %d arguments)", x.Order, len(ec.args))
		}
		return ec.args[x.Order], nil
	case *test_driver.ValueExpr:
		switch x.Kind() {
		case test_driver.KindNull:
			return nil, nil
		case test_driver.KindInt64:
			return x.GetInt64(), nil
		case test_driver.KindUint64:
			u := x.GetUint64()
			if u <= 1<<63-1 {
				return int64(u), nil
			}
			return u, nil
		case test_driver.KindFloat32, test_driver.KindFloat64:
			return x.GetFloat64(), nil
		case test_driver.KindString, test_driver.KindBytes:
			return x.GetString(), nil
		case test_driver.KindMysqlDecimal:
			return x.GetMysqlDecimal().String(), nil
		case test_driver.KindBinaryLiteral:
			return string(x.GetBinaryLiteral()), nil
		}
		return fmt.Sprint(x.GetValue()), nil
	case *ast.ColumnNameExpr:
		if ec.t == nil {
			return nil, myErr(1054, "Unknown column '%s' in 'field list'", x.Name.Name.O)
		}
		if x.Name.Table.O != "" && !strings.EqualFold(x.Name.Table.O, ec.t.Name) {
			return nil, myErr(1054, "Unknown column '%s.%s'", x.Name.Table.O, x.Name.Name.O)
		}
		ci := ec.t.colIndex(x.Name.Name.O)
		if ci < 0 {
			return nil, myErr(1054, "Unknown column '%s' in 'field list'", x.Name.Name.O)
		}
		return ec.row[ci], nil
	case *ast.ParenthesesExpr:
		return evalExpr(ec, x.Expr)
	case *ast.UnaryOperationExpr:
		v, err := evalExpr(ec, x.V)
		if err != nil {
			return nil, err
		}
		switch x.Op {
		case opcode.Not, opcode.Not2:
			b, null := truth(v)
			if null {
				return nil, nil
			}
			return !b, nil
		case opcode.Minus:
			if v == nil {
				return nil, nil
			}
			if i, ok := v.(int64); ok {
				return -i, nil
			}
			return -toFloat(v), nil
		case opcode.Plus:
			return v, nil
		}
		return nil, myErr(1235, "memdb: unary operator %v", x.Op)
	case *ast.BinaryOperationExpr:
		switch x.Op {
		case opcode.LogicAnd:
			l, err := evalExpr(ec, x.L)
			if err != nil {
				return nil, err
			}
			lb, ln := truth(l)
			if !ln && !lb {
				return false, nil
			}
			r, err := evalExpr(ec, x.R)
			if err != nil {
				return nil, err
			}
			rb, rn := truth(r)
			if !rn && !rb {
				return false, nil
			}
			if ln || rn {
				return nil, nil
			}
			return true, nil
		case opcode.LogicOr:
			l, err := evalExpr(ec, x.L)
			if err != nil {
				return nil, err
			}
			lb, ln := truth(l)
			if !ln && lb {
				return true, nil
			}
			r, err := evalExpr(ec, x.R)
			if err != nil {
				return nil, err
			}
			rb, rn := truth(r)
			if !rn && rb {
				return true, nil
			}
			if ln || rn {
				return nil, nil
			}
			return false, nil
		}
		l, err := evalExpr(ec, x.L)
		if err != nil {
			return nil, err
		}
		r, err := evalExpr(ec, x.R)
		if err != nil {
			return nil, err
		}
		// row-value comparison
		if lr, ok := l.([]Value); ok {
			rr, ok2 := r.([]Value)
			if !ok2 || len(lr) != len(rr) {
				return nil, myErr(1241, "Operand should contain %d column(s)", len(lr))
			}
			if x.Op != opcode.EQ {
				return nil, myErr(1235, "memdb: row comparison other than =")
			}
			all := true
			for i := range lr {
				c, ok := compare(lr[i], rr[i])
				if !ok {
					return nil, nil
				}
				if c != 0 {
					all = false
				}
			}
			return all, nil
		}
		switch x.Op {
		case opcode.EQ, opcode.NE, opcode.LT, opcode.LE, opcode.GT, opcode.GE:
			c, ok := compare(l, r)
			if !ok {
				return nil, nil
			}
			switch x.Op {
			case opcode.EQ:
				return c == 0, nil
			case opcode.NE:
				return c != 0, nil
			case opcode.LT:
				return c < 0, nil
			case opcode.LE:
				return c <= 0, nil
			case opcode.GT:
				return c > 0, nil
			default:
				return c >= 0, nil
			}
		case opcode.NullEQ:
			if l == nil || r == nil {
				return l == nil && r == nil, nil
			}
			c, _ := compare(l, r)
			return c == 0, nil
		case opcode.Plus, opcode.Minus, opcode.Mul, opcode.Div, opcode.IntDiv, opcode.Mod:
			if l == nil || r == nil {
				return nil, nil
			}
			li, lok := l.(int64)
			ri, rok := r.(int64)
			if lok && rok && x.Op != opcode.Div {
				switch x.Op {
				case opcode.Plus:
					return li + ri, nil
				case opcode.Minus:
					return li - ri, nil
				case opcode.Mul:
					return li * ri, nil
				case opcode.IntDiv:
					if ri == 0 {
						return nil, nil
					}
					return li / ri, nil
				case opcode.Mod:
					if ri == 0 {
						return nil, nil
					}
					return li % ri, nil
				}
			}
			lf, rf := toFloat(l), toFloat(r)
			switch x.Op {
			case opcode.Plus:
				return lf + rf, nil
			case opcode.Minus:
				return lf - rf, nil
			case opcode.Mul:
				return lf * rf, nil
			case opcode.Div:
				if rf == 0 {
					return nil, nil
				}
				return lf / rf, nil
			}
		}
		return nil, myErr(1235, "memdb: binary operator %v", x.Op)
	case *ast.RowExpr:
		out := make([]Value, len(x.Values))
		for i, ve := range x.Values {
			v, err := evalExpr(ec, ve)
			if err != nil {
				return nil, err
			}
			out[i] = v
		}
		return out, nil
	case *ast.PatternInExpr:
		if x.Sel != nil {
			return nil, myErr(1235, "memdb: IN (subquery)")
		}
		l, err := evalExpr(ec, x.Expr)
		if err != nil {
			return nil, err
		}
		found, sawNull := false, false
		for _, item := range x.List {
			r, err := evalExpr(ec, item)
			if err != nil {
				return nil, err
			}
			eq, err := evalEq(l, r)
			if err != nil {
				return nil, err
			}
			if eq == nil {
				sawNull = true
			} else if eq.(bool) {
				found = true
				break
			}
		}
		if found {
			return !x.Not, nil
		}
		if sawNull {
			return nil, nil
		}
		return x.Not, nil
	case *ast.BetweenExpr:
		v, err := evalExpr(ec, x.Expr)
		if err != nil {
			return nil, err
		}
		lo, err := evalExpr(ec, x.Left)
		if err != nil {
			return nil, err
		}
		hi, err := evalExpr(ec, x.Right)
		if err != nil {
			return nil, err
		}
		c1, ok1 := compare(v, lo)
		c2, ok2 := compare(v, hi)
		if !ok1 || !ok2 {
			return nil, nil
		}
		in := c1 >= 0 && c2 <= 0
		if x.Not {
			in = !in
		}
		return in, nil
	case *ast.IsNullExpr:
		v, err := evalExpr(ec, x.Expr)
		if err != nil {
			return nil, err
		}
		return (v == nil) != x.Not, nil
	case *ast.IsTruthExpr:
		v, err := evalExpr(ec, x.Expr)
		if err != nil {
			return nil, err
		}
		b, null := truth(v)
		res := !null && (b == (x.True != 0))
		return res != x.Not, nil
	case *ast.PatternLikeExpr:
		v, err := evalExpr(ec, x.Expr)
		if err != nil {
			return nil, err
		}
		p, err := evalExpr(ec, x.Pattern)
		if err != nil {
			return nil, err
		}
		if v == nil || p == nil {
			return nil, nil
		}
		m := likeMatch(string(textOf(nil, v)), string(textOf(nil, p)))
		return m != x.Not, nil
	case *ast.DefaultExpr:
		if x.Name != nil && ec.t != nil {
			ci := ec.t.colIndex(x.Name.Name.O)
			if ci < 0 {
				return nil, myErr(1054, "Unknown column '%s'", x.Name.Name.O)
			}
			return ec.t.Cols[ci].Default, nil
		}
		return defaultMarker{}, nil
	case *ast.ValuesExpr:
		if ec.values == nil || ec.t == nil {
			return nil, nil
		}
		ci := ec.t.colIndex(x.Column.Name.Name.O)
		if ci < 0 {
			return nil, myErr(1054, "Unknown column '%s'", x.Column.Name.Name.O)
		}
		return ec.values[ci], nil
	case *ast.FuncCallExpr:
		switch x.FnName.L {
		case "now", "current_timestamp", "sysdate", "localtime", "localtimestamp":
			return fixedNow, nil
		case "version":
			if ec.srv != nil {
				return ec.srv.Version, nil
			}
			return "8.0.28", nil
		case "default":
			if len(x.Args) == 1 {
				if cn, ok := x.Args[0].(*ast.ColumnNameExpr); ok && ec.t != nil {
					ci := ec.t.colIndex(cn.Name.Name.O)
					if ci >= 0 {
						return ec.t.Cols[ci].Default, nil
					}
				}
			}
		case "concat":
			var sb strings.Builder
			for _, a := range x.Args {
				v, err := evalExpr(ec, a)
				if err != nil {
					return nil, err
				}
				if v == nil {
					return nil, nil
				}
				sb.Write(textOf(nil, v))
			}
			return sb.String(), nil
		case "database":
			if ec.srv != nil {
				return ec.srv.DBName, nil
			}
		}
		return nil, myErr(1305, "FUNCTION %s does not exist (memdb)", x.FnName.O)
	}
	return nil, myErr(1235, "memdb: expression %T is not supported", e)
}

// fixedNow is what now() returns: the model has no wall clock.
var fixedNow = time.Date(2024, 1, 2, 3, 4, 5, 678901000, time.UTC)

type defaultMarker struct{}

func evalEq(l, r Value) (Value, error) {
	if lr, ok := l.([]Value); ok {
		rr, ok2 := r.([]Value)
		if !ok2 || len(lr) != len(rr) {
			return nil, myErr(1241, "Operand should contain %d column(s)", len(lr))
		}
		all := true
		for i := range lr {
			c, ok := compare(lr[i], rr[i])
			if !ok {
				return nil, nil
			}
			if c != 0 {
				all = false
			}
		}
		return all, nil
	}
	c, ok := compare(l, r)
	if !ok {
		return nil, nil
	}
	return c == 0, nil
}

func likeMatch(s, pat string) bool {
	var sb strings.Builder
	sb.WriteString("(?s)^")
	for i := 0; i < len(pat); i++ {
		switch pat[i] {
		case '%':
			sb.WriteString(".*")
		case '_':
			sb.WriteString(".")
		case '\\':
			if i+1 < len(pat) {
				i++
				sb.WriteString(regexp.QuoteMeta(string(pat[i])))
			}
		default:
			sb.WriteString(regexp.QuoteMeta(string(pat[i])))
		}
	}
	sb.WriteString("$")
	re, err := regexp.Compile(sb.String())
	return err == nil && re.MatchString(s)
}

// ---- table resolution --------------------------------------------------------

func singleTable(refs *ast.TableRefsClause) (schema, name string, err error) {
	if refs == nil || refs.TableRefs == nil {
		return "", "", nil
	}
	j := refs.TableRefs
	if j.Right != nil {
		return "", "", myErr(1235, "memdb: joins are not supported")
	}
	src, ok := j.Left.(*ast.TableSource)
	if !ok {
		return "", "", myErr(1235, "memdb: table reference %T", j.Left)
	}
	tn, ok := src.Source.(*ast.TableName)
	if !ok {
		return "", "", myErr(1235, "memdb: derived tables are not supported")
	}
	return tn.Schema.O, tn.Name.O, nil
}

func (s *Server) resolve(schema, name string) (*Table, error) {
	if strings.EqualFold(schema, "information_schema") {
		switch strings.ToUpper(name) {
		case "COLUMNS":
			return s.infoColumns(), nil
		case "STATISTICS":
			return s.infoStatistics(), nil
		}
		return nil, myErr(1109, "Unknown table '%s' in information_schema", name)
	}
	t := s.table(name)
	if t == nil {
		return nil, myErr(1146, "Table '%s.%s' doesn't exist", s.DBName, name)
	}
	return t, nil
}

func strCols(names ...string) []Column {
	out := make([]Column, len(names))
	for i, n := range names {
		out[i] = Column{Name: n, Type: "VARCHAR", ColumnType: "varchar(64)", Nullable: true}
	}
	return out
}

func (s *Server) infoColumns() *Table {
	t := &Table{Name: "COLUMNS", Cols: strCols("TABLE_NAME", "TABLE_SCHEMA", "COLUMN_NAME", "DATA_TYPE", "COLUMN_TYPE", "COLUMN_KEY", "IS_NULLABLE", "COLUMN_DEFAULT", "EXTRA", "ORDINAL_POSITION"), rows: map[string]Row{}, PK: []int{0, 9}}
	t.Cols[9].Type = "BIGINT"
	for _, tn := range s.tableSeq {
		tb := s.tables[tn]
		if tb == nil {
			continue
		}
		for i, c := range tb.Cols {
			key := ""
			for _, ix := range tb.Indexes {
				if ix.Cols[0] == i {
					switch {
					case ix.Name == "PRIMARY":
						key = "PRI"
					case ix.Unique && key == "":
						key = "UNI"
					case key == "":
						key = "MUL"
					}
				}
			}
			for _, ci := range tb.PK {
				if ci == i {
					key = "PRI"
				}
			}
			nullable := "NO"
			if c.Nullable {
				nullable = "YES"
			}
			var def Value
			if c.HasDefault && c.Default != nil {
				def = string(textOf(&c, c.Default))
			}
			extra := ""
			if c.AutoInc {
				extra = "auto_increment"
			}
			r := Row{tb.Name, s.DBName, c.Name, strings.ToLower(c.Type), c.ColumnType, key, nullable, def, extra, int64(i + 1)}
			t.rows[t.pkKey(r)] = r
		}
	}
	return t
}

func (s *Server) infoStatistics() *Table {
	t := &Table{Name: "STATISTICS", Cols: strCols("TABLE_SCHEMA", "TABLE_NAME", "INDEX_NAME", "COLUMN_NAME", "NON_UNIQUE", "SEQ_IN_INDEX", "IDX_ORD"), rows: map[string]Row{}, PK: []int{1, 6, 5}}
	t.Cols[4].Type, t.Cols[5].Type, t.Cols[6].Type = "BIGINT", "BIGINT", "BIGINT"
	for _, tn := range s.tableSeq {
		tb := s.tables[tn]
		if tb == nil {
			continue
		}
		for k, ix := range tb.Indexes {
			for j, ci := range ix.Cols {
				nu := int64(1)
				if ix.Unique {
					nu = 0
				}
				r := Row{s.DBName, tb.Name, ix.Name, tb.Cols[ci].Name, nu, int64(j + 1), int64(k)}
				t.rows[t.pkKey(r)] = r
			}
		}
	}
	return t
}

// ---- SELECT ------------------------------------------------------------------

func exprText(e ast.Node) string {
	var sb strings.Builder
	e.Restore(format.NewRestoreCtx(format.DefaultRestoreFlags, &sb))
	return sb.String()
}

func (s *Server) matchRows(tx *txn, t *Table, where ast.ExprNode, order *ast.OrderByClause, limit *ast.Limit, args []Value) ([]Row, error) {
	isInfo := s.tables[lower(t.Name)] != t
	var src []Row
	if isInfo {
		src = sortedRows(t)
	} else {
		src = s.visible(tx, t)
	}
	var rows []Row
	for _, r := range src {
		if where != nil {
			ec := &evalCtx{t: t, row: r, args: args, srv: s}
			if isInfo {
				// identifiers in information_schema compare case-insensitively (A1)
				ec = &evalCtx{t: t, row: lowerRow(r), args: lowerArgs(args), srv: s}
			}
			v, err := evalExpr(ec, where)
			if err != nil {
				return nil, err
			}
			if b, null := truth(v); null || !b {
				continue
			}
		}
		rows = append(rows, r)
	}
	if order != nil {
		var sortErr error
		sort.SliceStable(rows, func(i, j int) bool {
			for _, it := range order.Items {
				a, err := evalExpr(&evalCtx{t: t, row: rows[i], args: args, srv: s}, it.Expr)
				if err != nil {
					sortErr = err
					return false
				}
				b, err := evalExpr(&evalCtx{t: t, row: rows[j], args: args, srv: s}, it.Expr)
				if err != nil {
					sortErr = err
					return false
				}
				var c int
				switch {
				case a == nil && b == nil:
					c = 0
				case a == nil:
					c = -1
				case b == nil:
					c = 1
				default:
					c, _ = compare(a, b)
				}
				if it.Desc {
					c = -c
				}
				if c != 0 {
					return c < 0
				}
			}
			return false
		})
		if sortErr != nil {
			return nil, sortErr
		}
	}
	if limit != nil {
		off, cnt := int64(0), int64(-1)
		if limit.Offset != nil {
			v, err := evalExpr(&evalCtx{args: args}, limit.Offset)
			if err != nil {
				return nil, err
			}
			off = int64(toFloat(v))
		}
		if limit.Count != nil {
			v, err := evalExpr(&evalCtx{args: args}, limit.Count)
			if err != nil {
				return nil, err
			}
			cnt = int64(toFloat(v))
		}
		if off > int64(len(rows)) {
			off = int64(len(rows))
		}
		rows = rows[off:]
		if cnt >= 0 && cnt < int64(len(rows)) {
			rows = rows[:cnt]
		}
	}
	return rows, nil
}

func lowerRow(r Row) Row {
	out := make(Row, len(r))
	for i, v := range r {
		if sv, ok := v.(string); ok {
			out[i] = strings.ToLower(sv)
		} else {
			out[i] = v
		}
	}
	return out
}

func lowerArgs(a []Value) []Value { return []Value(lowerRow(Row(a))) }

// lockMatched matches rows and takes their row locks; repeats when it had to wait (the world may have changed).
func (s *Server) lockMatched(tx *txn, t *Table, where ast.ExprNode, order *ast.OrderByClause, limit *ast.Limit, args []Value) ([]Row, error) {
	for {
		rows, err := s.matchRows(tx, t, where, order, limit, args)
		if err != nil {
			return nil, err
		}
		fresh := false
		for _, r := range rows {
			name := lockName(t.Name, t.pkKey(r))
			if !tx.locks[name] {
				owner := s.locks[name]
				waited := owner != nil && owner != tx
				if err := s.acquire(tx, name); err != nil {
					return nil, err
				}
				if waited {
					fresh = true
				}
			}
		}
		if !fresh {
			return rows, nil
		}
	}
}

func (s *Server) execSelect(c *conn, st *ast.SelectStmt, args []Value) (*result, error) {
	schema, name, err := singleTable(st.From)
	if err != nil {
		return nil, err
	}
	res := &result{isQuery: true}
	if name == "" {
		row := []Value{}
		for _, f := range st.Fields.Fields {
			v, err := evalExpr(&evalCtx{args: args, srv: s}, f.Expr)
			if err != nil {
				return nil, err
			}
			n := f.AsName.O
			if n == "" {
				n = exprText(f.Expr)
			}
			res.cols = append(res.cols, resCol{name: n})
			row = append(row, normValue(v))
		}
		res.rows = [][]Value{row}
		return res, nil
	}
	t, err := s.resolve(schema, name)
	if err != nil {
		return nil, err
	}
	forUpdate := st.LockInfo != nil && (st.LockInfo.LockType == ast.SelectLockForUpdate || st.LockInfo.LockType == ast.SelectLockForUpdateNoWait)
	run := func(tx *txn) (*result, error) {
		var rows []Row
		var err error
		if forUpdate && tx != nil {
			rows, err = s.lockMatched(tx, t, st.Where, st.OrderBy, st.Limit, args)
		} else {
			rows, err = s.matchRows(tx, t, st.Where, st.OrderBy, st.Limit, args)
		}
		if err != nil {
			return nil, err
		}
		type proj struct {
			ci   int
			expr ast.ExprNode
		}
		var projs []proj
		for _, f := range st.Fields.Fields {
			if f.WildCard != nil {
				for i := range t.Cols {
					if t.Cols[i].Name == "ORDINAL_POSITION" || t.Cols[i].Name == "IDX_ORD" {
						continue
					}
					res.cols = append(res.cols, resCol{name: t.Cols[i].Name, col: &t.Cols[i]})
					projs = append(projs, proj{ci: i})
				}
				continue
			}
			n := f.AsName.O
			if cn, ok := f.Expr.(*ast.ColumnNameExpr); ok {
				ci := t.colIndex(cn.Name.Name.O)
				if ci < 0 {
					return nil, myErr(1054, "Unknown column '%s' in 'field list'", cn.Name.Name.O)
				}
				if n == "" {
					n = cn.Name.Name.O
				}
				res.cols = append(res.cols, resCol{name: n, col: &t.Cols[ci]})
				projs = append(projs, proj{ci: ci})
				continue
			}
			if n == "" {
				n = exprText(f.Expr)
			}
			res.cols = append(res.cols, resCol{name: n})
			projs = append(projs, proj{ci: -1, expr: f.Expr})
		}
		for _, r := range rows {
			out := make([]Value, len(projs))
			for i, p := range projs {
				if p.ci >= 0 {
					out[i] = r[p.ci]
					continue
				}
				v, err := evalExpr(&evalCtx{t: t, row: r, args: args, srv: s}, p.expr)
				if err != nil {
					return nil, err
				}
				out[i] = normValue(v)
			}
			res.rows = append(res.rows, out)
		}
		return res, nil
	}
	if forUpdate {
		return s.withTxn(c, run)
	}
	if c.tx != nil && (c.tx.xaSt == 2 || c.tx.xaSt == 3) {
		return nil, myErr(1399, "XAER_RMFAIL: The command cannot be executed when global transaction is in the %s state", xaStateName(c.tx.xaSt))
	}
	return run(c.tx)
}

func normValue(v Value) Value {
	switch x := v.(type) {
	case bool:
		return boolInt(x)
	case defaultMarker:
		return nil
	case []Value:
		return fmt.Sprint(x)
	}
	return v
}

// ---- INSERT ------------------------------------------------------------------

func (s *Server) checkRow(t *Table, r Row) error {
	for i := range t.Cols {
		if r[i] == nil && !t.Cols[i].Nullable {
			return myErr(1048, "Column '%s' cannot be null", t.Cols[i].Name)
		}
	}
	return nil
}

func uniqueLockName(t *Table, ix Index, r Row) (string, bool) {
	var sb strings.Builder
	sb.WriteString("uk:" + ix.Name)
	for _, ci := range ix.Cols {
		if r[ci] == nil {
			return "", false // NULLs never collide
		}
		sb.WriteByte(0x1f)
		sb.WriteString(keyText(r[ci]))
	}
	return lockName(t.Name, sb.String()), true
}

// findConflict returns a visible row that collides with r on the primary key or a unique index (skipping selfPK).
func (s *Server) findConflict(tx *txn, t *Table, r Row, selfPK string) (Row, string) {
	for _, ix := range t.Indexes {
		if !ix.Unique {
			continue
		}
		hasNull := false
		for _, ci := range ix.Cols {
			if r[ci] == nil {
				hasNull = true
			}
		}
		if hasNull {
			continue
		}
		for _, o := range s.visible(tx, t) {
			if t.pkKey(o) == selfPK {
				continue
			}
			same := true
			for _, ci := range ix.Cols {
				if keyText(o[ci]) != keyText(r[ci]) {
					same = false
					break
				}
			}
			if same {
				return o, ix.Name
			}
		}
	}
	return nil, ""
}

func (s *Server) lockKeysOf(tx *txn, t *Table, r Row) error {
	if err := s.acquire(tx, lockName(t.Name, t.pkKey(r))); err != nil {
		return err
	}
	for _, ix := range t.Indexes {
		if ix.Unique && ix.Name != "PRIMARY" {
			if n, ok := uniqueLockName(t, ix, r); ok {
				if err := s.acquire(tx, n); err != nil {
					return err
				}
			}
		}
	}
	return nil
}

func (s *Server) execInsert(tx *txn, st *ast.InsertStmt, args []Value) (*result, error) {
	if tx != nil && tx.readOnly {
		return nil, myErr(1792, "Cannot execute statement in a READ ONLY transaction.")
	}
	schema, name, err := singleTable(st.Table)
	if err != nil {
		return nil, err
	}
	if schema != "" && !strings.EqualFold(schema, s.DBName) {
		return nil, myErr(1146, "Table '%s.%s' doesn't exist", schema, name)
	}
	t, err := s.resolve("", name)
	if err != nil {
		return nil, err
	}
	if st.Select != nil {
		return nil, myErr(1235, "memdb: INSERT ... SELECT is not supported")
	}
	var colIdx []int
	if len(st.Columns) == 0 {
		for i := range t.Cols {
			colIdx = append(colIdx, i)
		}
	} else {
		for _, cn := range st.Columns {
			ci := t.colIndex(cn.Name.O)
			if ci < 0 {
				return nil, myErr(1054, "Unknown column '%s' in 'field list'", cn.Name.O)
			}
			colIdx = append(colIdx, ci)
		}
	}
	lists := st.Lists
	if len(st.Setlist) > 0 {
		colIdx = nil
		var exprs []ast.ExprNode
		for _, a := range st.Setlist {
			ci := t.colIndex(a.Column.Name.O)
			if ci < 0 {
				return nil, myErr(1054, "Unknown column '%s' in 'field list'", a.Column.Name.O)
			}
			colIdx = append(colIdx, ci)
			exprs = append(exprs, a.Expr)
		}
		lists = [][]ast.ExprNode{exprs}
	}
	res := &result{}
	for _, list := range lists {
		if len(list) != len(colIdx) {
			return nil, myErr(1136, "Column count doesn't match value count at row %d", len(res.diff)+1)
		}
		r := make(Row, len(t.Cols))
		given := make([]bool, len(t.Cols))
		for k, e := range list {
			ci := colIdx[k]
			v, err := evalExpr(&evalCtx{t: t, row: r, args: args, srv: s}, e)
			if err != nil {
				return nil, err
			}
			if _, isDef := v.(defaultMarker); isDef {
				continue
			}
			cv, err := coerce(&t.Cols[ci], normValue(v))
			if err != nil {
				return nil, err
			}
			r[ci] = cv
			given[ci] = true
		}
		generated := int64(0)
		for i := range t.Cols {
			c := &t.Cols[i]
			if c.AutoInc {
				if iv, ok := r[i].(int64); !given[i] || r[i] == nil || (ok && iv == 0) {
					t.autoInc++
					r[i] = t.autoInc
					generated = t.autoInc
				} else if ok && iv > t.autoInc {
					t.autoInc = iv
				}
				continue
			}
			if !given[i] {
				if c.HasDefault {
					r[i] = c.Default
				} else if !c.Nullable {
					return nil, myErr(1364, "Field '%s' doesn't have a default value", c.Name)
				}
			}
		}
		if err := s.checkRow(t, r); err != nil {
			return nil, err
		}
		if err := s.lockKeysOf(tx, t, r); err != nil {
			return nil, err
		}
		if old, ixName := s.findConflict(tx, t, r, ""); old != nil {
			if st.IsReplace {
				// REPLACE: the conflicting row is deleted, the new one inserted (a second conflict on another key is not modelled)
				if err := s.acquire(tx, lockName(t.Name, t.pkKey(old))); err != nil {
					return nil, err
				}
				tx.put(t, t.pkKey(old), nil)
				tx.put(t, t.pkKey(r), r)
				res.affected += 2
				res.diff = append(res.diff, RowChange{Table: t.Name, PK: t.pkValues(old), Before: append(Row(nil), old...), After: append(Row(nil), r...)})
				continue
			}
			if len(st.OnDuplicate) == 0 {
				return nil, myErr(1062, "Duplicate entry '%s' for key '%s.%s'", dupText(t, old, ixName), t.Name, ixName)
			}
			// the existing row is updated instead
			if err := s.acquire(tx, lockName(t.Name, t.pkKey(old))); err != nil {
				return nil, err
			}
			nr := append(Row(nil), old...)
			for _, a := range st.OnDuplicate {
				ci := t.colIndex(a.Column.Name.O)
				if ci < 0 {
					return nil, myErr(1054, "Unknown column '%s' in 'field list'", a.Column.Name.O)
				}
				v, err := evalExpr(&evalCtx{t: t, row: nr, args: args, values: r, srv: s}, a.Expr)
				if err != nil {
					return nil, err
				}
				cv, err := coerce(&t.Cols[ci], normValue(v))
				if err != nil {
					return nil, err
				}
				nr[ci] = cv
			}
			if err := s.checkRow(t, nr); err != nil {
				return nil, err
			}
			if rowsEqual(old, nr) {
				continue
			}
			if err := s.applyUpdate(tx, t, old, nr); err != nil {
				return nil, err
			}
			res.affected += 2
			res.diff = append(res.diff, RowChange{Table: t.Name, PK: t.pkValues(old), Before: append(Row(nil), old...), After: append(Row(nil), nr...)})
			continue
		}
		tx.put(t, t.pkKey(r), r)
		res.affected++
		if generated != 0 && res.insertID == 0 {
			res.insertID = generated
		}
		res.diff = append(res.diff, RowChange{Table: t.Name, PK: t.pkValues(r), After: append(Row(nil), r...)})
	}
	return res, nil
}

func dupText(t *Table, r Row, ixName string) string {
	for _, ix := range t.Indexes {
		if ix.Name == ixName {
			var parts []string
			for _, ci := range ix.Cols {
				parts = append(parts, string(textOf(&t.Cols[ci], r[ci])))
			}
			return strings.Join(parts, "-")
		}
	}
	return ""
}

// applyUpdate replaces old by nr in tx's view (handles primary-key changes and unique checks).
func (s *Server) applyUpdate(tx *txn, t *Table, old, nr Row) error {
	oldPK, newPK := t.pkKey(old), t.pkKey(nr)
	if err := s.lockKeysOf(tx, t, nr); err != nil {
		return err
	}
	if c, ixName := s.findConflict(tx, t, nr, oldPK); c != nil {
		return myErr(1062, "Duplicate entry '%s' for key '%s.%s'", dupText(t, c, ixName), t.Name, ixName)
	}
	if oldPK != newPK {
		tx.put(t, oldPK, nil)
	}
	tx.put(t, newPK, nr)
	return nil
}

// ---- UPDATE / DELETE ---------------------------------------------------------

func (s *Server) execUpdate(tx *txn, st *ast.UpdateStmt, args []Value) (*result, error) {
	if tx != nil && tx.readOnly {
		return nil, myErr(1792, "Cannot execute statement in a READ ONLY transaction.")
	}
	schema, name, err := singleTable(st.TableRefs)
	if err != nil {
		return nil, err
	}
	_ = schema
	t, err := s.resolve("", name)
	if err != nil {
		return nil, err
	}
	rows, err := s.lockMatched(tx, t, st.Where, st.Order, st.Limit, args)
	if err != nil {
		return nil, err
	}
	res := &result{}
	for _, old := range rows {
		nr := append(Row(nil), old...)
		for _, a := range st.List {
			ci := t.colIndex(a.Column.Name.O)
			if ci < 0 {
				return nil, myErr(1054, "Unknown column '%s' in 'field list'", a.Column.Name.O)
			}
			v, err := evalExpr(&evalCtx{t: t, row: nr, args: args, srv: s}, a.Expr)
			if err != nil {
				return nil, err
			}
			if _, isDef := v.(defaultMarker); isDef {
				v = t.Cols[ci].Default
			}
			cv, err := coerce(&t.Cols[ci], normValue(v))
			if err != nil {
				return nil, err
			}
			nr[ci] = cv
		}
		if err := s.checkRow(t, nr); err != nil {
			return nil, err
		}
		if rowsEqual(old, nr) {
			continue
		}
		if err := s.applyUpdate(tx, t, old, nr); err != nil {
			return nil, err
		}
		res.affected++
		res.diff = append(res.diff, RowChange{Table: t.Name, PK: t.pkValues(old), Before: append(Row(nil), old...), After: append(Row(nil), nr...)})
	}
	return res, nil
}

func (s *Server) execDelete(tx *txn, st *ast.DeleteStmt, args []Value) (*result, error) {
	if tx != nil && tx.readOnly {
		return nil, myErr(1792, "Cannot execute statement in a READ ONLY transaction.")
	}
	if st.IsMultiTable {
		return nil, myErr(1235, "memdb: multi-table DELETE is not supported")
	}
	_, name, err := singleTable(st.TableRefs)
	if err != nil {
		return nil, err
	}
	t, err := s.resolve("", name)
	if err != nil {
		return nil, err
	}
	rows, err := s.lockMatched(tx, t, st.Where, st.Order, st.Limit, args)
	if err != nil {
		return nil, err
	}
	res := &result{}
	for _, old := range rows {
		tx.put(t, t.pkKey(old), nil)
		res.affected++
		res.diff = append(res.diff, RowChange{Table: t.Name, PK: t.pkValues(old), Before: append(Row(nil), old...)})
	}
	return res, nil
}

// ---- transaction control -----------------------------------------------------

func (s *Server) beginLocked(c *conn) error {
	if c.tx != nil {
		if c.tx.xaSt != 0 {
			return myErr(1399, "XAER_RMFAIL: The command cannot be executed when global transaction is in the %s state", xaStateName(c.tx.xaSt))
		}
		s.commitLocked(c.tx) // implicit commit of the previous transaction
	}
	c.tx = s.newTxn(c)
	return nil
}

func (s *Server) commitConn(c *conn) ([]RowChange, error) {
	if c.tx == nil {
		return nil, nil
	}
	if c.tx.xaSt != 0 {
		return nil, myErr(1399, "XAER_RMFAIL: The command cannot be executed when global transaction is in the %s state", xaStateName(c.tx.xaSt))
	}
	ws := s.commitLocked(c.tx)
	c.tx = nil
	return ws, nil
}

func (s *Server) rollbackConn(c *conn) error {
	if c.tx == nil {
		return nil
	}
	if c.tx.xaSt != 0 {
		return myErr(1399, "XAER_RMFAIL: The command cannot be executed when global transaction is in the %s state", xaStateName(c.tx.xaSt))
	}
	s.rollbackLocked(c.tx)
	c.tx = nil
	return nil
}

// ---- XA ----------------------------------------------------------------------

func xaStateName(st int) string {
	return [...]string{"NON-EXISTING", "ACTIVE", "IDLE", "PREPARED"}[st]
}

func parseXid(rest string) string {
	// 'gtrid'[,'bqual'[,formatID]] — keep the quoted parts, joined
	re := regexp.MustCompile(`'((?:[^'\\]|\\.|'')*)'`)
	ms := re.FindAllStringSubmatch(rest, -1)
	var parts []string
	for _, m := range ms {
		parts = append(parts, m[1])
	}
	if len(parts) == 0 {
		return strings.TrimSpace(rest)
	}
	return strings.Join(parts, ",")
}

func (s *Server) execXA(c *conn, verb, rest string) (*result, error) {
	rmfail := func(st int) error {
		return myErr(1399, "XAER_RMFAIL: The command cannot be executed when global transaction is in the  %s state", xaStateName(st))
	}
	upper := strings.ToUpper(rest)
	onePhase := strings.HasSuffix(strings.TrimSpace(upper), "ONE PHASE")
	xid := parseXid(rest)
	cur := 0
	if c.tx != nil {
		cur = c.tx.xaSt
	}
	switch verb {
	case "RECOVER":
		r := &result{isQuery: true, cols: []resCol{{name: "formatID"}, {name: "gtrid_length"}, {name: "bqual_length"}, {name: "data"}}}
		var ids []string
		for k := range s.prepared {
			ids = append(ids, k)
		}
		for _, oc := range s.conns {
			if oc.tx != nil && oc.tx.xaSt == 3 {
				ids = append(ids, oc.tx.xaXid)
			}
		}
		sort.Strings(ids)
		for _, id := range ids {
			r.rows = append(r.rows, []Value{int64(1), int64(len(id)), int64(0), id})
		}
		return r, nil
	case "START", "BEGIN":
		if cur != 0 {
			return nil, rmfail(cur)
		}
		if c.tx != nil {
			return nil, myErr(1400, "XAER_OUTSIDE: Some work is done outside global transaction")
		}
		if s.xaKnown(xid) {
			return nil, myErr(1440, "XAER_DUPID: The XID already exists")
		}
		c.tx = s.newTxn(c)
		c.tx.xaSt, c.tx.xaXid = 1, xid
		return &result{}, nil
	case "END":
		if cur != 1 || c.tx.xaXid != xid {
			if cur == 0 || c.tx.xaXid != xid {
				return nil, myErr(1397, "XAER_NOTA: Unknown XID")
			}
			return nil, rmfail(cur)
		}
		c.tx.xaSt = 2
		return &result{}, nil
	case "PREPARE":
		if cur != 2 || c.tx.xaXid != xid {
			if cur == 0 || c.tx.xaXid != xid {
				return nil, myErr(1397, "XAER_NOTA: Unknown XID")
			}
			return nil, rmfail(cur)
		}
		c.tx.xaSt = 3
		return &result{}, nil
	case "COMMIT":
		if cur != 0 && c.tx.xaXid == xid {
			if cur == 3 || (cur == 2 && onePhase) {
				tx := c.tx
				tx.xaSt = 0
				ws := s.commitLocked(tx)
				c.tx = nil
				c.autoWS = ws
				return &result{}, nil
			}
			return nil, rmfail(cur)
		}
		if cur != 0 {
			return nil, rmfail(cur)
		}
		if tx := s.findPrepared(c, xid); tx != nil {
			ws := s.commitLocked(tx)
			c.autoWS = ws
			return &result{}, nil
		}
		return nil, myErr(1397, "XAER_NOTA: Unknown XID")
	case "ROLLBACK":
		if cur != 0 && c.tx.xaXid == xid {
			if cur == 1 {
				return nil, rmfail(cur)
			}
			tx := c.tx
			tx.xaSt = 0
			s.rollbackLocked(tx)
			c.tx = nil
			return &result{}, nil
		}
		if cur != 0 {
			return nil, rmfail(cur)
		}
		if tx := s.findPrepared(c, xid); tx != nil {
			s.rollbackLocked(tx)
			return &result{}, nil
		}
		return nil, myErr(1397, "XAER_NOTA: Unknown XID")
	}
	return nil, myErr(1064, "memdb: XA %s", verb)
}

func (s *Server) xaKnown(xid string) bool {
	if _, ok := s.prepared[xid]; ok {
		return true
	}
	for _, oc := range s.conns {
		if oc.tx != nil && oc.tx.xaSt != 0 && oc.tx.xaXid == xid && !oc.closed {
			return true
		}
	}
	return false
}

// findPrepared detaches a prepared branch that another (or a closed) connection owns.
// Before 8.0.29 only a detached (connection gone) branch can be finished elsewhere.
func (s *Server) findPrepared(c *conn, xid string) *txn {
	if tx, ok := s.prepared[xid]; ok {
		delete(s.prepared, xid)
		tx.xaSt = 0
		return tx
	}
	if versionAtLeast(s.Version, 8, 0, 29) {
		for _, oc := range s.conns {
			if oc != c && oc.tx != nil && oc.tx.xaSt == 3 && oc.tx.xaXid == xid {
				tx := oc.tx
				oc.tx = nil
				tx.xaSt = 0
				return tx
			}
		}
	}
	return nil
}

func versionAtLeast(v string, a, b, c int) bool {
	parts := strings.SplitN(v, ".", 3)
	nums := []int{0, 0, 0}
	for i := 0; i < len(parts) && i < 3; i++ {
		n, _ := strconv.Atoi(leadingNumber(parts[i]))
		nums[i] = n
	}
	want := []int{a, b, c}
	for i := 0; i < 3; i++ {
		if nums[i] != want[i] {
			return nums[i] > want[i]
		}
	}
	return true
}

// AssignedColumns returns the column names assigned by every UPDATE (and ON DUPLICATE KEY UPDATE) in the SQL text.
func AssignedColumns(query string) []string {
	p := aparser.New()
	nodes, _, err := p.Parse(query, "", "")
	if err != nil {
		return nil
	}
	var out []string
	for _, n := range nodes {
		switch st := n.(type) {
		case *ast.UpdateStmt:
			for _, a := range st.List {
				out = append(out, a.Column.Name.O)
			}
		case *ast.InsertStmt:
			for _, a := range st.OnDuplicate {
				out = append(out, a.Column.Name.O)
			}
		}
	}
	return out
}

// InsertColumns returns the explicit column list of an INSERT (nil when the statement names no columns).
func InsertColumns(query string) []string {
	p := aparser.New()
	nodes, _, err := p.Parse(query, "", "")
	if err != nil || len(nodes) != 1 {
		return nil
	}
	st, ok := nodes[0].(*ast.InsertStmt)
	if !ok {
		return nil
	}
	var out []string
	for _, c := range st.Columns {
		out = append(out, c.Name.O)
	}
	return out
}

// TextOf renders a value as the text protocol would (no column context).
func TextOf(v Value) []byte { return textOf(nil, v) }

// ColIndexPublic is the index of the named column (case-insensitive), -1 if absent.
func (t *Table) ColIndexPublic(name string) int { return t.colIndex(name) }

// PKValuesPublic returns the primary-key values of a row of t.
func (t *Table) PKValuesPublic(r Row) []Value { return t.pkValues(r) }
