package memdb

import (
	"bytes"
	"context"
	"database/sql"
	"database/sql/driver"
	"fmt"
	"io"
	"reflect"
	"runtime"
	"strconv"
	"sync"
	"time"

	"github.com/go-sql-driver/mysql"
)

// Driver mirrors the surface of go-sql-driver/mysql v1.6.0.
type Driver struct{}

var (
	regMu   sync.Mutex
	servers = map[string]*Server{}
)

// Register makes a server reachable through DSNs whose address is srv.Addr: user:pw@tcp(<Addr>)/<DBName>?...
func Register(srv *Server) {
	regMu.Lock()
	servers[srv.Addr] = srv
	regMu.Unlock()
}

func Unregister(addr string) {
	regMu.Lock()
	delete(servers, addr)
	regMu.Unlock()
}

func DSN(srv *Server, params string) string {
	d := fmt.Sprintf("root:pw@tcp(%s)/%s", srv.Addr, srv.DBName)
	if params != "" {
		d += "?" + params
	}
	return d
}

const DefaultParams = "parseTime=true&interpolateParams=true&multiStatements=true&loc=UTC"

type connector struct {
	srv *Server
	cfg *mysql.Config
}

func (Driver) Open(dsn string) (driver.Conn, error) {
	c, err := Driver{}.OpenConnector(dsn)
	if err != nil {
		return nil, err
	}
	return c.Connect(context.Background())
}

func (Driver) OpenConnector(dsn string) (driver.Connector, error) {
	cfg, err := mysql.ParseDSN(dsn)
	if err != nil {
		return nil, err
	}
	regMu.Lock()
	srv := servers[cfg.Addr]
	regMu.Unlock()
	if srv == nil {
		return nil, fmt.Errorf("memdb: no server registered at %q", cfg.Addr)
	}
	return &connector{srv: srv, cfg: cfg}, nil
}

func (c *connector) Driver() driver.Driver { return Driver{} }

func (c *connector) Connect(ctx context.Context) (driver.Conn, error) {
	s := c.srv
	s.mu.Lock()
	defer s.mu.Unlock()
	if err := s.fault(Op{Kind: "connect"}); err != nil {
		s.record(Entry{Kind: "connect", Err: err.Error(), Injected: true})
		return nil, err
	}
	s.nextConn++
	cn := &conn{id: s.nextConn, srv: s, cfg: c.cfg}
	s.conns[cn.id] = cn
	s.record(Entry{Kind: "connect", Conn: cn.id})
	return cn, nil
}

func (s *Server) fault(op Op) error {
	s.seq++
	op.Seq = s.seq
	if s.Fault == nil {
		return nil
	}
	if s.WantGID {
		op.GID = GoroutineID()
	}
	return s.Fault(op)
}

// GoroutineID is the id of the calling goroutine.
func GoroutineID() int64 {
	var buf [64]byte
	b := buf[:runtime.Stack(buf[:], false)]
	b = bytes.TrimPrefix(b, []byte("goroutine "))
	if i := bytes.IndexByte(b, ' '); i > 0 {
		id, _ := strconv.ParseInt(string(b[:i]), 10, 64)
		return id
	}
	return 0
}

type conn struct {
	id     int
	srv    *Server
	cfg    *mysql.Config
	tx     *txn
	closed bool
	autoWS []RowChange // write set of the last autocommitted statement
}

// enter is the statement-level scheduling point (server lock not held).
func (c *conn) enter(desc string) {
	if c.srv.Sched != nil {
		c.srv.Sched.Point(desc)
	}
}

func (c *conn) txid() int {
	if c.tx != nil {
		return c.tx.id
	}
	return 0
}

func namedToValues(args []driver.NamedValue) []Value {
	out := make([]Value, len(args))
	for i, a := range args {
		out[i] = argValue(a.Value)
	}
	return out
}

func valuesToValues(args []driver.Value) []Value {
	out := make([]Value, len(args))
	for i, a := range args {
		out[i] = argValue(a)
	}
	return out
}

// argValue maps driver argument kinds onto internal values.
func argValue(v driver.Value) Value {
	switch x := v.(type) {
	case nil:
		return nil
	case int64, uint64, float64, string, time.Time, bool:
		return x
	case []byte:
		if x == nil {
			return nil
		}
		return string(x)
	case int:
		return int64(x)
	case int32:
		return int64(x)
	case int16:
		return int64(x)
	case int8:
		return int64(x)
	case uint32:
		return int64(x)
	case uint16:
		return int64(x)
	case uint8:
		return int64(x)
	case float32:
		return float64(x)
	}
	rv := reflect.ValueOf(v)
	switch rv.Kind() {
	case reflect.Int, reflect.Int8, reflect.Int16, reflect.Int32, reflect.Int64:
		return rv.Int()
	case reflect.Uint, reflect.Uint8, reflect.Uint16, reflect.Uint32, reflect.Uint64:
		u := rv.Uint()
		if u <= 1<<63-1 {
			return int64(u)
		}
		return u
	case reflect.Float32, reflect.Float64:
		return rv.Float()
	case reflect.String:
		return rv.String()
	case reflect.Slice:
		if rv.Type().Elem().Kind() == reflect.Uint8 {
			return string(rv.Bytes())
		}
	}
	return fmt.Sprint(v)
}

// run executes one statement-level operation: scheduling point, fault plan, journal.
func (c *conn) run(kind, query string, args []Value, binary bool) ([]*result, error) {
	c.enter(kind + " " + query)
	s := c.srv
	s.mu.Lock()
	defer s.mu.Unlock()
	if c.closed {
		return nil, c.deadErr()
	}
	e := Entry{Kind: kind, Conn: c.id, SQL: query, Args: args}
	if err := s.fault(Op{Conn: c.id, Kind: kind, SQL: query}); err != nil {
		e.Txn, e.Err, e.Injected = c.txid(), err.Error(), true
		if err == driver.ErrBadConn {
			s.killLocked(c)
		}
		s.record(e)
		return nil, err
	}
	e.Txn = c.txid()
	c.autoWS = nil
	rs, err := s.execSQL(c, query, args, c.cfg.MultiStatements)
	if e.Txn == 0 {
		e.Txn = c.txid()
	}
	if err != nil {
		e.Err = err.Error()
	}
	for _, r := range rs {
		if r == nil {
			continue
		}
		e.Affected += r.affected
		if r.insertID != 0 && e.InsertID == 0 {
			e.InsertID = r.insertID
		}
		e.NRows += len(r.rows)
		e.Diff = append(e.Diff, r.diff...)
	}
	s.record(e)
	if c.autoWS != nil {
		s.record(Entry{Kind: "commit", Conn: c.id, SQL: "(autocommit)", Diff: c.autoWS})
		c.autoWS = nil
	}
	return rs, err
}

// ---- Conn --------------------------------------------------------------------

func (c *conn) Prepare(query string) (driver.Stmt, error) {
	return c.PrepareContext(context.Background(), query)
}

func (c *conn) PrepareContext(ctx context.Context, query string) (driver.Stmt, error) {
	c.enter("prepare " + query)
	s := c.srv
	s.mu.Lock()
	defer s.mu.Unlock()
	if c.closed {
		return nil, c.deadErr()
	}
	e := Entry{Kind: "prepare", Conn: c.id, Txn: c.txid(), SQL: query}
	if err := s.fault(Op{Conn: c.id, Kind: "prepare", SQL: query}); err != nil {
		e.Err, e.Injected = err.Error(), true
		if err == driver.ErrBadConn {
			s.killLocked(c)
		}
		s.record(e)
		return nil, err
	}
	s.record(e)
	return &stmt{c: c, query: query, n: countParams(query)}, nil
}

func (c *conn) Close() error {
	s := c.srv
	s.mu.Lock()
	defer s.mu.Unlock()
	if !c.closed {
		s.killLocked(c)
		s.record(Entry{Kind: "close", Conn: c.id})
		s.cond.Broadcast()
	}
	return nil
}

func (c *conn) Begin() (driver.Tx, error) { return c.BeginTx(context.Background(), driver.TxOptions{}) }

func (c *conn) BeginTx(ctx context.Context, opts driver.TxOptions) (driver.Tx, error) {
	c.enter("begin")
	s := c.srv
	s.mu.Lock()
	defer s.mu.Unlock()
	if c.closed {
		return nil, c.deadErr()
	}
	// the options travel the way go-sql-driver/mysql sends them: SET TRANSACTION ISOLATION LEVEL ... and START TRANSACTION READ ONLY
	beginSQL := "START TRANSACTION"
	if opts.Isolation != 0 {
		beginSQL = fmt.Sprintf("SET TRANSACTION ISOLATION LEVEL %v; ", sql.IsolationLevel(opts.Isolation)) + beginSQL
	}
	if opts.ReadOnly {
		beginSQL += " READ ONLY"
	}
	e := Entry{Kind: "begin", Conn: c.id, SQL: beginSQL}
	if err := s.fault(Op{Conn: c.id, Kind: "begin", SQL: "START TRANSACTION"}); err != nil {
		e.Err, e.Injected = err.Error(), true
		if err == driver.ErrBadConn {
			s.killLocked(c)
		}
		s.record(e)
		return nil, err
	}
	if err := s.beginLocked(c); err != nil {
		e.Err = err.Error()
		s.record(e)
		return nil, err
	}
	e.Txn = c.txid()
	c.tx.readOnly = opts.ReadOnly
	s.record(e)
	return &tx{c: c}, nil
}

func (c *conn) Exec(query string, args []driver.Value) (driver.Result, error) {
	if len(args) != 0 && !c.cfg.InterpolateParams {
		return nil, driver.ErrSkip
	}
	rs, err := c.run("exec", query, valuesToValues(args), false)
	if err != nil {
		return nil, err
	}
	return execResult(rs), nil
}

func (c *conn) ExecContext(ctx context.Context, query string, args []driver.NamedValue) (driver.Result, error) {
	if len(args) != 0 && !c.cfg.InterpolateParams {
		return nil, driver.ErrSkip
	}
	rs, err := c.run("exec", query, namedToValues(args), false)
	if err != nil {
		return nil, err
	}
	return execResult(rs), nil
}

func (c *conn) Query(query string, args []driver.Value) (driver.Rows, error) {
	if len(args) != 0 && !c.cfg.InterpolateParams {
		return nil, driver.ErrSkip
	}
	rs, err := c.run("query", query, valuesToValues(args), false)
	if err != nil {
		return nil, err
	}
	return newRows(c, rs, false), nil
}

func (c *conn) QueryContext(ctx context.Context, query string, args []driver.NamedValue) (driver.Rows, error) {
	if len(args) != 0 && !c.cfg.InterpolateParams {
		return nil, driver.ErrSkip
	}
	rs, err := c.run("query", query, namedToValues(args), false)
	if err != nil {
		return nil, err
	}
	return newRows(c, rs, false), nil
}

func (c *conn) Ping(ctx context.Context) error {
	if c.closed {
		return driver.ErrBadConn
	}
	return nil
}

func (c *conn) ResetSession(ctx context.Context) error {
	if c.closed {
		return driver.ErrBadConn
	}
	return nil
}

func (c *conn) IsValid() bool { return !c.closed }

// deadErr is what a statement on a connection the server has dropped answers. By default driver.ErrBadConn (database/sql
// retries on another connection); a check may set Server.DeadConnErr to the real driver's behaviour after a silent
// server-side close, where the request is written before the loss is noticed: mysql.ErrInvalidConn, which is not retried -
// only ResetSession / Ping / IsValid report the connection as bad.
func (c *conn) deadErr() error {
	if c.srv.DeadConnErr != nil {
		return c.srv.DeadConnErr
	}
	return driver.ErrBadConn
}

func (c *conn) CheckNamedValue(nv *driver.NamedValue) error {
	v, err := converter{}.ConvertValue(nv.Value)
	nv.Value = v
	return err
}

// ID is the server-side connection id (for journals).
func (c *conn) ID() int { return c.id }

func execResult(rs []*result) driver.Result {
	var aff, id int64
	for _, r := range rs {
		// the driver reports the first statement's counters for multi-statement strings... it accumulates neither; keep the last non-query
		aff, id = r.affected, r.insertID
	}
	if len(rs) > 0 {
		aff, id = rs[0].affected, rs[0].insertID
		if len(rs) > 1 {
			// go-sql-driver/mysql v1.6 discards later results and reports the first
		}
	}
	return &execRes{aff, id}
}

type execRes struct{ aff, id int64 }

func (r *execRes) LastInsertId() (int64, error) { return r.id, nil }
func (r *execRes) RowsAffected() (int64, error) { return r.aff, nil }

// converter mirrors mysql.converter: like driver.DefaultParameterConverter but lets uint64 through.
type converter struct{}

func (converter) ConvertValue(v interface{}) (driver.Value, error) {
	if driver.IsValue(v) {
		return v, nil
	}
	if vr, ok := v.(driver.Valuer); ok {
		sv, err := vr.Value()
		if err != nil {
			return nil, err
		}
		if driver.IsValue(sv) {
			return sv, nil
		}
		if u, ok := sv.(uint64); ok {
			return u, nil
		}
		return nil, fmt.Errorf("non-Value type %T returned from Value", sv)
	}
	rv := reflect.ValueOf(v)
	switch rv.Kind() {
	case reflect.Ptr:
		if rv.IsNil() {
			return nil, nil
		}
		return converter{}.ConvertValue(rv.Elem().Interface())
	case reflect.Int, reflect.Int8, reflect.Int16, reflect.Int32, reflect.Int64:
		return rv.Int(), nil
	case reflect.Uint, reflect.Uint8, reflect.Uint16, reflect.Uint32, reflect.Uint64:
		return rv.Uint(), nil
	case reflect.Float32, reflect.Float64:
		return rv.Float(), nil
	case reflect.Bool:
		return rv.Bool(), nil
	case reflect.Slice:
		if rv.Type().Elem().Kind() == reflect.Uint8 {
			return rv.Bytes(), nil
		}
	case reflect.String:
		return rv.String(), nil
	}
	return nil, fmt.Errorf("unsupported type %T, a %s", v, rv.Kind())
}

// ---- Tx ----------------------------------------------------------------------

type tx struct{ c *conn }

func (t *tx) Commit() error {
	c := t.c
	c.enter("commit")
	s := c.srv
	s.mu.Lock()
	defer s.mu.Unlock()
	if c.closed {
		return c.deadErr()
	}
	e := Entry{Kind: "commit", Conn: c.id, Txn: c.txid(), SQL: "COMMIT"}
	if err := s.fault(Op{Conn: c.id, Kind: "commit", SQL: "COMMIT"}); err != nil {
		e.Err, e.Injected = err.Error(), true
		// a failed COMMIT leaves nothing committed: the server rolls the transaction back
		if err == driver.ErrBadConn {
			s.killLocked(c)
		} else if c.tx != nil && c.tx.xaSt == 0 {
			s.rollbackLocked(c.tx)
			c.tx = nil
		}
		s.record(e)
		return err
	}
	ws, err := s.commitConn(c)
	if err != nil {
		e.Err = err.Error()
	}
	e.Diff = ws
	s.record(e)
	return err
}

func (t *tx) Rollback() error {
	c := t.c
	c.enter("rollback")
	s := c.srv
	s.mu.Lock()
	defer s.mu.Unlock()
	if c.closed {
		return c.deadErr()
	}
	e := Entry{Kind: "rollback", Conn: c.id, Txn: c.txid(), SQL: "ROLLBACK"}
	if err := s.fault(Op{Conn: c.id, Kind: "rollback", SQL: "ROLLBACK"}); err != nil {
		e.Err, e.Injected = err.Error(), true
		if err == driver.ErrBadConn {
			s.killLocked(c)
		}
		s.record(e)
		return err
	}
	err := s.rollbackConn(c)
	if err != nil {
		e.Err = err.Error()
	}
	s.record(e)
	return err
}

// ---- Stmt --------------------------------------------------------------------

type stmt struct {
	c      *conn
	query  string
	n      int
	closed bool
}

func (st *stmt) Close() error  { st.closed = true; return nil }
func (st *stmt) NumInput() int { return st.n }

func (st *stmt) ColumnConverter(idx int) driver.ValueConverter { return converter{} }

func (st *stmt) CheckNamedValue(nv *driver.NamedValue) error {
	v, err := converter{}.ConvertValue(nv.Value)
	nv.Value = v
	return err
}

func (st *stmt) exec(args []Value) (driver.Result, error) {
	if len(args) != st.n {
		return nil, fmt.Errorf("sql: expected %d arguments, got %d", st.n, len(args))
	}
	rs, err := st.c.run("exec", st.query, args, true)
	if err != nil {
		return nil, err
	}
	return execResult(rs), nil
}

func (st *stmt) query_(args []Value) (driver.Rows, error) {
	if len(args) != st.n {
		return nil, fmt.Errorf("sql: expected %d arguments, got %d", st.n, len(args))
	}
	rs, err := st.c.run("query", st.query, args, true)
	if err != nil {
		return nil, err
	}
	return newRows(st.c, rs, true), nil
}

func (st *stmt) Exec(args []driver.Value) (driver.Result, error) {
	return st.exec(valuesToValues(args))
}
func (st *stmt) Query(args []driver.Value) (driver.Rows, error) {
	return st.query_(valuesToValues(args))
}
func (st *stmt) ExecContext(ctx context.Context, args []driver.NamedValue) (driver.Result, error) {
	return st.exec(namedToValues(args))
}
func (st *stmt) QueryContext(ctx context.Context, args []driver.NamedValue) (driver.Rows, error) {
	return st.query_(namedToValues(args))
}

// ---- Rows --------------------------------------------------------------------

type rows struct {
	c      *conn
	sets   []*result
	cur    int
	pos    int
	binary bool
}

func newRows(c *conn, rs []*result, binary bool) *rows {
	r := &rows{c: c, binary: binary}
	for _, x := range rs {
		if x.isQuery {
			r.sets = append(r.sets, x)
		}
	}
	if len(r.sets) == 0 {
		r.sets = []*result{{isQuery: true}}
	}
	return r
}

func (r *rows) Columns() []string {
	cols := r.sets[r.cur].cols
	out := make([]string, len(cols))
	for i, c := range cols {
		out[i] = c.name
	}
	return out
}

func (r *rows) Close() error { return nil }

func (r *rows) HasNextResultSet() bool { return r.cur+1 < len(r.sets) }
func (r *rows) NextResultSet() error {
	if r.cur+1 >= len(r.sets) {
		return io.EOF
	}
	r.cur++
	r.pos = 0
	return nil
}

// Next fills len(dest) values (like the real driver it trusts the caller's slice, not Columns()).
func (r *rows) Next(dest []driver.Value) error {
	set := r.sets[r.cur]
	if r.pos >= len(set.rows) {
		return io.EOF
	}
	row := set.rows[r.pos]
	r.pos++
	for i := range dest {
		if i >= len(row) {
			panic(fmt.Sprintf("memdb: Rows.Next called with %d destinations for %d columns (the real driver would index out of range)", len(dest), len(row)))
		}
		dest[i] = r.shape(set.cols[i].col, row[i])
	}
	return nil
}

// shape renders an internal value the way the text or binary protocol of the real driver delivers it.
func (r *rows) shape(c *Column, v Value) driver.Value {
	if v == nil {
		return nil
	}
	parseT := r.c.cfg.ParseTime
	if t, ok := v.(time.Time); ok {
		if parseT {
			loc := r.c.cfg.Loc
			if loc == nil {
				loc = time.UTC
			}
			if t.IsZero() {
				return time.Time{}
			}
			return time.Date(t.Year(), t.Month(), t.Day(), t.Hour(), t.Minute(), t.Second(), t.Nanosecond(), loc)
		}
		return textOf(c, t)
	}
	if !r.binary {
		return textOf(c, v)
	}
	// binary protocol
	typ := ""
	if c != nil {
		typ = c.Type
	}
	switch x := v.(type) {
	case int64:
		if typ == "BIT" {
			return []byte{byte(x)}
		}
		if c == nil || classOf(typ) == clsInt {
			return x
		}
		return textOf(c, v)
	case uint64:
		return x
	case float64:
		if typ == "FLOAT" {
			return float32(x)
		}
		return x
	case string:
		return []byte(x)
	}
	return textOf(c, v)
}

var (
	scanTypeFloat32   = reflect.TypeOf(float32(0))
	scanTypeFloat64   = reflect.TypeOf(float64(0))
	scanTypeInt8      = reflect.TypeOf(int8(0))
	scanTypeInt16     = reflect.TypeOf(int16(0))
	scanTypeInt32     = reflect.TypeOf(int32(0))
	scanTypeInt64     = reflect.TypeOf(int64(0))
	scanTypeNullFloat = reflect.TypeOf(sql.NullFloat64{})
	scanTypeNullInt   = reflect.TypeOf(sql.NullInt64{})
	scanTypeNullTime  = reflect.TypeOf(sql.NullTime{})
	scanTypeUint8     = reflect.TypeOf(uint8(0))
	scanTypeUint16    = reflect.TypeOf(uint16(0))
	scanTypeUint32    = reflect.TypeOf(uint32(0))
	scanTypeUint64    = reflect.TypeOf(uint64(0))
	scanTypeRawBytes  = reflect.TypeOf(sql.RawBytes{})
	scanTypeUnknown   = reflect.TypeOf(new(interface{}))
)

func (r *rows) col(i int) *Column { return r.sets[r.cur].cols[i].col }

// ColumnTypeScanType follows mysql/fields.go scanType.
func (r *rows) ColumnTypeScanType(i int) reflect.Type {
	c := r.col(i)
	if c == nil {
		return scanTypeRawBytes
	}
	pick := func(s, u reflect.Type) reflect.Type {
		if c.Nullable {
			return scanTypeNullInt
		}
		if c.Unsigned {
			return u
		}
		return s
	}
	switch c.Type {
	case "TINYINT":
		return pick(scanTypeInt8, scanTypeUint8)
	case "SMALLINT", "YEAR":
		return pick(scanTypeInt16, scanTypeUint16)
	case "MEDIUMINT", "INT", "INTEGER":
		return pick(scanTypeInt32, scanTypeUint32)
	case "BIGINT":
		return pick(scanTypeInt64, scanTypeUint64)
	case "FLOAT":
		if c.Nullable {
			return scanTypeNullFloat
		}
		return scanTypeFloat32
	case "DOUBLE", "REAL":
		if c.Nullable {
			return scanTypeNullFloat
		}
		return scanTypeFloat64
	case "DATE", "DATETIME", "TIMESTAMP":
		return scanTypeNullTime
	}
	return scanTypeRawBytes
}

func (r *rows) ColumnTypeDatabaseTypeName(i int) string {
	c := r.col(i)
	if c == nil {
		return "VARCHAR"
	}
	if c.Type == "INTEGER" {
		return "INT"
	}
	return c.Type
}

func (r *rows) ColumnTypeNullable(i int) (nullable, ok bool) {
	c := r.col(i)
	if c == nil {
		return true, true
	}
	return c.Nullable, true
}
