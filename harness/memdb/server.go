// Package memdb is an in-memory MySQL subset behind database/sql/driver: the
// deterministic stand-in for the database in the closed system (DESIGN §2.1).
package memdb

import (
	"verifharness/vclock"

	"database/sql/driver"
	"fmt"
	"sort"
	"strings"
	"sync"
)

type Row []Value

type Index struct {
	Name   string
	Cols   []int
	Unique bool
}

type Table struct {
	Name    string // as declared
	Cols    []Column
	PK      []int
	Indexes []Index // incl. PRIMARY first
	rows    map[string]Row
	autoInc int64
}

func (t *Table) colIndex(name string) int {
	for i := range t.Cols {
		if strings.EqualFold(t.Cols[i].Name, name) {
			return i
		}
	}
	return -1
}

func (t *Table) pkKey(r Row) string {
	var sb strings.Builder
	for i, ci := range t.PK {
		if i > 0 {
			sb.WriteByte(0x1f)
		}
		sb.WriteString(keyText(r[ci]))
	}
	return sb.String()
}

func (t *Table) pkValues(r Row) []Value {
	out := make([]Value, len(t.PK))
	for i, ci := range t.PK {
		out[i] = r[ci]
	}
	return out
}

// RowChange is one row of a statement diff or of a commit write set.
type RowChange struct {
	Table  string
	PK     []Value
	Before Row // nil = did not exist
	After  Row // nil = deleted
}

type txn struct {
	readOnly bool // START TRANSACTION READ ONLY: writes are refused (1792)
	id       int
	conn     *conn
	writes   map[string]map[string]Row // table(lower) -> pk key -> row (nil = tombstone)
	order    []wkey                    // first-touch order, for deterministic write sets
	locks    map[string]bool
	saves    []savepoint
	xaXid    string
	xaSt     int // 0 none, 1 active, 2 idle, 3 prepared
	waits    *txn
}

type wkey struct{ table, pk string }

type savepoint struct {
	name   string
	writes map[string]map[string]Row
	order  []wkey
	locks  map[string]bool
}

// Entry is one journal record: an operation a connection asked of the server.
type Entry struct {
	G        int64 // global sequence shared with the coordinator's message log
	Seq      int
	Conn     int
	Txn      int    // 0 = none
	Kind     string // connect, begin, prepare, exec, query, commit, rollback, close
	SQL      string
	Args     []Value
	Err      string
	Affected int64
	InsertID int64
	NRows    int
	Diff     []RowChange // exec: rows this statement changed (in this transaction's view); commit: the commit write set
	XA       string
	Injected bool // failure came from the fault plan
}

// Op describes an operation about to run, for the fault plan and the scheduler.
type Op struct {
	Seq  int
	Conn int
	Kind string
	SQL  string
	GID  int64 // goroutine performing the operation (filled in when Server.WantGID is set)
}

// Sched is told about every statement-level entry point (server lock not held). Lock waits are real waits on the
// server's condition variable (or immediate timeouts with SequentialWaits); a scheduler sees them as blocked goroutines.
type Sched interface {
	Point(desc string)
}

type Server struct {
	DeadConnErr error // see conn.deadErr
	mu            sync.Mutex
	cond          *sync.Cond
	Addr          string
	DBName        string
	Version       string
	tables        map[string]*Table
	tableSeq      []string
	conns         map[int]*conn
	nextConn      int
	nextTxn       int
	locks         map[string]*txn // row lock table: "table\x1epk" -> owner
	prepared      map[string]*txn // XA xid -> detached prepared transaction
	journal       []Entry
	seq           int
	Fault         func(op Op) error // consulted before every operation; non-nil result fails it
	Sched         Sched
	NoJournal     bool
	LockWaitLimit int // free-running mode: give up a lock wait after this many wake-ups (0 = wait forever)
	// SequentialWaits: the harness runs one client thread at a time, so the owner of a contended lock can never
	// release it while the requester waits: the wait ends as innodb_lock_wait_timeout would end it (error 1205).
	// WantGID makes every Op carry the id of the goroutine that performs it, so that a fault plan can be restricted to the
	// case's own thread (background work of the client - asynchronous undo-log deletion - must not consume fault positions)
	WantGID         bool
	SequentialWaits bool
	LockTimeouts    int // number of such timeouts (a leaked transaction was holding a lock)
}

func NewServer(addr, dbName string) *Server {
	s := &Server{Addr: addr, DBName: dbName, Version: "8.0.28", tables: map[string]*Table{}, conns: map[int]*conn{},
		locks: map[string]*txn{}, prepared: map[string]*txn{}}
	s.cond = sync.NewCond(&s.mu)
	return s
}

func lower(s string) string { return strings.ToLower(s) }

func (s *Server) table(name string) *Table { return s.tables[lower(name)] }

// ---- journal -----------------------------------------------------------------

func (s *Server) Journal() []Entry {
	s.mu.Lock()
	defer s.mu.Unlock()
	return append([]Entry(nil), s.journal...)
}

func (s *Server) JournalLen() int {
	s.mu.Lock()
	defer s.mu.Unlock()
	return len(s.journal)
}

func (s *Server) ClearJournal() {
	s.mu.Lock()
	s.journal = nil
	s.mu.Unlock()
}

func (s *Server) record(e Entry) {
	if s.NoJournal {
		return
	}
	e.Seq = len(s.journal)
	e.G = vclock.Next()
	s.journal = append(s.journal, e)
}

// ---- snapshots ---------------------------------------------------------------

// Snapshot is the committed content of every table, rows sorted by primary key text.
type Snapshot map[string][]Row

func (s *Server) Snapshot() Snapshot {
	s.mu.Lock()
	defer s.mu.Unlock()
	return s.snapshotLocked()
}

func (s *Server) snapshotLocked() Snapshot {
	out := Snapshot{}
	for name, t := range s.tables {
		out[name] = sortedRows(t)
	}
	return out
}

func sortedRows(t *Table) []Row {
	keys := make([]string, 0, len(t.rows))
	for k := range t.rows {
		keys = append(keys, k)
	}
	rows := make([]Row, 0, len(keys))
	sort.Slice(keys, func(i, j int) bool { return pkLess(t, t.rows[keys[i]], t.rows[keys[j]]) })
	for _, k := range keys {
		rows = append(rows, append(Row(nil), t.rows[k]...))
	}
	return rows
}

func pkLess(t *Table, a, b Row) bool {
	for _, ci := range t.PK {
		c, _ := compare(a[ci], b[ci])
		if c != 0 {
			return c < 0
		}
	}
	return false
}

// Restore replaces the committed content by a snapshot (tables must exist) and
// forgets every connection-independent transient state (locks, open transactions, prepared XA).
func (s *Server) Restore(snap Snapshot) {
	s.mu.Lock()
	defer s.mu.Unlock()
	for name, t := range s.tables {
		t.rows = map[string]Row{}
		t.autoInc = 0
		for _, r := range snap[name] {
			rr := append(Row(nil), r...)
			t.rows[t.pkKey(rr)] = rr
			s.bumpAutoInc(t, rr)
		}
	}
	s.locks = map[string]*txn{}
	s.prepared = map[string]*txn{}
	for _, c := range s.conns {
		c.tx = nil
	}
	s.journal = nil
}

func (s *Server) bumpAutoInc(t *Table, r Row) {
	for i := range t.Cols {
		if t.Cols[i].AutoInc {
			if v, ok := r[i].(int64); ok && v > t.autoInc {
				t.autoInc = v
			}
		}
	}
}

func (snap Snapshot) String() string {
	var names []string
	for n := range snap {
		names = append(names, n)
	}
	sort.Strings(names)
	var sb strings.Builder
	for _, n := range names {
		fmt.Fprintf(&sb, "%s:", n)
		for _, r := range snap[n] {
			sb.WriteString(rowText(r))
		}
		sb.WriteString(";")
	}
	return sb.String()
}

func rowText(r Row) string {
	parts := make([]string, len(r))
	for i, v := range r {
		parts[i] = keyText(v)
	}
	return "(" + strings.Join(parts, ",") + ")"
}

// TableRows returns the committed rows of one table.
func (s *Server) TableRows(name string) []Row {
	s.mu.Lock()
	defer s.mu.Unlock()
	t := s.table(name)
	if t == nil {
		return nil
	}
	return sortedRows(t)
}

func (s *Server) TableDef(name string) *Table {
	s.mu.Lock()
	defer s.mu.Unlock()
	return s.table(name)
}

// ---- introspection -----------------------------------------------------------

type ConnState struct {
	ID      int
	InTx    bool
	Locks   int
	XAState int
	Closed  bool
}

func (s *Server) ConnStates() []ConnState {
	s.mu.Lock()
	defer s.mu.Unlock()
	var out []ConnState
	for _, c := range s.conns {
		cs := ConnState{ID: c.id, Closed: c.closed}
		if c.tx != nil {
			cs.InTx = true
			cs.Locks = len(c.tx.locks)
			cs.XAState = c.tx.xaSt
		}
		out = append(out, cs)
	}
	sort.Slice(out, func(i, j int) bool { return out[i].ID < out[j].ID })
	return out
}

// OpenTxCount is the number of live connections sitting inside a transaction.
func (s *Server) OpenTxCount() int {
	n := 0
	for _, c := range s.ConnStates() {
		if c.InTx && !c.Closed {
			n++
		}
	}
	return n
}

func (s *Server) HeldLocks() int {
	s.mu.Lock()
	defer s.mu.Unlock()
	return len(s.locks)
}

func (s *Server) PreparedXA() []string {
	s.mu.Lock()
	defer s.mu.Unlock()
	var out []string
	for k := range s.prepared {
		out = append(out, k)
	}
	sort.Strings(out)
	return out
}

// Crash drops every connection: open transactions roll back, prepared XA branches stay.
func (s *Server) Crash() {
	s.mu.Lock()
	defer s.mu.Unlock()
	for _, c := range s.conns {
		s.killLocked(c)
	}
	s.cond.Broadcast()
}

func (s *Server) killLocked(c *conn) {
	if c.closed {
		return
	}
	c.closed = true
	if c.tx != nil {
		if c.tx.xaSt == 3 {
			// prepared branch survives its connection
			c.tx.conn = nil
			s.prepared[c.tx.xaXid] = c.tx
		} else {
			s.rollbackLocked(c.tx)
		}
		c.tx = nil
	}
}

// ---- transactions and locks --------------------------------------------------

func (s *Server) newTxn(c *conn) *txn {
	s.nextTxn++
	return &txn{id: s.nextTxn, conn: c, writes: map[string]map[string]Row{}, locks: map[string]bool{}}
}

func lockName(table, pk string) string { return lower(table) + "\x1e" + pk }

// acquire takes the exclusive lock on name for tx, waiting for the current owner if need be.
// Called with s.mu held; may release and re-take it while waiting.
func (s *Server) acquire(tx *txn, name string) error {
	spins := 0
	for {
		owner := s.locks[name]
		if owner == nil || owner == tx {
			s.locks[name] = tx
			tx.locks[name] = true
			tx.waits = nil
			return nil
		}
		// deadlock: does the owner (transitively) wait for us?
		for o := owner; o != nil; o = o.waits {
			if o == tx {
				tx.waits = nil
				return myErr(1213, "Deadlock found when trying to get lock; try restarting transaction")
			}
		}
		tx.waits = owner
		if false {
		} else if s.SequentialWaits {
			tx.waits = nil
			s.LockTimeouts++
			return myErr(1205, "Lock wait timeout exceeded; try restarting transaction")
		} else {
			spins++
			if s.LockWaitLimit > 0 && spins > s.LockWaitLimit {
				tx.waits = nil
				return myErr(1205, "Lock wait timeout exceeded; try restarting transaction")
			}
			s.cond.Wait()
		}
		if tx.conn != nil && tx.conn.closed {
			return driver.ErrBadConn
		}
	}
}

func (s *Server) releaseLocks(tx *txn) {
	for name := range tx.locks {
		if s.locks[name] == tx {
			delete(s.locks, name)
		}
	}
	tx.locks = map[string]bool{}
	s.cond.Broadcast()
}

func (s *Server) rollbackLocked(tx *txn) {
	tx.writes = map[string]map[string]Row{}
	tx.order = nil
	tx.saves = nil
	s.releaseLocks(tx)
}

// commitLocked applies the write overlay atomically and returns the commit write set.
func (s *Server) commitLocked(tx *txn) []RowChange {
	var ws []RowChange
	for _, k := range tx.order {
		t := s.tables[k.table]
		if t == nil {
			continue
		}
		after, touched := tx.writes[k.table][k.pk]
		if !touched {
			continue
		}
		before := t.rows[k.pk]
		if before == nil && after == nil {
			continue
		}
		ch := RowChange{Table: t.Name}
		if before != nil {
			ch.Before = append(Row(nil), before...)
			ch.PK = t.pkValues(before)
		}
		if after != nil {
			ch.After = append(Row(nil), after...)
			ch.PK = t.pkValues(after)
			t.rows[k.pk] = append(Row(nil), after...)
		} else {
			delete(t.rows, k.pk)
		}
		if !rowsEqual(ch.Before, ch.After) {
			ws = append(ws, ch)
		}
	}
	tx.writes = map[string]map[string]Row{}
	tx.order = nil
	tx.saves = nil
	s.releaseLocks(tx)
	return ws
}

func rowsEqual(a, b Row) bool {
	if (a == nil) != (b == nil) || len(a) != len(b) {
		return false
	}
	for i := range a {
		if keyText(a[i]) != keyText(b[i]) {
			return false
		}
	}
	return true
}

// visible returns the rows of t as tx sees them (committed + own writes), in primary-key order.
func (s *Server) visible(tx *txn, t *Table) []Row {
	ov := map[string]Row(nil)
	if tx != nil {
		ov = tx.writes[lower(t.Name)]
	}
	var rows []Row
	for k, r := range t.rows {
		if o, ok := ov[k]; ok {
			if o != nil {
				rows = append(rows, o)
			}
			continue
		}
		rows = append(rows, r)
	}
	for k, o := range ov {
		if _, committed := t.rows[k]; !committed && o != nil {
			rows = append(rows, o)
		}
	}
	sort.Slice(rows, func(i, j int) bool { return pkLess(t, rows[i], rows[j]) })
	return rows
}

func (s *Server) lookup(tx *txn, t *Table, pk string) Row {
	if tx != nil {
		if o, ok := tx.writes[lower(t.Name)][pk]; ok {
			return o
		}
	}
	return t.rows[pk]
}

func (tx *txn) put(t *Table, pk string, r Row) {
	tn := lower(t.Name)
	m := tx.writes[tn]
	if m == nil {
		m = map[string]Row{}
		tx.writes[tn] = m
	}
	if _, seen := m[pk]; !seen {
		tx.order = append(tx.order, wkey{tn, pk})
	}
	m[pk] = r
}

func copyWrites(w map[string]map[string]Row) map[string]map[string]Row {
	out := map[string]map[string]Row{}
	for t, m := range w {
		mm := map[string]Row{}
		for k, r := range m {
			mm[k] = r
		}
		out[t] = mm
	}
	return out
}
