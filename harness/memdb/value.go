package memdb

import (
	"fmt"
	"math"
	"strconv"
	"strings"
	"time"

	"github.com/go-sql-driver/mysql"
)

// Internal value representation (one canonical Go type per column class):
//
//	nil                 NULL
//	int64               integer types, YEAR, BIT
//	uint64              BIGINT UNSIGNED values above MaxInt64 only
//	float64             FLOAT, DOUBLE
//	string              DECIMAL (canonical text), character types, JSON, ENUM, SET, TIME, binary types (raw bytes in a string)
//	time.Time (UTC)     DATE, DATETIME, TIMESTAMP
type Value = interface{}

type class int

const (
	clsInt class = iota
	clsFloat
	clsDecimal
	clsString
	clsBytes
	clsTime
)

type Column struct {
	Name       string
	Type       string // upper-case DATA_TYPE, e.g. BIGINT, VARCHAR
	ColumnType string // full type text, e.g. varchar(32), decimal(10,2)
	Length     int    // VARCHAR(n)/CHAR(n); 0 = unchecked
	Scale      int    // DECIMAL(p,s), DATETIME(fsp)
	Unsigned   bool
	Nullable   bool
	HasDefault bool
	Default    Value
	AutoInc    bool
}

func classOf(typ string) class {
	switch typ {
	case "TINYINT", "SMALLINT", "MEDIUMINT", "INT", "INTEGER", "BIGINT", "YEAR", "BIT":
		return clsInt
	case "FLOAT", "DOUBLE", "REAL":
		return clsFloat
	case "DECIMAL", "NUMERIC":
		return clsDecimal
	case "DATE", "DATETIME", "TIMESTAMP":
		return clsTime
	case "BINARY", "VARBINARY", "TINYBLOB", "BLOB", "MEDIUMBLOB", "LONGBLOB":
		return clsBytes
	}
	return clsString
}

func myErr(no uint16, format string, a ...interface{}) error {
	return &mysql.MySQLError{Number: no, Message: fmt.Sprintf(format, a...)}
}

func intRange(c *Column) (lo, hi float64) {
	bits := map[string]uint{"TINYINT": 8, "SMALLINT": 16, "MEDIUMINT": 24, "INT": 32, "INTEGER": 32, "BIGINT": 64, "YEAR": 16, "BIT": 64}[c.Type]
	if c.Unsigned {
		return 0, math.Pow(2, float64(bits)) - 1
	}
	return -math.Pow(2, float64(bits-1)), math.Pow(2, float64(bits-1)) - 1
}

// coerce converts an argument / literal into the column's canonical form (strict mode).
func coerce(c *Column, v Value) (Value, error) {
	if v == nil {
		return nil, nil
	}
	switch classOf(c.Type) {
	case clsInt:
		var out Value
		switch x := v.(type) {
		case int64:
			out = x
		case uint64:
			if x <= math.MaxInt64 {
				out = int64(x)
			} else {
				out = x
			}
		case float64:
			r := math.Round(x)
			if r >= -9.3e18 && r <= 9.2e18 {
				out = int64(r)
			} else {
				return nil, myErr(1264, "Out of range value for column '%s'", c.Name)
			}
		case bool:
			if x {
				out = int64(1)
			} else {
				out = int64(0)
			}
		case string:
			s := strings.TrimSpace(x)
			if i, err := strconv.ParseInt(s, 10, 64); err == nil {
				out = i
			} else if u, err := strconv.ParseUint(s, 10, 64); err == nil {
				out = u
			} else if f, err := strconv.ParseFloat(s, 64); err == nil {
				out = int64(math.Round(f))
			} else {
				return nil, myErr(1366, "Incorrect integer value: '%s' for column '%s'", x, c.Name)
			}
		case time.Time:
			return nil, myErr(1366, "Incorrect integer value for column '%s'", c.Name)
		default:
			return nil, myErr(1366, "Incorrect integer value: '%v' for column '%s'", v, c.Name)
		}
		lo, hi := intRange(c)
		f := toFloat(out)
		if f < lo || f > hi {
			return nil, myErr(1264, "Out of range value for column '%s'", c.Name)
		}
		return out, nil
	case clsFloat:
		switch x := v.(type) {
		case int64:
			return normFloat(c, float64(x)), nil
		case uint64:
			return normFloat(c, float64(x)), nil
		case float64:
			return normFloat(c, x), nil
		case string:
			f, err := strconv.ParseFloat(strings.TrimSpace(x), 64)
			if err != nil {
				return nil, myErr(1265, "Data truncated for column '%s'", c.Name)
			}
			return normFloat(c, f), nil
		}
		return nil, myErr(1366, "Incorrect value for column '%s'", c.Name)
	case clsDecimal:
		var s string
		switch x := v.(type) {
		case int64:
			s = strconv.FormatInt(x, 10)
		case uint64:
			s = strconv.FormatUint(x, 10)
		case float64:
			s = strconv.FormatFloat(x, 'f', -1, 64)
		case string:
			s = strings.TrimSpace(x)
			if _, err := strconv.ParseFloat(s, 64); err != nil {
				return nil, myErr(1366, "Incorrect decimal value: '%s' for column '%s'", x, c.Name)
			}
		default:
			return nil, myErr(1366, "Incorrect decimal value for column '%s'", c.Name)
		}
		return normDecimal(s, c.Scale), nil
	case clsTime:
		switch x := v.(type) {
		case time.Time:
			return normTime(c, x.UTC()), nil
		case string:
			t, err := parseTime(x)
			if err != nil {
				return nil, myErr(1292, "Incorrect datetime value: '%s' for column '%s'", x, c.Name)
			}
			return normTime(c, t), nil
		}
		return nil, myErr(1292, "Incorrect datetime value: '%v' for column '%s'", v, c.Name)
	default: // string, bytes
		var s string
		switch x := v.(type) {
		case string:
			s = x
		case int64:
			s = strconv.FormatInt(x, 10)
		case uint64:
			s = strconv.FormatUint(x, 10)
		case float64:
			s = strconv.FormatFloat(x, 'g', -1, 64)
		case time.Time:
			s = fmtTime(x, 6)
		case bool:
			if x {
				s = "1"
			} else {
				s = "0"
			}
		default:
			return nil, myErr(1366, "Incorrect string value for column '%s'", c.Name)
		}
		if c.Length > 0 {
			n := len(s)
			if classOf(c.Type) == clsString {
				n = len([]rune(s))
			}
			if n > c.Length {
				return nil, myErr(1406, "Data too long for column '%s'", c.Name)
			}
		}
		return s, nil
	}
}

func normFloat(c *Column, f float64) float64 {
	if c.Type == "FLOAT" {
		return float64(float32(f))
	}
	return f
}

func normDecimal(s string, scale int) string {
	f, _ := strconv.ParseFloat(s, 64)
	// keep exact text when it already has the right scale; otherwise round through float (adequate for the catalogue)
	if i := strings.IndexByte(s, '.'); (i < 0 && scale == 0) || (i >= 0 && len(s)-i-1 == scale) {
		return s
	}
	return strconv.FormatFloat(f, 'f', scale, 64)
}

func normTime(c *Column, t time.Time) time.Time {
	if c.Type == "DATE" {
		return time.Date(t.Year(), t.Month(), t.Day(), 0, 0, 0, 0, time.UTC)
	}
	// fractional seconds precision of the column
	unit := time.Duration(math.Pow10(9 - c.Scale))
	return t.Round(unit).UTC()
}

var timeLayouts = []string{"2006-01-02 15:04:05.999999999", "2006-01-02T15:04:05.999999999Z07:00", "2006-01-02", "2006-01-02 15:04:05"}

func parseTime(s string) (time.Time, error) {
	s = strings.TrimSpace(s)
	if strings.HasPrefix(s, "0000-00-00") {
		return time.Time{}, nil
	}
	for _, l := range timeLayouts {
		if t, err := time.Parse(l, s); err == nil {
			return t.UTC(), nil
		}
	}
	return time.Time{}, fmt.Errorf("bad time %q", s)
}

func fmtTime(t time.Time, fsp int) string {
	if t.IsZero() {
		return "0000-00-00 00:00:00"
	}
	s := t.UTC().Format("2006-01-02 15:04:05")
	if fsp > 0 {
		frac := fmt.Sprintf("%09d", t.Nanosecond())[:fsp]
		s += "." + frac
	}
	return s
}

func toFloat(v Value) float64 {
	switch x := v.(type) {
	case int64:
		return float64(x)
	case uint64:
		return float64(x)
	case float64:
		return x
	case string:
		f, _ := strconv.ParseFloat(leadingNumber(x), 64)
		return f
	case bool:
		if x {
			return 1
		}
		return 0
	case time.Time:
		return float64(x.Unix())
	}
	return 0
}

func leadingNumber(s string) string {
	s = strings.TrimSpace(s)
	end := 0
	seenDigit := false
	for i, c := range s {
		if c >= '0' && c <= '9' {
			seenDigit = true
			end = i + 1
		} else if (c == '-' || c == '+') && i == 0 {
			continue
		} else if c == '.' || c == 'e' || c == 'E' {
			continue
		} else {
			break
		}
	}
	if !seenDigit {
		return "0"
	}
	return s[:end]
}

func isNumeric(v Value) bool {
	switch v.(type) {
	case int64, uint64, float64, bool:
		return true
	}
	return false
}

// compare implements MySQL's comparison for the supported classes. ok=false when either side is NULL.
func compare(a, b Value) (c int, ok bool) {
	if a == nil || b == nil {
		return 0, false
	}
	if ab, isB := a.(bool); isB {
		a = boolInt(ab)
	}
	if bb, isB := b.(bool); isB {
		b = boolInt(bb)
	}
	ta, aIsT := a.(time.Time)
	tb, bIsT := b.(time.Time)
	switch {
	case aIsT && bIsT:
		return cmpTime(ta, tb), true
	case aIsT:
		if s, isS := b.(string); isS {
			if t, err := parseTime(s); err == nil {
				return cmpTime(ta, t), true
			}
		}
		return cmpStr(fmtTime(ta, 0), fmt.Sprint(b)), true
	case bIsT:
		c, ok := compare(b, a)
		return -c, ok
	}
	ai, aInt := a.(int64)
	bi, bInt := b.(int64)
	if aInt && bInt {
		switch {
		case ai < bi:
			return -1, true
		case ai > bi:
			return 1, true
		}
		return 0, true
	}
	as, aStr := a.(string)
	bs, bStr := b.(string)
	if aStr && bStr {
		return cmpStr(as, bs), true
	}
	// mixed / numeric: compare as numbers (uint64 vs int64 handled through float with a tie-break)
	if au, ok1 := a.(uint64); ok1 {
		if bu, ok2 := b.(uint64); ok2 {
			switch {
			case au < bu:
				return -1, true
			case au > bu:
				return 1, true
			}
			return 0, true
		}
	}
	fa, fb := toFloat(a), toFloat(b)
	switch {
	case fa < fb:
		return -1, true
	case fa > fb:
		return 1, true
	}
	return 0, true
}

func boolInt(b bool) int64 {
	if b {
		return 1
	}
	return 0
}

func cmpTime(a, b time.Time) int {
	switch {
	case a.Before(b):
		return -1
	case a.After(b):
		return 1
	}
	return 0
}

func cmpStr(a, b string) int {
	// binary collation (assumption: the alphabets never rely on case-insensitive matching of values)
	return strings.Compare(a, b)
}

// keyText renders a primary/unique key component for map keys.
func keyText(v Value) string {
	switch x := v.(type) {
	case nil:
		return "\x00NULL"
	case int64:
		return "i" + strconv.FormatInt(x, 10)
	case uint64:
		return "i" + strconv.FormatUint(x, 10)
	case float64:
		return "f" + strconv.FormatFloat(x, 'g', -1, 64)
	case string:
		return "s" + x
	case time.Time:
		return "t" + x.UTC().Format(time.RFC3339Nano)
	}
	return fmt.Sprintf("?%v", v)
}

// textOf renders a value the way the MySQL text protocol does.
func textOf(c *Column, v Value) []byte {
	switch x := v.(type) {
	case int64:
		return []byte(strconv.FormatInt(x, 10))
	case uint64:
		return []byte(strconv.FormatUint(x, 10))
	case float64:
		if c != nil && c.Type == "FLOAT" {
			return []byte(strconv.FormatFloat(x, 'g', -1, 32))
		}
		return []byte(strconv.FormatFloat(x, 'g', -1, 64))
	case string:
		return []byte(x)
	case time.Time:
		if c != nil && c.Type == "DATE" {
			if x.IsZero() {
				return []byte("0000-00-00")
			}
			return []byte(x.Format("2006-01-02"))
		}
		fsp := 0
		if c != nil {
			fsp = c.Scale
		}
		return []byte(fmtTime(x, fsp))
	case bool:
		if x {
			return []byte("1")
		}
		return []byte("0")
	}
	return []byte(fmt.Sprint(v))
}
