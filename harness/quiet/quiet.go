// Package quiet detects quiescence without clocks: the process is quiet when every
// goroutine other than the caller is blocked (channel, select, mutex, condition,
// sleep, I/O wait) rather than running or runnable.
package quiet

import (
	"bytes"
	"runtime"
	"sync"
	"time"
)

var buf = make([]byte, 1<<20)
var mu sync.Mutex // several threads may ask at once in the free-running checks

// Quiet reports whether every other goroutine is blocked right now.
func Quiet() bool {
	mu.Lock()
	defer mu.Unlock()
	for {
		n := runtime.Stack(buf, true)
		if n < len(buf) {
			return parse(buf[:n])
		}
		buf = make([]byte, 2*len(buf))
	}
}

func parse(b []byte) bool {
	first := true
	for len(b) > 0 {
		i := bytes.Index(b, []byte("goroutine "))
		if i < 0 {
			break
		}
		if i != 0 && b[i-1] != '\n' {
			b = b[i+10:]
			continue
		}
		line := b[i:]
		if j := bytes.IndexByte(line, '\n'); j >= 0 {
			line = line[:j]
		}
		b = b[i+len(line):]
		lb := bytes.IndexByte(line, '[')
		rb := bytes.LastIndexByte(line, ']')
		if lb < 0 || rb < lb {
			continue
		}
		state := line[lb+1 : rb]
		if first {
			first = false // the caller itself ("running")
			continue
		}
		if bytes.HasPrefix(state, []byte("running")) || bytes.HasPrefix(state, []byte("runnable")) || bytes.HasPrefix(state, []byte("syscall")) ||
			bytes.HasPrefix(state, []byte("preempted")) || bytes.HasPrefix(state, []byte("copystack")) || bytes.HasPrefix(state, []byte("GC assist")) {
			return false
		}
	}
	return true
}

// Settle waits until the process has been quiet on `need` consecutive observations and returns true,
// or returns early with false as soon as done() reports true. No timeout: something is always either
// running (not quiet) or finished or blocked.
func Settle(done func() bool, need int) bool {
	streak := 0
	for {
		if done != nil && done() {
			return false
		}
		if Quiet() {
			streak++
			if streak >= need {
				if done != nil && done() {
					return false
				}
				return true
			}
			runtime.Gosched()
			time.Sleep(50 * time.Microsecond)
		} else {
			streak = 0
			runtime.Gosched()
			time.Sleep(20 * time.Microsecond)
		}
	}
}

// Spin is Settle without sleeping: it polls (yielding the processor in between) until done() reports true (returns false)
// or the process has been quiet on `need` consecutive observations (returns true). A goroutine woken by another one is
// runnable before the waker blocks, so there is no window in which everything looks blocked while work is pending -
// provided no real timers are pending (time is virtual in the checks that use this).
func Spin(done func() bool, need int) bool {
	streak := 0
	for i := 0; ; i++ {
		if done != nil && done() {
			return false
		}
		if Quiet() {
			streak++
			if streak >= need {
				if done != nil && done() {
					return false
				}
				return true
			}
		} else {
			streak = 0
		}
		runtime.Gosched()
		if i > 2000 {
			time.Sleep(20 * time.Microsecond) // something runs for long: stop burning the processor
		}
	}
}
