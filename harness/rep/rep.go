// Package rep is the reporting half of every check: it counts what was
// explored, collects violations (deduplicated by signature), matches them
// against /verif/known_findings.json, writes replay artefacts and the evidence
// file, prints the KNOWN-FINDING / VIOLATION lines and yields the exit code.
package rep

import (
	"bytes"
	"crypto/sha1"
	"encoding/hex"
	"encoding/json"
	"fmt"
	"os"
	"os/exec"
	"path/filepath"
	"regexp"
	"sort"
	"strings"
	"strconv"
	"sync"
	"time"
)

// Root is /verif (overridable for tests of the machinery itself).
var Root = func() string {
	if r := os.Getenv("VERIF_ROOT"); r != "" {
		return r
	}
	return "/verif"
}()

type Violation struct {
	Sig    string      `json:"sig"`    // stable signature used for known-finding matching
	Clause string      `json:"clause"` // which oracle clause broke
	Case   interface{} `json:"case"`   // the failing input / program / schedule, self-contained
	Detail string      `json:"detail"`
}

type Run struct {
	mu         sync.Mutex
	ID         string
	Level      string
	Tier       string
	Seed       int
	start      time.Time
	Evals      int64
	Nontrivial int64
	Rule       string
	Samples    []interface{}
	maxSamples int
	Counters   map[string]int64
	Extra      map[string]interface{}
	Assume     []string
	viol       map[string]*Violation
	violCount  map[string]int
	Exhaustive bool
	Broken     string
}

func Tier() string {
	t := os.Getenv("VERIF_TIER")
	if t == "thorough" {
		return t
	}
	return "quick"
}

func Seed() int {
	s, _ := strconv.Atoi(os.Getenv("VERIF_SEED"))
	return s
}

func New(id, level string) *Run {
	return &Run{ID: id, Level: level, Tier: Tier(), Seed: Seed(), start: time.Now(),
		Counters: map[string]int64{}, Extra: map[string]interface{}{}, viol: map[string]*Violation{},
		violCount: map[string]int{}, maxSamples: 6, Exhaustive: true}
}

func (r *Run) Eval(nontrivial bool) {
	r.mu.Lock()
	r.Evals++
	if nontrivial {
		r.Nontrivial++
	}
	r.mu.Unlock()
}

func (r *Run) Count(k string, n int64) {
	r.mu.Lock()
	r.Counters[k] += n
	r.mu.Unlock()
}

func (r *Run) Sample(s interface{}) {
	r.mu.Lock()
	if len(r.Samples) < r.maxSamples {
		r.Samples = append(r.Samples, s)
	}
	r.mu.Unlock()
}

func (r *Run) Violate(sig, clause string, c interface{}, detail string) {
	r.mu.Lock()
	defer r.mu.Unlock()
	r.violCount[sig]++
	if _, ok := r.viol[sig]; !ok {
		r.viol[sig] = &Violation{Sig: sig, Clause: clause, Case: c, Detail: detail}
	}
}

func (r *Run) NumViolations() int {
	r.mu.Lock()
	defer r.mu.Unlock()
	return len(r.viol)
}

// ---- partial results (worker processes) ----

type Partial struct {
	Evals      int64                  `json:"evals"`
	Nontrivial int64                  `json:"nontrivial"`
	Samples    []interface{}          `json:"samples"`
	Counters   map[string]int64       `json:"counters"`
	Viol       []*Violation           `json:"viol"`
	ViolCount  map[string]int         `json:"viol_count"`
	Exhaustive bool                   `json:"exhaustive"`
	Broken     string                 `json:"broken"`
	Extra      map[string]interface{} `json:"extra"`
}

func (r *Run) WritePartial(path string) error {
	r.mu.Lock()
	defer r.mu.Unlock()
	p := Partial{Evals: r.Evals, Nontrivial: r.Nontrivial, Samples: r.Samples, Counters: r.Counters,
		ViolCount: r.violCount, Exhaustive: r.Exhaustive, Broken: r.Broken, Extra: r.Extra}
	for _, v := range r.viol {
		p.Viol = append(p.Viol, v)
	}
	b, err := json.Marshal(p)
	if err != nil {
		return err
	}
	return os.WriteFile(path, b, 0o644)
}

func (r *Run) MergePartial(path string) error {
	b, err := os.ReadFile(path)
	if err != nil {
		return err
	}
	var p Partial
	if err := json.Unmarshal(b, &p); err != nil {
		return err
	}
	r.mu.Lock()
	defer r.mu.Unlock()
	r.Evals += p.Evals
	r.Nontrivial += p.Nontrivial
	for _, s := range p.Samples {
		if len(r.Samples) < r.maxSamples {
			r.Samples = append(r.Samples, s)
		}
	}
	for k, v := range p.Counters {
		r.Counters[k] += v
	}
	for _, v := range p.Viol {
		if _, ok := r.viol[v.Sig]; !ok {
			r.viol[v.Sig] = v
		}
	}
	for k, v := range p.ViolCount {
		r.violCount[k] += v
	}
	for k, v := range p.Extra {
		r.Extra[k] = v
	}
	if !p.Exhaustive {
		r.Exhaustive = false
	}
	if p.Broken != "" && r.Broken == "" {
		r.Broken = p.Broken
	}
	return nil
}

// ---- known findings ----

type Finding struct {
	Kind     string `json:"kind"` // "known" | "fixed"
	Property string `json:"property"`
	Sig      string `json:"sig"`  // regexp (anchored) over violation signatures
	What     string `json:"what"` // what fails
	Commit   string `json:"commit,omitempty"`
	Line     string `json:"line,omitempty"`
}

func loadFindings() []Finding {
	b, err := os.ReadFile(filepath.Join(Root, "known_findings.json"))
	if err != nil {
		return nil
	}
	var f struct {
		Findings []Finding `json:"findings"`
	}
	if err := json.Unmarshal(b, &f); err != nil {
		fmt.Fprintf(os.Stderr, "known_findings.json unreadable: %v\n", err)
		return nil
	}
	return f.Findings
}

// Finish writes evidence + replays, prints the result lines, returns exit code.
func (r *Run) Finish() int {
	r.mu.Lock()
	defer r.mu.Unlock()
	if r.Broken != "" {
		fmt.Printf("BROKEN property=%s %s\n", r.ID, r.Broken)
		return 3
	}
	findings := loadFindings()
	sigs := make([]string, 0, len(r.viol))
	for s := range r.viol {
		sigs = append(sigs, s)
	}
	sort.Strings(sigs)
	knownHit := map[int]int{}
	knownSigs := map[string]int{}
	var fresh []string
	for _, s := range sigs {
		matched := false
		for i, f := range findings {
			if f.Kind != "known" || f.Property != r.ID {
				continue
			}
			re, err := regexp.Compile("^(?:" + f.Sig + ")$")
			if err != nil {
				continue
			}
			if re.MatchString(s) {
				knownHit[i] += r.violCount[s]
				knownSigs[s] = r.violCount[s]
				matched = true
				break
			}
		}
		if !matched {
			fresh = append(fresh, s)
		}
	}
	for i, f := range findings {
		if n, ok := knownHit[i]; ok {
			fmt.Printf("KNOWN-FINDING: property=%s %s (sig %s, %d cases)\n", r.ID, f.What, f.Sig, n)
		}
	}
	dir := filepath.Join(Root, "replays", r.ID)
	nprint := 0
	for _, s := range fresh {
		v := r.viol[s]
		h := sha1.Sum([]byte(s))
		os.MkdirAll(dir, 0o755)
		p := filepath.Join(dir, hex.EncodeToString(h[:6])+".json")
		b, _ := json.MarshalIndent(map[string]interface{}{"property": r.ID, "sig": v.Sig, "clause": v.Clause,
			"case": v.Case, "detail": v.Detail, "count": r.violCount[s]}, "", " ")
		os.WriteFile(p, b, 0o644)
		if nprint < 40 {
			fmt.Printf("VIOLATION property=%s replay=%s sig=%q clause=%q\n", r.ID, p, v.Sig, v.Clause)
			if v.Detail != "" {
				d := v.Detail
				if len(d) > 600 {
					d = d[:600] + "..."
				}
				fmt.Printf("  detail: %s\n", d)
			}
		}
		nprint++
	}
	cov := map[string]interface{}{
		"evaluations":         r.Evals,
		"distinct_nontrivial": r.Nontrivial,
		"rule":                r.Rule,
		"samples":             r.Samples,
		"exhaustive":          r.Exhaustive,
	}
	if len(knownSigs) > 0 {
		cov["known_finding_signatures"] = knownSigs // the exact signatures the listed findings absorbed in this run
	}
	for k, v := range r.Counters {
		cov[k] = v
	}
	for k, v := range r.Extra {
		cov[k] = v
	}
	if len(r.Samples) == 0 {
		cov["samples"] = []interface{}{"(none)"}
	}
	ev := map[string]interface{}{
		"property_id": r.ID, "tier": r.Tier, "seed": r.Seed, "level": r.Level,
		"coverage": cov, "assumptions": r.Assume,
		"wall_s":             time.Since(r.start).Seconds(),
		"violations":         len(fresh),
		"known_findings_hit": len(knownHit),
	}
	os.MkdirAll(filepath.Join(Root, "evidence"), 0o755)
	b, _ := json.MarshalIndent(ev, "", " ")
	if err := os.WriteFile(filepath.Join(Root, "evidence", r.ID+".json"), b, 0o644); err != nil {
		fmt.Fprintf(os.Stderr, "cannot write evidence: %v\n", err)
		return 3
	}
	fmt.Printf("RESULT property=%s tier=%s evaluations=%d nontrivial=%d violations=%d known=%d exhaustive=%v wall=%.1fs\n",
		r.ID, r.Tier, r.Evals, r.Nontrivial, len(fresh), len(knownHit), r.Exhaustive, time.Since(r.start).Seconds())
	if len(fresh) > 0 {
		return 1
	}
	return 0
}

// ---- sharding over worker processes -------------------------------------------

// Shard reports which slice of the enumeration this process owns: cases with
// index%n == i. In the driver process (no VERIF_SHARD) it is (0,1,false).
func Shard() (i, n int, worker bool) {
	s := os.Getenv("VERIF_SHARD")
	if s == "" {
		return 0, 1, false
	}
	fmt.Sscanf(s, "%d/%d", &i, &n)
	if n <= 0 {
		return 0, 1, false
	}
	return i, n, true
}

// RunSharded re-executes this binary n times as workers (VERIF_SHARD=i/n), each
// writing a partial result that is merged into r. perWorkerTimeout bounds one worker.
func RunSharded(r *Run, n int, perWorkerTimeout time.Duration) {
	dir := filepath.Join(Root, ".build", "tmp")
	os.MkdirAll(dir, 0o755)
	type res struct {
		i    int
		path string
		err  error
		out  []byte
	}
	ch := make(chan res, n)
	for i := 0; i < n; i++ {
		go func(i int) {
			path := filepath.Join(dir, fmt.Sprintf("partial-%s-%d-%d.json", r.ID, os.Getpid(), i))
			cmd := exec.Command(os.Args[0], os.Args[1:]...)
			cmd.Env = append(os.Environ(), fmt.Sprintf("VERIF_SHARD=%d/%d", i, n), "VERIF_PARTIAL="+path)
			var buf bytes.Buffer
			cmd.Stdout, cmd.Stderr = &buf, &buf
			done := make(chan error, 1)
			if err := cmd.Start(); err != nil {
				ch <- res{i, path, err, nil}
				return
			}
			go func() { done <- cmd.Wait() }()
			select {
			case err := <-done:
				ch <- res{i, path, err, buf.Bytes()}
			case <-time.After(perWorkerTimeout):
				cmd.Process.Kill()
				<-done
				ch <- res{i, path, fmt.Errorf("worker %d exceeded %v", i, perWorkerTimeout), buf.Bytes()}
			}
		}(i)
	}
	for k := 0; k < n; k++ {
		x := <-ch
		if x.err != nil {
			tail := x.out
			if len(tail) > 3000 {
				tail = tail[len(tail)-3000:]
			}
			if fn := repoCrash(x.out); fn != "" {
				// the worker died of a panic / fatal error raised in a goroutine running repository code: the client process
				// would have died the same way, which no property tolerates - a violation, not a broken check
				r.Violate("process-crash/"+fn, "the client process survives the scenario (an unrecovered panic in repository code ends every guarantee of the property)",
					map[string]interface{}{"worker": x.i, "shard": fmt.Sprintf("%d/%d", x.i, n)}, string(tail))
				continue
			}
			r.mu.Lock()
			if r.Broken == "" {
				r.Broken = fmt.Sprintf("worker %d failed: %v\n%s", x.i, x.err, tail)
			}
			r.mu.Unlock()
			continue
		}
		if err := r.MergePartial(x.path); err != nil {
			r.mu.Lock()
			if r.Broken == "" {
				r.Broken = fmt.Sprintf("worker %d left no result: %v", x.i, err)
			}
			r.mu.Unlock()
		}
		os.Remove(x.path)
	}
}

var crashHead = regexp.MustCompile(`(?m)^(panic: |fatal error: )`)
var crashFrame = regexp.MustCompile(`(?m)^goroutine \d+ \[running\]:\n(?:(?:panic|runtime|sync|reflect|internal)[^\n]*\n\t[^\n]*\n)*([^\n]+)`)

// repoCrash returns the repository function on top of the crashing goroutine's stack when a worker's output shows a Go panic or
// fatal error whose first non-runtime frame is repository code (not the harness, not the shim packages); "" otherwise.
func repoCrash(out []byte) string {
	loc := crashHead.FindIndex(out)
	if loc == nil {
		return ""
	}
	m := crashFrame.FindSubmatch(out[loc[0]:])
	if m == nil {
		return ""
	}
	fn := string(m[1])
	if i := strings.LastIndex(fn, "("); i > 0 {
		fn = fn[:i]
	}
	const mod = "seata.apache.org/seata-go/pkg/"
	if len(fn) > len(mod) && fn[:len(mod)] == mod && !regexp.MustCompile(`/(vshim|verif)`).MatchString(fn) {
		return fn[len(mod):]
	}
	return ""
}
