package rep

import "testing"

func TestRepoCrash(t *testing.T) {
	out := "some log\npanic: interface conversion: interface {} is string, not *sql.DBResource\n\ngoroutine 12907 [running]:\nseata.apache.org/seata-go/pkg/datasource/sql.(*AsyncWorker).dealWithGroupedContexts(0xc000a91dd0, {0x136bcb8, 0x4})\n\t/repo/pkg/datasource/sql/async_worker.go:221 +0x52e\n"
	if got := repoCrash([]byte(out)); got != "datasource/sql.(*AsyncWorker).dealWithGroupedContexts" {
		t.Fatalf("got %q", got)
	}
	out2 := "panic: runtime error: invalid memory address or nil pointer dereference\n[signal SIGSEGV: segmentation violation code=0x1 addr=0x10 pc=0xe2e143]\n\ngoroutine 54 [running]:\nverifharness/checks/c11.run(...)\n\t/verif/harness/checks/c11/c11.go:78\n"
	if got := repoCrash([]byte(out2)); got != "" {
		t.Fatalf("harness crash taken for a repository crash: %q", got)
	}
	out3 := "panic: x\n\ngoroutine 5 [running]:\npanic({0x1, 0x2})\n\t/usr/lib/go/src/runtime/panic.go:1 +0x1\nseata.apache.org/seata-go/pkg/tm.Foo(...)\n\t/repo/pkg/tm/x.go:1\n"
	if got := repoCrash([]byte(out3)); got != "tm.Foo" {
		t.Fatalf("got %q", got)
	}
	if repoCrash([]byte("exit status 1, no panic")) != "" {
		t.Fatal("no crash expected")
	}
}
