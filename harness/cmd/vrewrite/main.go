// vrewrite generates the -overlay used by every check from /repo's CURRENT working
// tree: listed repository files are rewritten (go/ast, rule-driven) so that their
// timers go through the vtime shim, and the shim package is injected into the
// repository's module namespace. A listed construct that no rule covers, or a
// listed file in which no rule matched at all, makes the tool fail loudly.
package main

import (
	"bytes"
	"encoding/json"
	"flag"
	"fmt"
	"go/ast"
	"go/parser"
	"go/printer"
	"go/token"
	"os"
	"path/filepath"
	"strconv"
	"strings"
)

const shimImport = "seata.apache.org/seata-go/pkg/util/vshim/vtime"

// files whose timer calls are virtualised
var timeFiles = []string{
	"pkg/util/backoff/backoff.go",
	"pkg/remoting/getty/getty_client.go",
	"pkg/remoting/getty/session_manager.go",
	"pkg/datasource/sql/async_worker.go",
	"pkg/datasource/sql/datasource/base/meta_cache.go",
}

var timeFuncs = map[string]bool{"After": true, "NewTicker": true, "Now": true, "Sleep": true}

func main() {
	repo := flag.String("repo", "/repo", "repository root")
	out := flag.String("out", "/verif/.build/overlay", "output directory")
	shim := flag.String("shim", "/verif/harness/vshim", "shim source directory")
	flag.Parse()
	if err := os.MkdirAll(filepath.Join(*out, "files"), 0o755); err != nil {
		fail(err)
	}
	replace := map[string]string{}
	for _, rel := range timeFiles {
		src := filepath.Join(*repo, rel)
		fset := token.NewFileSet()
		f, err := parser.ParseFile(fset, src, nil, parser.ParseComments)
		if err != nil {
			fail(fmt.Errorf("%s: %w", rel, err))
		}
		n := rewriteTime(f)
		if n == 0 {
			fail(fmt.Errorf("%s: no timer call found to virtualise (the file changed shape; update cmd/vrewrite)", rel))
		}
		var buf bytes.Buffer
		if err := printer.Fprint(&buf, fset, f); err != nil {
			fail(err)
		}
		dst := filepath.Join(*out, "files", strings.ReplaceAll(rel, "/", "__"))
		if err := writeIfChanged(dst, buf.Bytes()); err != nil {
			fail(err)
		}
		replace[src] = dst
	}
	// inject the shim packages into the repository's module namespace
	err := filepath.Walk(*shim, func(p string, info os.FileInfo, err error) error {
		if err != nil || info.IsDir() || !strings.HasSuffix(p, ".go") || strings.HasSuffix(p, "_test.go") {
			return err
		}
		rel, _ := filepath.Rel(*shim, p)
		replace[filepath.Join(*repo, "pkg/util/vshim", rel)] = p
		return nil
	})
	if err != nil {
		fail(err)
	}
	b, _ := json.MarshalIndent(map[string]interface{}{"Replace": replace}, "", " ")
	if err := writeIfChanged(filepath.Join(*out, "overlay.json"), b); err != nil {
		fail(err)
	}
}

func fail(err error) {
	fmt.Fprintln(os.Stderr, "vrewrite:", err)
	os.Exit(3)
}

func writeIfChanged(path string, b []byte) error {
	if old, err := os.ReadFile(path); err == nil && bytes.Equal(old, b) {
		return nil
	}
	return os.WriteFile(path, b, 0o644)
}

// rewriteTime redirects time.After/NewTicker/Now/Sleep and gxtime.GetDefaultTimerWheel().After to vtime.
func rewriteTime(f *ast.File) int {
	timeName, gxName := "", ""
	for _, im := range f.Imports {
		p, _ := strconv.Unquote(im.Path.Value)
		switch p {
		case "time":
			timeName = "time"
			if im.Name != nil {
				timeName = im.Name.Name
			}
		case "github.com/dubbogo/gost/time":
			gxName = "time"
			if im.Name != nil {
				gxName = im.Name.Name
			}
		}
	}
	n := 0
	ast.Inspect(f, func(node ast.Node) bool {
		call, ok := node.(*ast.CallExpr)
		if !ok {
			return true
		}
		sel, ok := call.Fun.(*ast.SelectorExpr)
		if !ok {
			return true
		}
		// time.X(...)
		if id, ok := sel.X.(*ast.Ident); ok && timeName != "" && id.Name == timeName && id.Obj == nil && timeFuncs[sel.Sel.Name] {
			id.Name = "vtime"
			n++
			return true
		}
		// gxtime.GetDefaultTimerWheel().After(d)
		if sel.Sel.Name == "After" {
			if inner, ok := sel.X.(*ast.CallExpr); ok {
				if isel, ok := inner.Fun.(*ast.SelectorExpr); ok && isel.Sel.Name == "GetDefaultTimerWheel" {
					if id, ok := isel.X.(*ast.Ident); ok && id.Name == gxName && gxName != "" {
						call.Fun = &ast.SelectorExpr{X: ast.NewIdent("vtime"), Sel: ast.NewIdent("After")}
						n++
					}
				}
			}
		}
		return true
	})
	if n == 0 {
		return 0
	}
	addImport(f, shimImport, "vtime")
	pruneUnused(f, "time", timeName)
	pruneUnused(f, "github.com/dubbogo/gost/time", gxName)
	return n
}

func addImport(f *ast.File, path, name string) {
	for _, im := range f.Imports {
		if p, _ := strconv.Unquote(im.Path.Value); p == path {
			return
		}
	}
	spec := &ast.ImportSpec{Name: ast.NewIdent(name), Path: &ast.BasicLit{Kind: token.STRING, Value: strconv.Quote(path)}}
	for _, d := range f.Decls {
		if gd, ok := d.(*ast.GenDecl); ok && gd.Tok == token.IMPORT {
			gd.Specs = append(gd.Specs, spec)
			if !gd.Lparen.IsValid() {
				gd.Lparen = gd.Pos()
				gd.Rparen = gd.End()
			}
			f.Imports = append(f.Imports, spec)
			return
		}
	}
	gd := &ast.GenDecl{Tok: token.IMPORT, Specs: []ast.Spec{spec}}
	f.Decls = append([]ast.Decl{gd}, f.Decls...)
	f.Imports = append(f.Imports, spec)
}

// pruneUnused removes an import whose name is no longer referenced.
func pruneUnused(f *ast.File, path, name string) {
	if name == "" {
		return
	}
	used := false
	ast.Inspect(f, func(node ast.Node) bool {
		if sel, ok := node.(*ast.SelectorExpr); ok {
			if id, ok := sel.X.(*ast.Ident); ok && id.Name == name && id.Obj == nil {
				used = true
			}
		}
		return true
	})
	if used {
		return
	}
	for _, d := range f.Decls {
		gd, ok := d.(*ast.GenDecl)
		if !ok || gd.Tok != token.IMPORT {
			continue
		}
		var keep []ast.Spec
		for _, s := range gd.Specs {
			is := s.(*ast.ImportSpec)
			p, _ := strconv.Unquote(is.Path.Value)
			n := ""
			if is.Name != nil {
				n = is.Name.Name
			}
			if p == path && (n == name || (n == "" && name == "time")) {
				continue
			}
			keep = append(keep, s)
		}
		gd.Specs = keep
	}
	var imps []*ast.ImportSpec
	for _, im := range f.Imports {
		p, _ := strconv.Unquote(im.Path.Value)
		if p != path {
			imps = append(imps, im)
		}
	}
	f.Imports = imps
}
