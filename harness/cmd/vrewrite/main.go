// vrewrite generates the -overlay used by every check from /repo's CURRENT working
// tree: listed repository files are rewritten (go/ast, rule-driven) so that their
// timers go through the vtime shim, and the shim package is injected into the
// repository's module namespace. A listed construct that no rule covers, or a
// listed file in which no rule matched at all, makes the tool fail loudly.
package main

import (
	"bytes"
	"encoding/json"
	"flag"
	"fmt"
	"go/ast"
	"go/parser"
	"go/printer"
	"go/token"
	"os"
	"path/filepath"
	"strconv"
	"strings"
)

const shimImport = "seata.apache.org/seata-go/pkg/util/vshim/vtime"

// files whose timer calls are virtualised
var timeFiles = []string{
	"pkg/util/backoff/backoff.go",
	"pkg/remoting/getty/getty_client.go",
	"pkg/remoting/getty/session_manager.go",
	"pkg/datasource/sql/async_worker.go",
	"pkg/datasource/sql/datasource/base/meta_cache.go",
}

// files that get scheduling points at their channel / sync.Map / mutex / atomic operations
var pointFiles = []string{
	"pkg/remoting/getty/getty_remoting.go",
	"pkg/remoting/getty/getty_client.go",
	"pkg/remoting/processor/client/client_on_response_processor.go",
	"pkg/datasource/sql/async_worker.go",
	"pkg/util/fanout/fanout.go",
}

const pointImport = "seata.apache.org/seata-go/pkg/util/vshim/vpoint"

var syncCalls = map[string]bool{"Store": true, "Load": true, "Delete": true, "LoadOrStore": true, "LoadAndDelete": true,
	"Lock": true, "RLock": true, "Inc": true, "CompareAndSwap": true}

var timeFuncs = map[string]bool{"After": true, "NewTicker": true, "Now": true, "Sleep": true}

func main() {
	repo := flag.String("repo", "/repo", "repository root")
	out := flag.String("out", "/verif/.build/overlay", "output directory")
	shim := flag.String("shim", "/verif/harness/vshim", "shim source directory")
	flag.Parse()
	if err := os.MkdirAll(filepath.Join(*out, "files"), 0o755); err != nil {
		fail(err)
	}
	replace := map[string]string{}
	isTime, isPoint := map[string]bool{}, map[string]bool{}
	var all []string
	for _, rel := range timeFiles {
		isTime[rel] = true
		all = append(all, rel)
	}
	for _, rel := range pointFiles {
		isPoint[rel] = true
		if !isTime[rel] {
			all = append(all, rel)
		}
	}
	for _, rel := range all {
		src := filepath.Join(*repo, rel)
		fset := token.NewFileSet()
		f, err := parser.ParseFile(fset, src, nil, parser.ParseComments)
		if err != nil {
			fail(fmt.Errorf("%s: %w", rel, err))
		}
		if isTime[rel] {
			if n := rewriteTime(f); n == 0 {
				fail(fmt.Errorf("%s: no timer call found to virtualise (the file changed shape; update cmd/vrewrite)", rel))
			}
		}
		if isPoint[rel] {
			if n := rewritePoints(fset, f, filepath.Base(rel)); n == 0 {
				fail(fmt.Errorf("%s: no synchronisation operation found to put a scheduling point at", rel))
			}
		}
		var buf bytes.Buffer
		if err := printer.Fprint(&buf, fset, f); err != nil {
			fail(err)
		}
		dst := filepath.Join(*out, "files", strings.ReplaceAll(rel, "/", "__"))
		if err := writeIfChanged(dst, buf.Bytes()); err != nil {
			fail(err)
		}
		replace[src] = dst
	}
	// inject the shim packages into the repository's module namespace
	err := filepath.Walk(*shim, func(p string, info os.FileInfo, err error) error {
		if err != nil || info.IsDir() || !strings.HasSuffix(p, ".go") || strings.HasSuffix(p, "_test.go") {
			return err
		}
		rel, _ := filepath.Rel(*shim, p)
		replace[filepath.Join(*repo, "pkg/util/vshim", rel)] = p
		return nil
	})
	if err != nil {
		fail(err)
	}
	b, _ := json.MarshalIndent(map[string]interface{}{"Replace": replace}, "", " ")
	if err := writeIfChanged(filepath.Join(*out, "overlay.json"), b); err != nil {
		fail(err)
	}
}

func fail(err error) {
	fmt.Fprintln(os.Stderr, "vrewrite:", err)
	os.Exit(3)
}

func writeIfChanged(path string, b []byte) error {
	if old, err := os.ReadFile(path); err == nil && bytes.Equal(old, b) {
		return nil
	}
	return os.WriteFile(path, b, 0o644)
}

// rewriteTime redirects time.After/NewTicker/Now/Sleep and gxtime.GetDefaultTimerWheel().After to vtime.
func rewriteTime(f *ast.File) int {
	timeName, gxName := "", ""
	for _, im := range f.Imports {
		p, _ := strconv.Unquote(im.Path.Value)
		switch p {
		case "time":
			timeName = "time"
			if im.Name != nil {
				timeName = im.Name.Name
			}
		case "github.com/dubbogo/gost/time":
			gxName = "time"
			if im.Name != nil {
				gxName = im.Name.Name
			}
		}
	}
	n := 0
	ast.Inspect(f, func(node ast.Node) bool {
		call, ok := node.(*ast.CallExpr)
		if !ok {
			return true
		}
		sel, ok := call.Fun.(*ast.SelectorExpr)
		if !ok {
			return true
		}
		// time.X(...)
		if id, ok := sel.X.(*ast.Ident); ok && timeName != "" && id.Name == timeName && id.Obj == nil && timeFuncs[sel.Sel.Name] {
			id.Name = "vtime"
			n++
			return true
		}
		// gxtime.GetDefaultTimerWheel().After(d)
		if sel.Sel.Name == "After" {
			if inner, ok := sel.X.(*ast.CallExpr); ok {
				if isel, ok := inner.Fun.(*ast.SelectorExpr); ok && isel.Sel.Name == "GetDefaultTimerWheel" {
					if id, ok := isel.X.(*ast.Ident); ok && id.Name == gxName && gxName != "" {
						call.Fun = &ast.SelectorExpr{X: ast.NewIdent("vtime"), Sel: ast.NewIdent("After")}
						n++
					}
				}
			}
		}
		return true
	})
	if n == 0 {
		return 0
	}
	addImport(f, shimImport, "vtime")
	pruneUnused(f, "time", timeName)
	pruneUnused(f, "github.com/dubbogo/gost/time", gxName)
	return n
}

func addImport(f *ast.File, path, name string) {
	for _, im := range f.Imports {
		if p, _ := strconv.Unquote(im.Path.Value); p == path {
			return
		}
	}
	spec := &ast.ImportSpec{Name: ast.NewIdent(name), Path: &ast.BasicLit{Kind: token.STRING, Value: strconv.Quote(path)}}
	for _, d := range f.Decls {
		if gd, ok := d.(*ast.GenDecl); ok && gd.Tok == token.IMPORT {
			gd.Specs = append(gd.Specs, spec)
			if !gd.Lparen.IsValid() {
				gd.Lparen = gd.Pos()
				gd.Rparen = gd.End()
			}
			f.Imports = append(f.Imports, spec)
			return
		}
	}
	gd := &ast.GenDecl{Tok: token.IMPORT, Specs: []ast.Spec{spec}}
	f.Decls = append([]ast.Decl{gd}, f.Decls...)
	f.Imports = append(f.Imports, spec)
}

// pruneUnused removes an import whose name is no longer referenced.
func pruneUnused(f *ast.File, path, name string) {
	if name == "" {
		return
	}
	used := false
	ast.Inspect(f, func(node ast.Node) bool {
		if sel, ok := node.(*ast.SelectorExpr); ok {
			if id, ok := sel.X.(*ast.Ident); ok && id.Name == name && id.Obj == nil {
				used = true
			}
		}
		return true
	})
	if used {
		return
	}
	for _, d := range f.Decls {
		gd, ok := d.(*ast.GenDecl)
		if !ok || gd.Tok != token.IMPORT {
			continue
		}
		var keep []ast.Spec
		for _, s := range gd.Specs {
			is := s.(*ast.ImportSpec)
			p, _ := strconv.Unquote(is.Path.Value)
			n := ""
			if is.Name != nil {
				n = is.Name.Name
			}
			if p == path && (n == name || (n == "" && name == "time")) {
				continue
			}
			keep = append(keep, s)
		}
		gd.Specs = keep
	}
	var imps []*ast.ImportSpec
	for _, im := range f.Imports {
		p, _ := strconv.Unquote(im.Path.Value)
		if p != path {
			imps = append(imps, im)
		}
	}
	f.Imports = imps
}

// ---- scheduling points ---------------------------------------------------------

// hasSyncOp reports whether the expression/simple statement (not descending into function literals or blocks)
// contains a channel operation or a listed sync call.
func hasSyncOp(n ast.Node) (found bool, isChan bool) {
	if n == nil {
		return
	}
	ast.Inspect(n, func(x ast.Node) bool {
		switch v := x.(type) {
		case *ast.FuncLit, *ast.BlockStmt:
			return false
		case *ast.SendStmt:
			found, isChan = true, true
		case *ast.UnaryExpr:
			if v.Op == token.ARROW {
				found, isChan = true, true
			}
		case *ast.CallExpr:
			if sel, ok := v.Fun.(*ast.SelectorExpr); ok && syncCalls[sel.Sel.Name] {
				found = true
			}
		}
		return true
	})
	return
}

func pointStmt(where string) ast.Stmt {
	return &ast.ExprStmt{X: &ast.CallExpr{
		Fun:  &ast.SelectorExpr{X: ast.NewIdent("vpoint"), Sel: ast.NewIdent("Point")},
		Args: []ast.Expr{&ast.BasicLit{Kind: token.STRING, Value: strconv.Quote(where)}},
	}}
}

func rewritePoints(fset *token.FileSet, f *ast.File, base string) int {
	n := 0
	where := func(s ast.Node, tag string) string {
		return fmt.Sprintf("%s:%d%s", base, fset.Position(s.Pos()).Line, tag)
	}
	var doList func(list []ast.Stmt) []ast.Stmt
	var doStmt func(s ast.Stmt)
	doFuncLits := func(node ast.Node) {
		if node == nil {
			return
		}
		ast.Inspect(node, func(x ast.Node) bool {
			if fl, ok := x.(*ast.FuncLit); ok {
				fl.Body.List = doList(fl.Body.List)
				return false
			}
			if _, ok := x.(*ast.BlockStmt); ok {
				return false
			}
			return true
		})
	}
	doStmt = func(s ast.Stmt) {
		switch v := s.(type) {
		case *ast.BlockStmt:
			v.List = doList(v.List)
		case *ast.IfStmt:
			v.Body.List = doList(v.Body.List)
			if v.Else != nil {
				doStmt(v.Else)
			}
		case *ast.ForStmt:
			v.Body.List = doList(v.Body.List)
		case *ast.RangeStmt:
			v.Body.List = doList(v.Body.List)
		case *ast.SwitchStmt:
			for _, c := range v.Body.List {
				cc := c.(*ast.CaseClause)
				cc.Body = doList(cc.Body)
			}
		case *ast.TypeSwitchStmt:
			for _, c := range v.Body.List {
				cc := c.(*ast.CaseClause)
				cc.Body = doList(cc.Body)
			}
		case *ast.SelectStmt:
			for _, c := range v.Body.List {
				cc := c.(*ast.CommClause)
				body := doList(cc.Body)
				cc.Body = append([]ast.Stmt{pointStmt(where(cc, "+"))}, body...)
				n++
			}
		case *ast.LabeledStmt:
			doStmt(v.Stmt)
		}
	}
	doList = func(list []ast.Stmt) []ast.Stmt {
		var out []ast.Stmt
		for _, s := range list {
			var head ast.Node = s
			switch v := s.(type) {
			case *ast.IfStmt:
				head = &ast.BlockStmt{} // examined below via Init/Cond
				f1, _ := hasSyncOp(v.Init)
				f2, _ := hasSyncOp(v.Cond)
				if f1 || f2 {
					out = append(out, pointStmt(where(s, "")))
					n++
				}
			case *ast.ForStmt, *ast.RangeStmt, *ast.SwitchStmt, *ast.TypeSwitchStmt, *ast.BlockStmt, *ast.LabeledStmt:
				head = &ast.BlockStmt{}
			case *ast.SelectStmt:
				head = &ast.BlockStmt{}
				out = append(out, pointStmt(where(s, "")))
				n++
			case *ast.DeferStmt, *ast.GoStmt:
				head = &ast.BlockStmt{}
			}
			found, isChan := hasSyncOp(head)
			if found {
				out = append(out, pointStmt(where(s, "")))
				n++
			}
			doFuncLits(func() ast.Node {
				switch v := s.(type) {
				case *ast.IfStmt, *ast.ForStmt, *ast.RangeStmt, *ast.SwitchStmt, *ast.TypeSwitchStmt, *ast.BlockStmt, *ast.SelectStmt, *ast.LabeledStmt:
					return nil
				default:
					return v
				}
			}())
			doStmt(s)
			out = append(out, s)
			if found && isChan {
				if _, isRet := s.(*ast.ReturnStmt); !isRet {
					out = append(out, pointStmt(where(s, "+")))
				}
			}
		}
		return out
	}
	for _, d := range f.Decls {
		if fd, ok := d.(*ast.FuncDecl); ok && fd.Body != nil {
			fd.Body.List = doList(fd.Body.List)
		}
	}
	if n > 0 {
		addImport(f, pointImport, "vpoint")
	}
	return n
}
