package main

import "verifharness/checks/c14"

func init() { registry["C14"] = entry{"exploration", c14.Run} }
