package main

import "verifharness/checks/c14"

func init() { registry["C14"] = entry{"model_checking", c14.Run} }
