package main

import "verifharness/checks/c05"

func init() { registry["C05"] = entry{"exploration", c05.Run} }
