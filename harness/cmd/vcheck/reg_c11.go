package main

import "verifharness/checks/c11"

func init() { registry["C11"] = entry{"model_checking", c11.Run} }
