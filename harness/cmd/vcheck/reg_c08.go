package main

import "verifharness/checks/c08"

func init() { registry["C08"] = entry{"exploration", c08.Run} }
