package main

import "verifharness/checks/c06"

func init() { registry["C06"] = entry{"model_checking", c06.Run} }
