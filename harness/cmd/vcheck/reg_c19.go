package main

import "verifharness/checks/c19"

func init() { registry["C19"] = entry{"model_checking", c19.Run} }
