package main

import "verifharness/checks/c20"

func init() { registry["C20"] = entry{"other", c20.Run} }
