package main

import (
	"verifharness/checks/c04"
	"verifharness/checks/c07"
)

func init() {
	registry["C04"] = entry{"fault_enumeration", c04.Run}
	registry["C07"] = entry{"exploration", c07.Run}
}
