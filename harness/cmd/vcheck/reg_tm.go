package main

import "verifharness/checks/c04"

func init() { registry["C04"] = entry{"fault_enumeration", c04.Run} }
