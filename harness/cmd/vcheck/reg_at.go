package main

import (
	"os"
	"verifharness/checks/c01"
	"verifharness/checks/c02"
	"verifharness/checks/c03b"
	"verifharness/checks/c03c"
	"verifharness/checks/c09"
	"verifharness/checks/c10"
	"verifharness/checks/c10d"
	"verifharness/checks/c16"
	"verifharness/checks/c17"
	"verifharness/checks/c18"
	"verifharness/rep"
)

func init() {
	registry["C01"] = entry{"exploration", c01.Run}
	registry["C02"] = entry{"fault_enumeration", c02.Run}
	registry["C09"] = entry{"exploration", c09.Run}
	registry["C10"] = entry{"fault_enumeration", func(r *rep.Run) {
		if os.Getenv("VERIF_C10D_WORKER") != "" {
			c10d.RunD(r) // a part D worker process
			return
		}
		c10.Run(r)
		if _, _, worker := rep.Shard(); !worker && os.Getenv("VERIF_REPLAY") == "" {
			c10d.RunD(r)
		}
	}}
	registry["C16"] = entry{"exploration", c16.Run}
	registry["C17"] = entry{"fault_enumeration", c17.Run}
	registry["C18"] = entry{"exploration", c18.Run}
	registry["C03"] = entry{"model_checking", func(r *rep.Run) {
		if os.Getenv("VERIF_C03C_WORKER") != "" {
			c03c.RunC(r) // a part C worker process
			return
		}
		c18.Run03A(r)
		if _, _, worker := rep.Shard(); !worker && os.Getenv("VERIF_REPLAY") == "" {
			c03b.RunB(r)
			c03c.RunC(r)
		}
	}}
}
