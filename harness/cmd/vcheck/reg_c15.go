package main

import "verifharness/checks/c15"

func init() { registry["C15"] = entry{"model_checking", c15.Run} }
