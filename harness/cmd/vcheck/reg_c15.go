package main

import "verifharness/checks/c15"

func init() { registry["C15"] = entry{"exploration", c15.Run} }
