// vcheck runs one property check: vcheck <id> [--replay file]
package main

import (
	"fmt"
	"os"

	"verifharness/rep"
)

type checkFn func(r *rep.Run)

type entry struct {
	level string
	fn    checkFn
}

var registry = map[string]entry{}

func main() {
	if len(os.Args) < 2 {
		fmt.Fprintln(os.Stderr, "usage: vcheck <id>")
		os.Exit(2)
	}
	id := os.Args[1]
	e, ok := registry[id]
	if !ok {
		fmt.Fprintf(os.Stderr, "unknown check %s\n", id)
		os.Exit(2)
	}
	r := rep.New(id, e.level)
	if len(os.Args) >= 4 && os.Args[2] == "--replay" {
		os.Setenv("VERIF_REPLAY", os.Args[3])
	}
	e.fn(r)
	if p := os.Getenv("VERIF_PARTIAL"); p != "" {
		if err := r.WritePartial(p); err != nil {
			fmt.Fprintln(os.Stderr, err)
			os.Exit(3)
		}
		os.Exit(0)
	}
	os.Exit(r.Finish())
}
