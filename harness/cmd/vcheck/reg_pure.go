package main

import (
	"verifharness/checks/c12"
	"verifharness/checks/c13"
)

func init() {
	registry["C12"] = entry{"exploration", c12.Run}
	registry["C13"] = entry{"model_checking", c13.Run}
}
