// Package faketc is the in-process transaction coordinator of the closed system
// (DESIGN §2.2): a fake getty.Session announced to the real client handler, a
// deterministic coordinator state machine behind it, and a complete message log.
package faketc

import (
	"fmt"
	"sort"
	"strings"
	"sync"
	"time"

	getty "github.com/apache/dubbo-getty"

	"seata.apache.org/seata-go/pkg/protocol/branch"
	"seata.apache.org/seata-go/pkg/protocol/codec"
	"seata.apache.org/seata-go/pkg/protocol/message"
	sgetty "seata.apache.org/seata-go/pkg/remoting/getty"
	serr "seata.apache.org/seata-go/pkg/util/errors"

	"verifharness/quiet"
	"verifharness/vclock"
)

// Spawner starts a delivery thread; the default is a plain goroutine, a
// cooperative scheduler substitutes its own.
var Spawn = func(name string, f func()) { go f() }

// Point is a scheduling point a schedule-exploring check may install: it is called before a client message reaches the
// coordinator.
var Point = func(desc string) {}

// Event is one message crossing the fake connection.
type Event struct {
	G       int64  // global sequence shared with memdb's journal
	Dir     string // "c2s" client -> coordinator, "s2c" coordinator -> client
	Session int
	Msg     message.RpcMessage
	Note    string
}

func (e Event) TypeName() string { return fmt.Sprintf("%T", e.Msg.Body) }

type Branch struct {
	ID         int64
	Type       branch.BranchType
	ResourceID string
	LockKey    string
	Status     branch.BranchStatus
	AppData    []byte
	Keys       []string
}

type Global struct {
	Xid      string
	Name     string
	Status   message.GlobalStatus
	Branches []*Branch
}

// Answer says how the coordinator treats one request.
type Answer struct {
	Kind string // "" default, "fail" (failure result), "transport" (WritePkg error), "drop" (no reply), "lockconflict", "fail-nocode" (BranchRegister: failure result with error code 0)
	Msg  string
}

type TC struct {
	mu       sync.Mutex
	Addr     string
	sessions []*Session
	events   []Event
	globals  map[string]*Global
	order    []string
	locks    map[string]string // "resource^table:pk" -> xid
	nextXid  int64
	nextBr   int64
	nextID   int32
	// Script decides the answer for a client request (nil = protocol-correct success).
	Script func(tc *TC, req message.RpcMessage) Answer
	// AutoRollback makes GlobalRollback drive BranchRollback of every branch (reverse order) before replying.
	AutoRollback bool
	Wire         bool // pass every message through the real frame writer/reader
	waiters      map[int32]chan message.RpcMessage
	resources    map[int][]string // session -> resource ids announced
}

func New(addr string) *TC {
	return &TC{Addr: addr, globals: map[string]*Global{}, locks: map[string]string{}, waiters: map[int32]chan message.RpcMessage{},
		resources: map[int][]string{}, nextID: 1 << 20, nextBr: 1000}
}

// ResetState forgets transactions, locks and the message log (sessions and announced resources stay).
func (tc *TC) ResetState() {
	tc.mu.Lock()
	defer tc.mu.Unlock()
	tc.events = nil
	tc.globals = map[string]*Global{}
	tc.order = nil
	tc.locks = map[string]string{}
	tc.waiters = map[int32]chan message.RpcMessage{}
	tc.Script = nil
}

// ---- session -----------------------------------------------------------------

type Session struct {
	getty.Session // nil: any method not overridden below panics loudly
	tc            *TC
	SID           int
	addr          string
	mu            sync.Mutex
	closed        bool
	attrs         map[interface{}]interface{}
	failWrites    int // the next n writes fail although the session stays open
}

// FailWrites makes the next n writes on the session fail (the session stays open).
func (s *Session) FailWrites(n int) {
	s.mu.Lock()
	s.failWrites = n
	s.mu.Unlock()
}

func (s *Session) IsClosed() bool {
	s.mu.Lock()
	defer s.mu.Unlock()
	return s.closed
}
func (s *Session) RemoteAddr() string { return s.addr }
func (s *Session) LocalAddr() string  { return "127.0.0.1:50000" }
func (s *Session) Stat() string       { return fmt.Sprintf("faketc-session-%d(%s)", s.SID, s.addr) }
func (s *Session) Close() {
	s.mu.Lock()
	s.closed = true
	s.mu.Unlock()
}
func (s *Session) SetAttribute(k, v interface{}) {
	s.mu.Lock()
	if s.attrs == nil {
		s.attrs = map[interface{}]interface{}{}
	}
	s.attrs[k] = v
	s.mu.Unlock()
}
func (s *Session) GetAttribute(k interface{}) interface{} {
	s.mu.Lock()
	defer s.mu.Unlock()
	return s.attrs[k]
}
func (s *Session) RemoveAttribute(k interface{}) {
	s.mu.Lock()
	delete(s.attrs, k)
	s.mu.Unlock()
}

// SetClosed flips the closed flag without telling the client (a dead connection not yet noticed).
func (s *Session) SetClosed(c bool) {
	s.mu.Lock()
	s.closed = c
	s.mu.Unlock()
}

// WritePkg is where a client message reaches the coordinator.
func (s *Session) WritePkg(pkg interface{}, timeout time.Duration) (int, int, error) {
	msg, ok := pkg.(message.RpcMessage)
	if !ok {
		return 0, 0, fmt.Errorf("faketc: not an RpcMessage: %T", pkg)
	}
	if s.IsClosed() {
		return 0, 0, fmt.Errorf("faketc: session closed")
	}
	Point(fmt.Sprintf("send %T", msg.Body))
	s.mu.Lock()
	fail := s.failWrites > 0
	if fail {
		s.failWrites--
	}
	s.mu.Unlock()
	if fail {
		return 0, 0, fmt.Errorf("faketc: write failed (injected)")
	}
	return s.tc.receive(s, msg)
}

// Open announces a new session to the client the way getty does.
func (tc *TC) Open(addr string) *Session {
	tc.mu.Lock()
	s := &Session{tc: tc, SID: len(tc.sessions) + 1, addr: addr}
	tc.sessions = append(tc.sessions, s)
	tc.mu.Unlock()
	sgetty.GetGettyClientHandlerInstance().OnOpen(s)
	return s
}

// NewSession creates a session without announcing it.
func (tc *TC) NewSession(addr string) *Session {
	tc.mu.Lock()
	defer tc.mu.Unlock()
	s := &Session{tc: tc, SID: len(tc.sessions) + 1, addr: addr}
	tc.sessions = append(tc.sessions, s)
	return s
}

func (tc *TC) CloseSession(s *Session) {
	s.Close()
	sgetty.GetGettyClientHandlerInstance().OnClose(s)
}

// ---- log ---------------------------------------------------------------------

func (tc *TC) logEvent(dir string, s *Session, m message.RpcMessage, note string) {
	id := 0
	if s != nil {
		id = s.SID
	}
	tc.events = append(tc.events, Event{G: vclock.Next(), Dir: dir, Session: id, Msg: m, Note: note})
}

func (tc *TC) Events() []Event {
	tc.mu.Lock()
	defer tc.mu.Unlock()
	return append([]Event(nil), tc.events...)
}

// Requests returns the client->coordinator messages whose body has the given type name (e.g. "message.BranchRegisterRequest").
func (tc *TC) Requests(typeName string) []Event {
	var out []Event
	for _, e := range tc.Events() {
		if e.Dir == "c2s" && (typeName == "" || e.TypeName() == typeName) {
			out = append(out, e)
		}
	}
	return out
}

func (tc *TC) Global(xid string) *Global {
	tc.mu.Lock()
	defer tc.mu.Unlock()
	return tc.globals[xid]
}

func (tc *TC) Globals() []*Global {
	tc.mu.Lock()
	defer tc.mu.Unlock()
	var out []*Global
	for _, x := range tc.order {
		out = append(out, tc.globals[x])
	}
	return out
}

func (tc *TC) LockTable() map[string]string {
	tc.mu.Lock()
	defer tc.mu.Unlock()
	out := map[string]string{}
	for k, v := range tc.locks {
		out[k] = v
	}
	return out
}

func (tc *TC) ResourcesOn(sessionID int) []string {
	tc.mu.Lock()
	defer tc.mu.Unlock()
	return append([]string(nil), tc.resources[sessionID]...)
}

// ---- lock keys ---------------------------------------------------------------

// ParseLockKey splits "t1:1,2;t2:a_b" into "t1:1", "t1:2", "t2:a_b" (table lower-cased).
func ParseLockKey(lockKey string) []string {
	var out []string
	for _, part := range strings.Split(lockKey, ";") {
		part = strings.TrimSpace(part)
		if part == "" {
			continue
		}
		i := strings.Index(part, ":")
		if i < 0 {
			out = append(out, strings.ToLower(part)+":")
			continue
		}
		table := strings.ToLower(part[:i])
		for _, pk := range strings.Split(part[i+1:], ",") {
			out = append(out, table+":"+pk)
		}
	}
	sort.Strings(out)
	return out
}

// ---- receive -----------------------------------------------------------------

func (tc *TC) wire(m message.RpcMessage) (message.RpcMessage, error) {
	if !tc.Wire {
		return m, nil
	}
	h := &sgetty.RpcPackageHandler{}
	b, err := h.Write(nil, m)
	if err != nil {
		return m, err
	}
	pkg, n, err := h.Read(nil, b)
	if err != nil {
		return m, err
	}
	out, ok := pkg.(message.RpcMessage)
	if !ok || n != len(b) {
		return m, fmt.Errorf("faketc wire: frame did not round trip (n=%d len=%d pkg=%T)", n, len(b), pkg)
	}
	return out, nil
}

func (tc *TC) receive(s *Session, in message.RpcMessage) (int, int, error) {
	msg, err := tc.wire(in)
	if err != nil {
		return 0, 0, err
	}
	tc.mu.Lock()
	ans := Answer{}
	isReq := msg.Type == message.GettyRequestTypeRequestSync || msg.Type == message.GettyRequestTypeRequestOneway
	if tc.Script != nil && isReq {
		tc.mu.Unlock()
		ans = tc.Script(tc, msg)
		tc.mu.Lock()
	}
	if ans.Kind == "transport" {
		tc.logEvent("c2s", s, msg, "transport-error")
		tc.mu.Unlock()
		return 0, 0, fmt.Errorf("faketc: write failed (injected)")
	}
	tc.logEvent("c2s", s, msg, ans.Kind)
	// a response to a coordinator-initiated request
	if msg.Type == message.GettyRequestTypeResponse {
		if ch, ok := tc.waiters[msg.ID]; ok {
			delete(tc.waiters, msg.ID)
			tc.mu.Unlock()
			ch <- msg
			return 1, 1, nil
		}
		tc.mu.Unlock()
		return 1, 1, nil
	}
	if msg.Type == message.GettyRequestTypeHeartbeatRequest {
		tc.mu.Unlock()
		tc.deliver(s, message.RpcMessage{ID: msg.ID, Type: message.GettyRequestTypeHeartbeatResponse, Codec: msg.Codec, Body: message.HeartBeatMessagePong})
		return 1, 1, nil
	}
	if ans.Kind == "drop" {
		tc.mu.Unlock()
		return 1, 1, nil
	}
	resp, after := tc.handle(s, msg, ans)
	tc.mu.Unlock()
	if after != nil {
		// work the coordinator does before answering (synchronous phase two), on its own thread
		Spawn("tc-work", func() {
			after()
			if resp != nil {
				tc.deliverNow(s, message.RpcMessage{ID: msg.ID, Type: message.GettyRequestTypeResponse, Codec: byte(codec.CodecTypeSeata), Body: resp})
			}
		})
		return 1, 1, nil
	}
	if resp != nil {
		tc.deliver(s, message.RpcMessage{ID: msg.ID, Type: message.GettyRequestTypeResponse, Codec: byte(codec.CodecTypeSeata), Body: resp})
	}
	return 1, 1, nil
}

// deliver hands a coordinator message to the client on its own thread (getty dispatches each package as a pool task).
func (tc *TC) deliver(s *Session, m message.RpcMessage) {
	Spawn("tc-deliver", func() { tc.deliverNow(s, m) })
}

func (tc *TC) deliverNow(s *Session, m message.RpcMessage) {
	out, err := tc.wire(m)
	tc.mu.Lock()
	note := ""
	if err != nil {
		note = "wire-error: " + err.Error()
	}
	tc.logEvent("s2c", s, out, note)
	tc.mu.Unlock()
	if err != nil {
		return
	}
	func() {
		defer func() {
			if r := recover(); r != nil {
				// getty's task pool recovers and prints; for the coordinator this is "no reply"
				tc.mu.Lock()
				tc.logEvent("s2c", s, out, fmt.Sprintf("handler-panic: %v", r))
				tc.mu.Unlock()
			}
		}()
		sgetty.GetGettyClientHandlerInstance().OnMessage(s, out)
	}()
}

func okResult() message.AbstractTransactionResponse {
	return message.AbstractTransactionResponse{AbstractResultMessage: message.AbstractResultMessage{ResultCode: message.ResultCodeSuccess}}
}

func failResult(msg string, code serr.TransactionErrorCode) message.AbstractTransactionResponse {
	return message.AbstractTransactionResponse{AbstractResultMessage: message.AbstractResultMessage{ResultCode: message.ResultCodeFailed, Msg: msg}, TransactionErrorCode: code}
}

// handle computes the reply (called with tc.mu held). after, if non-nil, runs before the reply is delivered.
func (tc *TC) handle(s *Session, msg message.RpcMessage, ans Answer) (resp interface{}, after func()) {
	fail := ans.Kind == "fail"
	switch req := msg.Body.(type) {
	case message.RegisterTMRequest:
		return message.RegisterTMResponse{AbstractIdentifyResponse: message.AbstractIdentifyResponse{Identified: !fail, Version: "1.5.2"}}, nil
	case message.RegisterRMRequest:
		if !fail {
			tc.resources[s.SID] = append(tc.resources[s.SID], strings.Split(req.ResourceIds, ",")...)
		}
		return message.RegisterRMResponse{AbstractIdentifyResponse: message.AbstractIdentifyResponse{Identified: !fail, Version: "1.5.2"}}, nil
	case message.GlobalBeginRequest:
		if fail {
			return message.GlobalBeginResponse{AbstractTransactionResponse: failResult(ans.Msg, serr.TransactionErrorCodeBeginFailed)}, nil
		}
		tc.nextXid++
		xid := fmt.Sprintf("%s:%d", tc.Addr, 2000+tc.nextXid)
		tc.globals[xid] = &Global{Xid: xid, Name: req.TransactionName, Status: message.GlobalStatusBegin}
		tc.order = append(tc.order, xid)
		return message.GlobalBeginResponse{AbstractTransactionResponse: okResult(), Xid: xid}, nil
	case message.BranchRegisterRequest:
		if fail {
			return message.BranchRegisterResponse{AbstractTransactionResponse: failResult(ans.Msg, serr.TransactionErrorCodeBranchRegisterFailed)}, nil
		}
		if ans.Kind == "fail-nocode" { // a failure result whose transaction error code is 0 (unknown): still a refusal
			return message.BranchRegisterResponse{AbstractTransactionResponse: failResult(ans.Msg, serr.TransactionErrorCodeUnknown)}, nil
		}
		g := tc.globals[req.Xid]
		if g == nil {
			return message.BranchRegisterResponse{AbstractTransactionResponse: failResult("global transaction not exist: "+req.Xid, serr.TransactionErrorCodeGlobalTransactionNotExist)}, nil
		}
		if g.Status != message.GlobalStatusBegin {
			return message.BranchRegisterResponse{AbstractTransactionResponse: failResult("global transaction not active", serr.TransactionErrorCodeGlobalTransactionNotActive)}, nil
		}
		keys := ParseLockKey(req.LockKey)
		if ans.Kind == "lockconflict" {
			return message.BranchRegisterResponse{AbstractTransactionResponse: failResult("Global lock acquire failed (injected)", serr.TransactionErrorCodeLockKeyConflict)}, nil
		}
		if req.BranchType == branch.BranchTypeAT {
			for _, k := range keys {
				if owner, ok := tc.locks[req.ResourceId+"^"+k]; ok && owner != req.Xid {
					return message.BranchRegisterResponse{AbstractTransactionResponse: failResult("Global lock acquire failed xid "+owner, serr.TransactionErrorCodeLockKeyConflict)}, nil
				}
			}
			for _, k := range keys {
				tc.locks[req.ResourceId+"^"+k] = req.Xid
			}
		}
		tc.nextBr++
		b := &Branch{ID: tc.nextBr, Type: req.BranchType, ResourceID: req.ResourceId, LockKey: req.LockKey, Status: branch.BranchStatusRegistered, AppData: req.ApplicationData, Keys: keys}
		g.Branches = append(g.Branches, b)
		return message.BranchRegisterResponse{AbstractTransactionResponse: okResult(), BranchId: b.ID}, nil
	case message.BranchReportRequest:
		if fail {
			return message.BranchReportResponse{AbstractTransactionResponse: failResult(ans.Msg, serr.TransactionErrorCodeBranchReportFailed)}, nil
		}
		if g := tc.globals[req.Xid]; g != nil {
			for _, b := range g.Branches {
				if b.ID == req.BranchId {
					b.Status = req.Status
				}
			}
		}
		return message.BranchReportResponse{AbstractTransactionResponse: okResult()}, nil
	case message.GlobalLockQueryRequest:
		if fail {
			return message.GlobalLockQueryResponse{AbstractTransactionResponse: failResult(ans.Msg, serr.TransactionErrorCodeLockableCheckFailed)}, nil
		}
		lockable := ans.Kind != "lockconflict"
		for _, k := range ParseLockKey(req.LockKey) {
			if owner, ok := tc.locks[req.ResourceId+"^"+k]; ok && owner != req.Xid {
				lockable = false
			}
		}
		return message.GlobalLockQueryResponse{AbstractTransactionResponse: okResult(), Lockable: lockable}, nil
	case message.GlobalCommitRequest:
		if fail {
			return message.GlobalCommitResponse{AbstractGlobalEndResponse: message.AbstractGlobalEndResponse{AbstractTransactionResponse: failResult(ans.Msg, serr.TransactionErrorCodeUnknown), GlobalStatus: message.GlobalStatusCommitFailed}}, nil
		}
		g := tc.globals[req.Xid]
		st := message.GlobalStatusCommitted
		if g == nil {
			st = message.GlobalStatusFinished
		} else {
			g.Status = message.GlobalStatusCommitted
			tc.releaseLocks(g)
		}
		return message.GlobalCommitResponse{AbstractGlobalEndResponse: message.AbstractGlobalEndResponse{AbstractTransactionResponse: okResult(), GlobalStatus: st}}, nil
	case message.GlobalRollbackRequest:
		if fail {
			return message.GlobalRollbackResponse{AbstractGlobalEndResponse: message.AbstractGlobalEndResponse{AbstractTransactionResponse: failResult(ans.Msg, serr.TransactionErrorCodeUnknown), GlobalStatus: message.GlobalStatusRollbackFailed}}, nil
		}
		g := tc.globals[req.Xid]
		if g == nil {
			return message.GlobalRollbackResponse{AbstractGlobalEndResponse: message.AbstractGlobalEndResponse{AbstractTransactionResponse: okResult(), GlobalStatus: message.GlobalStatusFinished}}, nil
		}
		g.Status = message.GlobalStatusRollbacking
		resp := message.GlobalRollbackResponse{AbstractGlobalEndResponse: message.AbstractGlobalEndResponse{AbstractTransactionResponse: okResult(), GlobalStatus: message.GlobalStatusRollbacked}}
		if tc.AutoRollback {
			xid := req.Xid
			return resp, func() { tc.DriveRollback(xid) }
		}
		return resp, nil
	case message.GlobalStatusRequest:
		st := message.GlobalStatusUnKnown
		if g := tc.globals[req.Xid]; g != nil {
			st = g.Status
		}
		return message.GlobalStatusResponse{AbstractGlobalEndResponse: message.AbstractGlobalEndResponse{AbstractTransactionResponse: okResult(), GlobalStatus: st}}, nil
	case message.GlobalReportRequest:
		return message.GlobalReportResponse{AbstractGlobalEndResponse: message.AbstractGlobalEndResponse{AbstractTransactionResponse: okResult(), GlobalStatus: req.GlobalStatus}}, nil
	}
	return nil, nil
}

func (tc *TC) releaseLocks(g *Global) {
	for k, owner := range tc.locks {
		if owner == g.Xid {
			delete(tc.locks, k)
		}
	}
}

// ---- coordinator-initiated phase two ------------------------------------------

// Request sends a coordinator request on the first open session that announced the
// resource (or the first open session) and returns the client's response. The client
// answers from inside its message handler, so "the handler has returned and no response
// has arrived" is a deterministic "no reply" (ok=false) - no clock is involved.
func (tc *TC) Request(body interface{}, resourceID string) (message.RpcMessage, bool) {
	tc.mu.Lock()
	var s *Session
	for _, c := range tc.sessions {
		if c.IsClosed() {
			continue
		}
		if s == nil {
			s = c
		}
		for _, r := range tc.resources[c.SID] {
			if r == resourceID {
				s = c
			}
		}
	}
	if s == nil {
		tc.mu.Unlock()
		return message.RpcMessage{}, false
	}
	tc.nextID++
	id := tc.nextID
	ch := make(chan message.RpcMessage, 1)
	tc.waiters[id] = ch
	tc.mu.Unlock()
	done := make(chan struct{})
	m := message.RpcMessage{ID: id, Type: message.GettyRequestTypeRequestSync, Codec: byte(codec.CodecTypeSeata), Body: body}
	Spawn("tc-deliver", func() {
		defer close(done)
		tc.deliverNow(s, m)
	})
	Join(done)
	tc.mu.Lock()
	delete(tc.waiters, id)
	tc.mu.Unlock()
	select {
	case r := <-ch:
		return r, true
	default:
		return message.RpcMessage{}, false
	}
}

// Join waits for a delivery thread to finish. If the whole process goes quiet (every goroutine blocked) while the
// handler has not returned, the handler is stuck for good: Join gives up and Hung is incremented.
var Join = func(done chan struct{}) {
	isDone := func() bool {
		select {
		case <-done:
			return true
		default:
			return false
		}
	}
	// fast path (performance only): most handlers return within microseconds
	select {
	case <-done:
		return
	case <-time.After(20 * time.Millisecond):
	}
	if quiet.Settle(isDone, 5) {
		hungMu.Lock()
		Hung++
		hungMu.Unlock()
	}
}

// Hung counts message handlers that never returned (the process went quiet with the handler still blocked).
var Hung int

var hungMu sync.Mutex

// HungCount reads Hung under its lock (for checks that run several client threads at once).
func HungCount() int { hungMu.Lock(); defer hungMu.Unlock(); return Hung }

// BranchRollback asks the client to roll one branch back; ok=false means no response.
func (tc *TC) BranchRollback(xid string, b *Branch) (message.BranchRollbackResponse, bool) {
	req := message.BranchRollbackRequest{AbstractBranchEndRequest: message.AbstractBranchEndRequest{Xid: xid, BranchId: b.ID, BranchType: b.Type, ResourceId: b.ResourceID, ApplicationData: b.AppData}}
	m, ok := tc.Request(req, b.ResourceID)
	if !ok {
		return message.BranchRollbackResponse{}, false
	}
	r, isR := m.Body.(message.BranchRollbackResponse)
	return r, isR
}

func (tc *TC) BranchCommit(xid string, b *Branch) (message.BranchCommitResponse, bool) {
	req := message.BranchCommitRequest{AbstractBranchEndRequest: message.AbstractBranchEndRequest{Xid: xid, BranchId: b.ID, BranchType: b.Type, ResourceId: b.ResourceID, ApplicationData: b.AppData}}
	m, ok := tc.Request(req, b.ResourceID)
	if !ok {
		return message.BranchCommitResponse{}, false
	}
	r, isR := m.Body.(message.BranchCommitResponse)
	return r, isR
}

// DriveRollback rolls every branch of xid back in reverse registration order and
// returns the status each branch answered (-1 = no answer).
func (tc *TC) DriveRollback(xid string) []int {
	g := tc.Global(xid)
	if g == nil {
		return nil
	}
	tc.mu.Lock()
	brs := append([]*Branch(nil), g.Branches...)
	tc.mu.Unlock()
	var out []int
	all := true
	for i := len(brs) - 1; i >= 0; i-- {
		r, ok := tc.BranchRollback(xid, brs[i])
		if !ok {
			out = append(out, -1)
			all = false
			continue
		}
		out = append(out, int(r.BranchStatus))
		tc.mu.Lock()
		brs[i].Status = r.BranchStatus
		tc.mu.Unlock()
		if r.BranchStatus != branch.BranchStatusPhasetwoRollbacked {
			all = false
		}
	}
	tc.mu.Lock()
	if all {
		g.Status = message.GlobalStatusRollbacked
		tc.releaseLocks(g)
	} else {
		g.Status = message.GlobalStatusRollbackRetrying
	}
	tc.mu.Unlock()
	return out
}

// DriveCommit sends BranchCommit to every branch of xid.
func (tc *TC) DriveCommit(xid string) []int {
	g := tc.Global(xid)
	if g == nil {
		return nil
	}
	tc.mu.Lock()
	brs := append([]*Branch(nil), g.Branches...)
	tc.mu.Unlock()
	var out []int
	for _, b := range brs {
		r, ok := tc.BranchCommit(xid, b)
		if !ok {
			out = append(out, -1)
			continue
		}
		out = append(out, int(r.BranchStatus))
		tc.mu.Lock()
		b.Status = r.BranchStatus
		tc.mu.Unlock()
	}
	if SettleAfterCommit {
		// an AT branch commit is only queued: the client deletes the undo log asynchronously. Single-threaded checks wait here
		// until that work is over, so that no background statement lands in the middle of the next case
		quiet.Spin(nil, 2)
	}
	return out
}

// SettleAfterCommit makes DriveCommit wait for the process to go quiet (the asynchronous undo-log deletion) before returning.
// Checks that run several client threads at once switch it off.
var SettleAfterCommit = true
