// Package atrun runs generated programs through the AT proxy inside a global
// transaction on the closed system and collects what the oracles need.
package atrun

import (
	"context"
	"database/sql"
	"fmt"
	"strings"
	"sync"

	"seata.apache.org/seata-go/pkg/datasource/sql/undo"
	"seata.apache.org/seata-go/pkg/tm"

	"verifharness/faketc"
	"verifharness/gen"
	"verifharness/memdb"
	"verifharness/sys"
)

var (
	envMu sync.Mutex
	envs  = map[string]*sys.Env{}
)

// EnvFor returns the (per-process, per-schema-set) closed system holding every generator schema.
func EnvFor(key string, opt sys.Options) *sys.Env {
	envMu.Lock()
	defer envMu.Unlock()
	if e, ok := envs[key]; ok {
		return e
	}
	var ddl []string
	for _, s := range gen.Schemas {
		ddl = append(ddl, s.DDL)
	}
	for _, s := range gen.Extra {
		ddl = append(ddl, s.DDL)
	}
	e, err := sys.NewEnv(ddl, opt)
	if err != nil {
		panic(fmt.Sprintf("cannot build closed system: %v", err))
	}
	envs[key] = e
	return e
}

// DropEnv forgets a cached closed system (after a handler got stuck in it, holding a connection and locks).
func DropEnv(key string) {
	envMu.Lock()
	delete(envs, key)
	envMu.Unlock()
}

// Reset empties every table, reloads the initial rows and clears coordinator state and journals.
func Reset(e *sys.Env, s *gen.Schema, init []int) error {
	e.Srv.Fault = nil
	e.Srv.Restore(memdb.Snapshot{})
	e.TC.ResetState()
	e.TC.AutoRollback = false
	undo.UndoConfig = sys.DefaultUndo
	if q := s.InsertSQL(init); q != "" {
		if _, err := e.Bare.Exec(q); err != nil {
			return fmt.Errorf("initial rows: %w", err)
		}
	}
	e.Srv.ClearJournal()
	return nil
}

type StepResult struct {
	Err      string `json:"err,omitempty"`
	Affected int64  `json:"affected"`
	LastID   int64  `json:"last_id"`
	Panic    string `json:"panic,omitempty"`
}

type Obs struct {
	Pre, Mid, Post memdb.Snapshot
	Steps          []StepResult
	CommitErrs     []string // errors of explicit local commits
	BusinessErr    string
	GtxErr         string
	Xid            string
	Phase2         []int // branch statuses answered in phase two (-1 = no answer), in delivery order
	Branches       []*faketc.Branch
	Events         []faketc.Event
	Journal        []memdb.Entry
	MidJournalLen  int
	StepMarks      []int // journal length before each step; one more entry after the last step / local commit
	Srv            *memdb.Server
}

type execer interface {
	ExecContext(ctx context.Context, q string, args ...interface{}) (sql.Result, error)
}

// RunProgram executes the steps through db (pool or pinned conn) under ctx; stops at the first failing step.
func RunProgram(ctx context.Context, db *sql.DB, p gen.Program, o *Obs) error {
	var pool execer = db
	var conn *sql.Conn
	if p.Pinned {
		c, err := db.Conn(ctx)
		if err != nil {
			return err
		}
		conn = c
		defer conn.Close()
		pool = conn
	}
	var held *sql.Conn // TwoConns: the connection of the first step
	if p.TwoConns {
		c, err := db.Conn(ctx)
		if err != nil {
			return err
		}
		held = c
		defer held.Close()
	}
	var tx *sql.Tx
	var firstErr error
	cur := 0
	endTx := func() error {
		if tx == nil {
			return nil
		}
		err := tx.Commit()
		tx = nil
		cur = 0
		if err != nil {
			o.CommitErrs = append(o.CommitErrs, err.Error())
			return fmt.Errorf("local commit: %w", err)
		}
		return nil
	}
	mark := func() {
		if o.Srv != nil {
			o.StepMarks = append(o.StepMarks, o.Srv.JournalLen())
		}
	}
	defer mark()
	for si, st := range p.Steps {
		if st.Group != cur {
			if err := endTx(); err != nil {
				if !p.ContinueOnError {
					return err
				}
				firstErr = err
			}
			if st.Group > 0 {
				var err error
				if conn != nil {
					tx, err = conn.BeginTx(ctx, nil)
				} else if held != nil && si == 0 {
					tx, err = held.BeginTx(ctx, nil)
				} else {
					tx, err = db.BeginTx(ctx, nil)
				}
				if err != nil {
					mark()
					o.Steps = append(o.Steps, StepResult{Err: "begin: " + err.Error()})
					if !p.ContinueOnError {
						return fmt.Errorf("begin: %w", err)
					}
					if firstErr == nil {
						firstErr = fmt.Errorf("begin: %w", err)
					}
					tx = nil
					continue
				}
				cur = st.Group
			}
		}
		var ex execer = pool
		if held != nil && si == 0 {
			ex = held
		}
		if tx != nil {
			ex = tx
		}
		mark() // the step's journal region starts after the previous local transaction has ended
		sr := StepResult{}
		var res sql.Result
		var err error
		func() {
			defer func() {
				if r := recover(); r != nil {
					sr.Panic = fmt.Sprint(r)
					err = fmt.Errorf("panic: %v", r)
				}
			}()
			res, err = ex.ExecContext(ctx, st.Stmt.SQL, st.Stmt.Args...)
		}()
		if err != nil {
			sr.Err = err.Error()
			o.Steps = append(o.Steps, sr)
			if tx != nil && !(p.ContinueOnError && p.KeepTx) {
				tx.Rollback()
				tx = nil
				cur = 0
			}
			if !p.ContinueOnError {
				return fmt.Errorf("step %s: %w", st.Stmt.Name, err)
			}
			if firstErr == nil {
				firstErr = fmt.Errorf("step %s: %w", st.Stmt.Name, err)
			}
			continue
		}
		sr.Affected, _ = res.RowsAffected()
		sr.LastID, _ = res.LastInsertId()
		o.Steps = append(o.Steps, sr)
	}
	if err := endTx(); err != nil {
		return err
	}
	return firstErr
}

// RunGlobal runs p inside tm.WithGlobalTx; outcome "rollback" makes the business fail after the last
// statement, "commit" lets it succeed. Phase two is driven explicitly afterwards (between, if set, runs first).
func RunGlobal(e *sys.Env, p gen.Program, outcome string, between func()) *Obs {
	o := &Obs{Pre: e.Srv.Snapshot(), Srv: e.Srv}
	var gtxErr error
	func() {
		defer func() {
			if r := recover(); r != nil {
				gtxErr = fmt.Errorf("panic escaped WithGlobalTx: %v", r)
			}
		}()
		gtxErr = tm.WithGlobalTx(context.Background(), &tm.GtxConfig{Name: "verif-" + p.Schema}, func(ctx context.Context) error {
			o.Xid = tm.GetXID(ctx)
			err := RunProgram(ctx, e.AT, p, o)
			if err != nil {
				o.BusinessErr = err.Error()
				return err
			}
			if outcome == "rollback" {
				return fmt.Errorf("business decides to roll back")
			}
			return nil
		})
	}()
	if gtxErr != nil {
		o.GtxErr = gtxErr.Error()
	}
	o.Mid = e.Srv.Snapshot()
	o.MidJournalLen = e.Srv.JournalLen()
	if g := e.TC.Global(o.Xid); g != nil {
		o.Branches = g.Branches
	}
	if between != nil {
		between()
	}
	if o.Xid != "" {
		if outcome == "rollback" || o.BusinessErr != "" {
			o.Phase2 = e.TC.DriveRollback(o.Xid)
		} else {
			o.Phase2 = e.TC.DriveCommit(o.Xid)
		}
	}
	o.Post = e.Srv.Snapshot()
	o.Events = e.TC.Events()
	o.Journal = e.Srv.Journal()
	return o
}

// BusinessTables returns the snapshot without the undo_log table.
func BusinessTables(s memdb.Snapshot) memdb.Snapshot {
	out := memdb.Snapshot{}
	for k, v := range s {
		if k != "undo_log" {
			out[k] = v
		}
	}
	return out
}

func DiffText(a, b memdb.Snapshot) string {
	var sb strings.Builder
	for name := range a {
		x := memdb.Snapshot{name: a[name]}
		y := memdb.Snapshot{name: b[name]}
		if x.String() != y.String() {
			fmt.Fprintf(&sb, "%s != %s; ", x.String(), y.String())
		}
	}
	return sb.String()
}
