// Package wire holds the independent Seata v1 layout table (DESIGN Appendix A),
// a generic reference encoder/decoder interpreting it, and the base-message
// catalogue shared by C12 and C13. Nothing in here calls the repository's
// codecs; message structs are only used as plain data via reflection.
package wire

import (
	"encoding/binary"
	"fmt"
	"reflect"
	"time"

	"seata.apache.org/seata-go/pkg/protocol/branch"
	"seata.apache.org/seata-go/pkg/protocol/message"
)

// Field kinds of the layout table.
const (
	U8    = "u8"    // one byte (any integer-kinded Go field)
	U16B  = "u16b"  // bool as 2 bytes 0|1
	U8B   = "u8b"   // bool as 1 byte 0|1
	I32MS = "i32ms" // time.Duration as milliseconds, 4 bytes
	I64   = "i64"
	S16   = "s16" // string or []byte, 2-byte length
	S32   = "s32" // string or []byte, 4-byte length
	ATR   = "atr" // resultCode:u8 ; msg:s16 only if resultCode==0 ; txErrorCode:u8
	RES   = "res" // resultCode-less identify response has no ATR
)

type Field struct {
	Name string
	Kind string
}

type Layout struct {
	Code   int
	Proto  interface{} // zero value of the Go message type
	Fields []Field
}

var bend = []Field{{"Xid", S16}, {"BranchId", I64}, {"BranchType", U8}, {"ResourceId", S16}, {"ApplicationData", S32}}
var bendr = []Field{{"", ATR}, {"Xid", S16}, {"BranchId", I64}, {"BranchStatus", U8}}
var gend = []Field{{"Xid", S16}, {"ExtraData", S16}}
var gendr = []Field{{"", ATR}, {"GlobalStatus", U8}}
var breg = []Field{{"Xid", S16}, {"BranchType", U8}, {"ResourceId", S16}, {"LockKey", S32}, {"ApplicationData", S32}}
var idreq = []Field{{"Version", S16}, {"ApplicationId", S16}, {"TransactionServiceGroup", S16}, {"ExtraData", S16}}
var idresp = []Field{{"Identified", U8B}, {"Version", S16}}

func cat(a []Field, b ...Field) []Field { return append(append([]Field{}, a...), b...) }

// Table is Appendix A.
var Table = []Layout{
	{1, message.GlobalBeginRequest{}, []Field{{"Timeout", I32MS}, {"TransactionName", S16}}},
	{2, message.GlobalBeginResponse{}, []Field{{"", ATR}, {"Xid", S16}, {"ExtraData", S16}}},
	{3, message.BranchCommitRequest{}, bend},
	{4, message.BranchCommitResponse{}, bendr},
	{5, message.BranchRollbackRequest{}, bend},
	{6, message.BranchRollbackResponse{}, bendr},
	{7, message.GlobalCommitRequest{}, gend},
	{8, message.GlobalCommitResponse{}, gendr},
	{9, message.GlobalRollbackRequest{}, gend},
	{10, message.GlobalRollbackResponse{}, gendr},
	{11, message.BranchRegisterRequest{}, breg},
	{12, message.BranchRegisterResponse{}, []Field{{"", ATR}, {"BranchId", I64}}},
	{13, message.BranchReportRequest{}, []Field{{"Xid", S16}, {"BranchId", I64}, {"Status", U8}, {"ResourceId", S16}, {"ApplicationData", S32}, {"BranchType", U8}}},
	{14, message.BranchReportResponse{}, []Field{{"", ATR}}},
	{15, message.GlobalStatusRequest{}, gend},
	{16, message.GlobalStatusResponse{}, gendr},
	{17, message.GlobalReportRequest{}, cat(gend, Field{"GlobalStatus", U8})},
	{18, message.GlobalReportResponse{}, gendr},
	{21, message.GlobalLockQueryRequest{}, breg},
	{22, message.GlobalLockQueryResponse{}, []Field{{"", ATR}, {"Lockable", U16B}}},
	{101, message.RegisterTMRequest{}, idreq},
	{102, message.RegisterTMResponse{}, idresp},
	{103, message.RegisterRMRequest{}, cat(idreq, Field{"ResourceIds", S32})},
	{104, message.RegisterRMResponse{}, idresp},
}

func LayoutFor(code int) *Layout {
	for i := range Table {
		if Table[i].Code == code {
			return &Table[i]
		}
	}
	return nil
}

const MaxMsg = 32767

// RefEncode produces the v1 payload (without the 2-byte type code) of m, and
// reports whether the failure message had to be truncated.
func RefEncode(l *Layout, m interface{}) (out []byte, truncated bool) {
	v := reflect.ValueOf(m)
	for _, f := range l.Fields {
		switch f.Kind {
		case ATR:
			rc := v.FieldByName("ResultCode").Uint()
			out = append(out, byte(rc))
			if rc == 0 {
				msg := v.FieldByName("Msg").String()
				if len(msg) > MaxMsg {
					msg = msg[:MaxMsg]
					truncated = true
				}
				out = binary.BigEndian.AppendUint16(out, uint16(len(msg)))
				out = append(out, msg...)
			}
			out = append(out, byte(v.FieldByName("TransactionErrorCode").Int()))
		case U8:
			fv := v.FieldByName(f.Name)
			switch fv.Kind() {
			case reflect.Int, reflect.Int8, reflect.Int16, reflect.Int32, reflect.Int64:
				out = append(out, byte(fv.Int()))
			default:
				out = append(out, byte(fv.Uint()))
			}
		case U8B:
			if v.FieldByName(f.Name).Bool() {
				out = append(out, 1)
			} else {
				out = append(out, 0)
			}
		case U16B:
			if v.FieldByName(f.Name).Bool() {
				out = append(out, 0, 1)
			} else {
				out = append(out, 0, 0)
			}
		case I32MS:
			d := time.Duration(v.FieldByName(f.Name).Int())
			out = binary.BigEndian.AppendUint32(out, uint32(int64(d)/int64(time.Millisecond)))
		case I64:
			out = binary.BigEndian.AppendUint64(out, uint64(v.FieldByName(f.Name).Int()))
		case S16, S32:
			fv := v.FieldByName(f.Name)
			var b []byte
			if fv.Kind() == reflect.String {
				b = []byte(fv.String())
			} else {
				b = fv.Bytes()
			}
			if f.Kind == S16 {
				out = binary.BigEndian.AppendUint16(out, uint16(len(b)))
			} else {
				out = binary.BigEndian.AppendUint32(out, uint32(len(b)))
			}
			out = append(out, b...)
		default:
			panic("layout kind " + f.Kind)
		}
	}
	return out, truncated
}

// RefDecode parses a v1 payload into a fresh value of the layout's Go type and
// returns it together with the number of bytes consumed.
func RefDecode(l *Layout, in []byte) (m interface{}, used int, err error) {
	defer func() {
		if r := recover(); r != nil {
			err = fmt.Errorf("short or malformed payload: %v", r)
		}
	}()
	pv := reflect.New(reflect.TypeOf(l.Proto))
	v := pv.Elem()
	p := 0
	u8 := func() byte { b := in[p]; p++; return b }
	str := func(w int) []byte {
		var n int
		if w == 2 {
			n = int(binary.BigEndian.Uint16(in[p:]))
		} else {
			n = int(binary.BigEndian.Uint32(in[p:]))
		}
		p += w
		b := in[p : p+n]
		p += n
		return b
	}
	for _, f := range l.Fields {
		switch f.Kind {
		case ATR:
			rc := u8()
			v.FieldByName("ResultCode").SetUint(uint64(rc))
			if rc == 0 {
				v.FieldByName("Msg").SetString(string(str(2)))
			}
			v.FieldByName("TransactionErrorCode").SetInt(int64(u8()))
		case U8:
			fv := v.FieldByName(f.Name)
			b := u8()
			switch fv.Kind() {
			case reflect.Int8:
				fv.SetInt(int64(int8(b)))
			case reflect.Int, reflect.Int16, reflect.Int32, reflect.Int64:
				fv.SetInt(int64(b))
			default:
				fv.SetUint(uint64(b))
			}
		case U8B:
			v.FieldByName(f.Name).SetBool(u8() == 1)
		case U16B:
			x := binary.BigEndian.Uint16(in[p:])
			p += 2
			v.FieldByName(f.Name).SetBool(x == 1)
		case I32MS:
			x := binary.BigEndian.Uint32(in[p:])
			p += 4
			v.FieldByName(f.Name).SetInt(int64(x) * int64(time.Millisecond))
		case I64:
			x := binary.BigEndian.Uint64(in[p:])
			p += 8
			v.FieldByName(f.Name).SetInt(int64(x))
		case S16, S32:
			w := 2
			if f.Kind == S32 {
				w = 4
			}
			b := str(w)
			fv := v.FieldByName(f.Name)
			if fv.Kind() == reflect.String {
				fv.SetString(string(b))
			} else {
				fv.SetBytes(append([]byte{}, b...))
			}
		}
	}
	return v.Interface(), p, nil
}

// Norm makes two messages comparable with reflect.DeepEqual: nil and empty
// byte slices / maps are the same thing on the wire.
func Norm(m interface{}) interface{} {
	if m == nil {
		return nil
	}
	v := reflect.ValueOf(m)
	c := reflect.New(v.Type()).Elem()
	c.Set(v)
	normValue(c)
	return c.Interface()
}

func normValue(v reflect.Value) {
	switch v.Kind() {
	case reflect.Struct:
		for i := 0; i < v.NumField(); i++ {
			if v.Field(i).CanSet() {
				normValue(v.Field(i))
			}
		}
	case reflect.Slice:
		if v.Type().Elem().Kind() == reflect.Uint8 && v.Len() == 0 && v.CanSet() {
			v.Set(reflect.Zero(v.Type()))
		}
	case reflect.Map:
		if v.Len() == 0 && v.CanSet() {
			v.Set(reflect.Zero(v.Type()))
		}
	case reflect.Interface:
		if !v.IsNil() {
			inner := reflect.New(v.Elem().Type()).Elem()
			inner.Set(v.Elem())
			normValue(inner)
			if v.CanSet() {
				v.Set(inner)
			}
		}
	}
}

// Base returns a representative non-zero message for the layout.
func Base(l *Layout) interface{} {
	pv := reflect.New(reflect.TypeOf(l.Proto))
	v := pv.Elem()
	for _, f := range l.Fields {
		switch f.Kind {
		case ATR:
			v.FieldByName("ResultCode").SetUint(1)
			v.FieldByName("TransactionErrorCode").SetInt(2)
		case U8:
			fv := v.FieldByName(f.Name)
			switch fv.Kind() {
			case reflect.Int, reflect.Int8, reflect.Int16, reflect.Int32, reflect.Int64:
				fv.SetInt(3)
			default:
				fv.SetUint(3)
			}
		case U8B, U16B:
			v.FieldByName(f.Name).SetBool(true)
		case I32MS:
			v.FieldByName(f.Name).SetInt(int64(30 * time.Second))
		case I64:
			v.FieldByName(f.Name).SetInt(0x0102030405060708)
		case S16, S32:
			fv := v.FieldByName(f.Name)
			if fv.Kind() == reflect.String {
				fv.SetString("v-" + f.Name)
			} else {
				fv.SetBytes([]byte("b-" + f.Name))
			}
		}
	}
	return v.Interface()
}

// Set returns a copy of m with the named field set to val (val's kind must fit).
func Set(m interface{}, name string, val interface{}) interface{} {
	v := reflect.ValueOf(m)
	c := reflect.New(v.Type()).Elem()
	c.Set(v)
	fv := c.FieldByName(name)
	x := reflect.ValueOf(val)
	switch fv.Kind() {
	case reflect.String:
		fv.SetString(x.String())
	case reflect.Slice:
		if x.Kind() == reflect.String {
			fv.SetBytes([]byte(x.String()))
		} else {
			fv.SetBytes(x.Bytes())
		}
	case reflect.Bool:
		fv.SetBool(x.Bool())
	case reflect.Int, reflect.Int8, reflect.Int16, reflect.Int32, reflect.Int64:
		fv.SetInt(x.Int())
	default:
		fv.SetUint(uint64(x.Int()))
	}
	return c.Interface()
}

var _ = branch.BranchTypeAT
