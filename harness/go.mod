module verifharness

go 1.20

require (
	github.com/arana-db/parser v0.2.17
	github.com/go-sql-driver/mysql v1.6.0
	seata.apache.org/seata-go v0.0.0
)

require (
	github.com/apache/dubbo-getty v1.5.0 // indirect
	github.com/beorn7/perks v1.0.1 // indirect
	github.com/cespare/xxhash/v2 v2.2.0 // indirect
	github.com/coreos/go-semver v0.3.0 // indirect
	github.com/coreos/go-systemd/v22 v22.3.2 // indirect
	github.com/davecgh/go-spew v1.1.1 // indirect
	github.com/dsnet/compress v0.0.1 // indirect
	github.com/dubbogo/gost v1.13.2 // indirect
	github.com/goccy/go-json v0.10.2 // indirect
	github.com/gogo/protobuf v1.3.2 // indirect
	github.com/golang/protobuf v1.5.3 // indirect
	github.com/golang/snappy v0.0.4 // indirect
	github.com/google/uuid v1.3.0 // indirect
	github.com/gorilla/websocket v1.4.2 // indirect
	github.com/k0kubun/pp v3.0.1+incompatible // indirect
	github.com/klauspost/compress v1.15.11 // indirect
	github.com/mattn/go-colorable v0.1.8 // indirect
	github.com/mattn/go-isatty v0.0.19 // indirect
	github.com/matttproud/golang_protobuf_extensions v1.0.4 // indirect
	github.com/natefinch/lumberjack v2.0.0+incompatible // indirect
	github.com/pierrec/lz4/v4 v4.1.17 // indirect
	github.com/pingcap/errors v0.11.5-0.20210425183316-da1aaba5fb63 // indirect
	github.com/pingcap/log v0.0.0-20210906054005-afc726e70354 // indirect
	github.com/pkg/errors v0.9.1 // indirect
	github.com/prometheus/client_golang v1.12.2 // indirect
	github.com/prometheus/client_model v0.2.0 // indirect
	github.com/prometheus/common v0.32.1 // indirect
	github.com/prometheus/procfs v0.7.3 // indirect
	github.com/shirou/gopsutil/v3 v3.22.2 // indirect
	github.com/tklauser/go-sysconf v0.3.10 // indirect
	github.com/tklauser/numcpus v0.4.0 // indirect
	go.etcd.io/etcd/api/v3 v3.5.6 // indirect
	go.etcd.io/etcd/client/pkg/v3 v3.5.6 // indirect
	go.etcd.io/etcd/client/v3 v3.5.6 // indirect
	go.uber.org/atomic v1.9.0 // indirect
	go.uber.org/multierr v1.10.0 // indirect
	go.uber.org/zap v1.27.0 // indirect
	golang.org/x/net v0.17.0 // indirect
	golang.org/x/sys v0.15.0 // indirect
	golang.org/x/text v0.14.0 // indirect
	google.golang.org/genproto v0.0.0-20230410155749-daa745c078e1 // indirect
	google.golang.org/grpc v1.56.3 // indirect
	google.golang.org/protobuf v1.30.0 // indirect
	gopkg.in/natefinch/lumberjack.v2 v2.0.0 // indirect
	vimagination.zapto.org/byteio v0.0.0-20200222190125-d27cba0f0b10 // indirect
)

replace seata.apache.org/seata-go => /repo
