// Package c05: TCC branches are registered before try and dispatched faithfully in phase two (Mode S, wire on).
package c05

import (
	"context"
	"encoding/json"
	"fmt"
	"os"
	"reflect"
	"strings"
	"time"

	"seata.apache.org/seata-go/pkg/protocol/branch"
	"seata.apache.org/seata-go/pkg/protocol/message"
	"seata.apache.org/seata-go/pkg/rm"
	"seata.apache.org/seata-go/pkg/rm/tcc"
	"seata.apache.org/seata-go/pkg/tm"
	"seata.apache.org/seata-go/pkg/util/vshim/vtime"

	"verifharness/faketc"
	"verifharness/rep"
	"verifharness/sys"
)

// ---- the user's TCC actions ---------------------------------------------------------

type invocation struct {
	Action string
	Method string
	Xid    string
	Branch int64
	Ctx    map[string]interface{}
	AtEv   int // number of coordinator events when the method ran
}

type action struct {
	name   string
	retOK  bool
	retErr error
	log    *[]invocation
	tc     **faketc.TC
}

func (a *action) rec(m string, c *tm.BusinessActionContext, xid string) {
	inv := invocation{Action: a.name, Method: m, Xid: xid}
	if c != nil {
		inv.Xid, inv.Branch, inv.Ctx = c.Xid, c.BranchId, c.ActionContext
	}
	if *a.tc != nil {
		inv.AtEv = len((*a.tc).Events())
	}
	*a.log = append(*a.log, inv)
}
func (a *action) Prepare(ctx context.Context, params interface{}) (bool, error) {
	a.rec("prepare", tm.GetBusinessActionContext(ctx), tm.GetXID(ctx))
	return true, nil
}
func (a *action) Commit(ctx context.Context, c *tm.BusinessActionContext) (bool, error) {
	a.rec("commit", c, "")
	return a.retOK, a.retErr
}
func (a *action) Rollback(ctx context.Context, c *tm.BusinessActionContext) (bool, error) {
	a.rec("rollback", c, "")
	return a.retOK, a.retErr
}
func (a *action) GetActionName() string { return a.name }

// ---- parameter catalogue ------------------------------------------------------------

type inner struct {
	X int    `json:"x"`
	Y string `json:"y"`
}

type pTagged struct {
	A int     `tccParam:"a"`
	B string  `tccParam:"b"`
	C float64 `tccParam:"c"`
	D bool    `tccParam:"d"`
}
type pMixed struct {
	A       int `tccParam:"a"`
	Skip    string
	Dash    string         `tccParam:"-"`
	Empty   string         `tccParam:""`
	private int            `tccParam:"p"`
	N       inner          `tccParam:"n"`
	L       []int          `tccParam:"l"`
	M       map[string]int `tccParam:"m"`
}
type pPtr struct {
	P *int   `tccParam:"p"`
	Q *inner `tccParam:"q"`
	Z *int   `tccParam:"z"`
}
type pCtxPtr struct {
	A   int `tccParam:"a"`
	Ctx *tm.BusinessActionContext
}
type pCtxVal struct {
	A   string `tccParam:"a"`
	Ctx tm.BusinessActionContext
}
type pDupTag struct {
	A int `tccParam:"k"`
	B int `tccParam:"k"`
}
type pUnicode struct {
	S string `tccParam:"clé"`
	T string `tccParam:"t"`
}

type paramCase struct {
	Name   string
	Value  interface{}
	Expect map[string]interface{} // the tagged parameters, as JSON values
}

// Common is embedded by the parameter shapes below.
type Common struct {
	Tenant string
	Shard  int
}

type pEmbTagged struct {
	Common `tccParam:"common"`
	A      int `tccParam:"a"`
}

type pEmbPlain struct {
	Common
	A int `tccParam:"a"`
}

func paramCatalogue() []paramCase {
	seven := 7
	return []paramCase{
		{"nil", nil, map[string]interface{}{}},
		{"int", 42, map[string]interface{}{}},
		{"string", "hello", map[string]interface{}{}},
		{"map", map[string]interface{}{"a": 1}, map[string]interface{}{}},
		{"tagged", pTagged{1, "two", 3.5, true}, map[string]interface{}{"a": 1.0, "b": "two", "c": 3.5, "d": true}},
		{"tagged-ptr", &pTagged{-9, "", 0, false}, map[string]interface{}{"a": -9.0, "b": "", "c": 0.0, "d": false}},
		{"mixed", pMixed{A: 5, Skip: "s", Dash: "d", Empty: "e", private: 3, N: inner{1, "y"}, L: []int{1, 2}, M: map[string]int{"k": 1}},
			map[string]interface{}{"a": 5.0, "n": map[string]interface{}{"x": 1.0, "y": "y"}, "l": []interface{}{1.0, 2.0}, "m": map[string]interface{}{"k": 1.0}}},
		{"pointers", pPtr{P: &seven, Q: &inner{2, "q"}}, map[string]interface{}{"p": 7.0, "q": map[string]interface{}{"x": 2.0, "y": "q"}, "z": nil}},
		{"ctx-ptr-nil", pCtxPtr{A: 1}, map[string]interface{}{"a": 1.0}},
		{"ctx-ptr-set", pCtxPtr{A: 2, Ctx: &tm.BusinessActionContext{ActionContext: map[string]interface{}{"own": "v"}}}, map[string]interface{}{"a": 2.0}},
		{"ctx-val", pCtxVal{A: "x"}, map[string]interface{}{"a": "x"}},
		{"ctx-direct-ptr", &tm.BusinessActionContext{}, map[string]interface{}{}},
		{"ctx-direct-val", tm.BusinessActionContext{}, map[string]interface{}{}},
		{"unicode", pUnicode{"ü\"\\\n", "<>&"}, map[string]interface{}{"clé": "ü\"\\\n", "t": "<>&"}},
		{"big-int", pTagged{A: 1 << 53}, map[string]interface{}{"a": float64(1 << 53), "b": "", "c": 0.0, "d": false}},
		// embedded (anonymous) exported structs: one carrying a tag is a parameter like any other field, one without is not
		{"embedded-tagged", pEmbTagged{Common: Common{Tenant: "t1", Shard: 3}, A: 4}, map[string]interface{}{"common": map[string]interface{}{"Tenant": "t1", "Shard": 3.0}, "a": 4.0}},
		{"embedded-untagged", pEmbPlain{Common: Common{Tenant: "t2"}, A: 5}, map[string]interface{}{"a": 5.0}},
	}
}

type Case struct {
	Param    string `json:"param"`
	Register string `json:"register"` // ok | fail | fail-nocode | transport | drop
	Phase2   string `json:"phase2"`   // sequence name
	Ret      string `json:"ret"`      // user method result: true-nil | false-nil | true-err | false-err
}

type Located struct {
	Idx  int  `json:"idx"`
	Case Case `json:"case"`
}

var phase2Seqs = map[string][]string{
	"second-prepare":    {}, // two more prepares in the same context (another action, then the first one again): judged before phase two
	"commit":            {"commit"},
	"rollback":          {"rollback"},
	"commit-commit":     {"commit", "commit"},
	"rollback-rollback": {"rollback", "rollback"},
	"commit-rollback":   {"commit", "rollback"},
	"other-action":      {"commit@actB"},
	"unknown-resource":  {"commit@nosuch", "rollback@nosuch"},
	"empty-data":        {"commit#empty", "rollback#empty"},
	"malformed-data":    {"commit#malformed", "rollback#malformed", "commit#truncated", "rollback#text"},
	"no-context-key":    {"rollback#nokey"},
}

func Enumerate(thorough bool, yield func(idx int, c Case)) int {
	idx := 0
	rets := []string{"true-nil", "false-nil", "true-err", "false-err"}
	seqNames := []string{"second-prepare", "commit", "rollback", "commit-commit", "rollback-rollback", "commit-rollback", "other-action", "unknown-resource", "empty-data", "malformed-data", "no-context-key"}
	for _, p := range paramCatalogue() {
		for _, reg := range []string{"ok", "fail", "fail-nocode", "transport", "drop"} {
			if reg != "ok" {
				yield(idx, Case{p.Name, reg, "", ""})
				idx++
				continue
			}
			for _, seq := range seqNames {
				for _, ret := range rets {
					if seq == "second-prepare" && ret != "true-nil" {
						continue
					}
					if !thorough && p.Name != "tagged" && p.Name != "mixed" && (ret != "true-nil" || (seq != "commit" && seq != "rollback" && seq != "second-prepare")) {
						continue
					}
					yield(idx, Case{p.Name, reg, seq, ret})
					idx++
				}
			}
		}
	}
	return idx
}

var (
	theTC  *faketc.TC
	invLog []invocation
	actA   = &action{name: "actA", log: &invLog, tc: &theTC}
	actB   = &action{name: "actB", log: &invLog, tc: &theTC}
	proxyA *tcc.TCCServiceProxy
	proxyB *tcc.TCCServiceProxy
	env    *sys.Env
)

func setup() error {
	var err error
	env, err = sys.NewEnv(nil, sys.Options{NoAT: true, NoXA: true, Wire: true})
	if err != nil {
		return err
	}
	theTC = env.TC
	if proxyA, err = tcc.NewTCCServiceProxy(actA); err != nil {
		return err
	}
	if proxyB, err = tcc.NewTCCServiceProxy(actB); err != nil {
		return err
	}
	return nil
}

func jsonEq(a, b interface{}) bool {
	ja, _ := json.Marshal(a)
	jb, _ := json.Marshal(b)
	var va, vb interface{}
	json.Unmarshal(ja, &va)
	json.Unmarshal(jb, &vb)
	return reflect.DeepEqual(va, vb)
}

func evalCase(r *rep.Run, c Case, idx int) {
	var pc paramCase
	for _, p := range paramCatalogue() {
		if p.Name == c.Param {
			pc = p
		}
	}
	tc := env.TC
	tc.ResetState()
	invLog = nil
	drops := 0
	vtime.SetVirtual(func(d time.Duration) bool {
		if d >= 20*time.Second {
			if drops > 0 {
				drops--
				return true
			}
			return false
		}
		return true
	})
	defer vtime.SetPassThrough()
	tc.Script = func(_ *faketc.TC, req message.RpcMessage) faketc.Answer {
		if _, ok := req.Body.(message.BranchRegisterRequest); ok && c.Register != "ok" {
			if c.Register == "drop" {
				drops++
			}
			return faketc.Answer{Kind: c.Register, Msg: "injected"}
		}
		return faketc.Answer{}
	}
	sys.TakeErrors()
	switch c.Ret {
	case "true-nil", "":
		actA.retOK, actA.retErr = true, nil
	case "false-nil":
		actA.retOK, actA.retErr = false, nil
	case "true-err":
		actA.retOK, actA.retErr = true, fmt.Errorf("user commit/rollback failed")
	case "false-err":
		actA.retOK, actA.retErr = false, fmt.Errorf("user commit/rollback failed")
	}
	actB.retOK, actB.retErr = true, nil
	var xid string
	var prepErr error
	var prepPanic interface{}
	hold := make(chan struct{})
	finished := make(chan struct{})
	// the global transaction stays open while phase two is driven by hand (the coordinator decides, not the callback)
	go func() {
		defer close(finished)
		tm.WithGlobalTx(context.Background(), &tm.GtxConfig{Name: "c05"}, func(ctx context.Context) error {
			xid = tm.GetXID(ctx)
			func() {
				defer func() { prepPanic = recover() }()
				_, prepErr = proxyA.Prepare(ctx, pc.Value)
				if c.Phase2 == "second-prepare" && prepErr == nil {
					if _, err := proxyB.Prepare(ctx, pc.Value); err != nil {
						prepErr = fmt.Errorf("second prepare (actB): %w", err)
						return
					}
					if _, err := proxyA.Prepare(ctx, pc.Value); err != nil {
						prepErr = fmt.Errorf("third prepare (actA again): %w", err)
					}
				}
			}()
			hold <- struct{}{}
			<-hold
			return nil
		})
	}()
	<-hold
	fail := func(clause, detail string) {
		r.Violate(fmt.Sprintf("%s/%s/%s/%s/%s", clause, c.Param, c.Register, c.Phase2, c.Ret),
			"one TCC branch (resource = action name, application data = tagged parameters) is registered before try; try does not run if registration fails; phase two invokes the matching action once per request with the same xid, branch id and an equivalent context; committed/rollbacked iff the user method returned no error; an unknown resource runs no user code",
			Located{idx, c}, detail+" | client errors: "+strings.Join(sys.TakeErrors(), " || "))
	}
	defer func() {
		hold <- struct{}{}
		<-finished
	}()
	r.Eval(true)
	if prepPanic != nil {
		fail("prepare-panics", fmt.Sprintf("Prepare panicked: %v", prepPanic))
		return
	}
	// ---- prepare ----
	var regs []faketc.Event
	for _, ev := range tc.Events() {
		if _, ok := ev.Msg.Body.(message.BranchRegisterRequest); ok && ev.Dir == "c2s" {
			regs = append(regs, ev)
		}
	}
	var tries []invocation
	for _, iv := range invLog {
		if iv.Method == "prepare" {
			tries = append(tries, iv)
		}
	}
	if c.Phase2 == "second-prepare" {
		// every prepare registers its own branch, for its own action, before its own try
		if prepErr != nil {
			fail("prepare-error", "a prepare of the sequence failed: "+prepErr.Error())
			return
		}
		wantRes := []string{"actA", "actB", "actA"}
		if len(regs) != 3 || len(tries) != 3 {
			fail("second-prepare-registrations", fmt.Sprintf("three prepares in one context sent %d BranchRegister requests and ran %d tries", len(regs), len(tries)))
			return
		}
		var replies []int64
		var replyAt []int
		for i, ev := range tc.Events() {
			if rr, ok := ev.Msg.Body.(message.BranchRegisterResponse); ok && ev.Dir == "s2c" {
				replies = append(replies, rr.BranchId)
				replyAt = append(replyAt, i)
			}
		}
		for i := 0; i < 3; i++ {
			rq := regs[i].Msg.Body.(message.BranchRegisterRequest)
			if rq.ResourceId != wantRes[i] || tries[i].Action != wantRes[i] {
				fail("second-prepare-resource", fmt.Sprintf("prepare %d: registered resource %q, try ran on %q, expected %q", i+1, rq.ResourceId, tries[i].Action, wantRes[i]))
				return
			}
			if i >= len(replies) || tries[i].Branch != replies[i] || tries[i].AtEv <= replyAt[i] {
				fail("second-prepare-branch", fmt.Sprintf("prepare %d: try saw branch %d at event %d; its registration reply carried %v at %v", i+1, tries[i].Branch, tries[i].AtEv, replies, replyAt))
				return
			}
		}
		return
	}
	if len(regs) != 1 {
		fail("registrations", fmt.Sprintf("%d BranchRegister requests were sent for one prepare", len(regs)))
		return
	}
	req := regs[0].Msg.Body.(message.BranchRegisterRequest)
	if req.BranchType != branch.BranchTypeTCC || req.ResourceId != "actA" || req.Xid != xid {
		fail("registration-fields", fmt.Sprintf("registered type=%v resource=%q xid=%q (expected TCC, actA, %q)", req.BranchType, req.ResourceId, req.Xid, xid))
		return
	}
	var app map[string]interface{}
	if err := json.Unmarshal(req.ApplicationData, &app); err != nil {
		fail("application-data", fmt.Sprintf("application data is not JSON: %q", req.ApplicationData))
		return
	}
	actx, _ := app["actionContext"].(map[string]interface{})
	for k, want := range pc.Expect {
		got, ok := actx[k]
		if !ok || !jsonEq(got, want) {
			fail("application-data", fmt.Sprintf("tagged parameter %q: registered %#v, expected %#v (application data %s)", k, got, want, req.ApplicationData))
			return
		}
	}
	reserved := map[string]bool{"action-start-time": true, "sys::prepare": true, "sys::commit": true, "sys::rollback": true, "actionName": true, "host-name": true}
	for k := range actx {
		if _, ok := pc.Expect[k]; !ok && !reserved[k] {
			fail("application-data", fmt.Sprintf("unexpected key %q in the registered action context %s", k, req.ApplicationData))
			return
		}
	}
	if c.Register != "ok" {
		if len(tries) != 0 {
			fail("try-after-failed-registration", fmt.Sprintf("registration answer %q, yet try ran (%d time(s)); Prepare returned err=%v", c.Register, len(tries), prepErr))
			return
		}
		if prepErr == nil {
			fail("registration-failure-swallowed", "registration failed but Prepare returned no error")
		}
		return
	}
	if prepErr != nil {
		fail("prepare-error", "Prepare failed on the happy path: "+prepErr.Error())
		return
	}
	if len(tries) != 1 {
		fail("try-count", fmt.Sprintf("try ran %d times", len(tries)))
		return
	}
	// try ran after the registration reply
	regReply := -1
	var branchID int64
	for i, ev := range tc.Events() {
		if rr, ok := ev.Msg.Body.(message.BranchRegisterResponse); ok && ev.Dir == "s2c" {
			regReply, branchID = i, rr.BranchId
		}
	}
	if regReply < 0 || tries[0].AtEv <= regReply {
		fail("try-before-registration", fmt.Sprintf("try ran when %d coordinator events had happened; the registration reply is event %d", tries[0].AtEv, regReply))
		return
	}
	if tries[0].Xid != xid || tries[0].Branch != branchID {
		fail("try-context", fmt.Sprintf("try saw xid=%q branch=%d, registered xid=%q branch=%d", tries[0].Xid, tries[0].Branch, xid, branchID))
		return
	}
	// ---- phase two ----
	invLog = nil
	for n, step := range phase2Seqs[c.Phase2] {
		before := len(invLog)
		op, resource, data := step, "actA", req.ApplicationData
		if i := strings.IndexAny(step, "@#"); i >= 0 {
			op = step[:i]
			switch step[i:] {
			case "@actB":
				resource = "actB"
			case "@nosuch":
				resource = "nosuch"
			case "#empty":
				data = nil
			case "#malformed":
				data = []byte("{not json")
			case "#truncated":
				if len(req.ApplicationData) > 2 {
					data = req.ApplicationData[:len(req.ApplicationData)/2]
				} else {
					data = []byte("{")
				}
			case "#text":
				data = []byte("plain text")
			case "#nokey":
				data = []byte(`{"other":1}`)
			}
		}
		end := message.AbstractBranchEndRequest{Xid: xid, BranchId: branchID, BranchType: branch.BranchTypeTCC, ResourceId: resource, ApplicationData: data}
		var body interface{}
		if op == "commit" {
			body = message.BranchCommitRequest{AbstractBranchEndRequest: end}
		} else {
			body = message.BranchRollbackRequest{AbstractBranchEndRequest: end}
		}
		resp, answered := tc.Request(body, "actA")
		calls := invLog[before:]
		status := branch.BranchStatus(-1)
		if answered {
			switch b := resp.Body.(type) {
			case message.BranchCommitResponse:
				status = b.BranchStatus
				if b.Xid != xid || b.BranchId != branchID {
					fail("reply-address", fmt.Sprintf("step %d (%s): reply for xid=%q branch=%d", n, step, b.Xid, b.BranchId))
					return
				}
			case message.BranchRollbackResponse:
				status = b.BranchStatus
				if b.Xid != xid || b.BranchId != branchID {
					fail("reply-address", fmt.Sprintf("step %d (%s): reply for xid=%q branch=%d", n, step, b.Xid, b.BranchId))
					return
				}
			}
		}
		success := status == branch.BranchStatusPhasetwoCommitted || status == branch.BranchStatusPhasetwoRollbacked
		if resource == "nosuch" {
			if len(calls) != 0 {
				fail("unknown-resource-runs-code", fmt.Sprintf("step %d (%s): user code ran: %+v", n, step, calls))
				return
			}
			if success {
				fail("unknown-resource-success", fmt.Sprintf("step %d (%s): status %v reported for an unknown resource", n, step, status))
				return
			}
			continue
		}
		if strings.HasSuffix(step, "#malformed") || strings.HasSuffix(step, "#truncated") || strings.HasSuffix(step, "#text") {
			if success && len(calls) == 0 {
				fail("malformed-data-success", fmt.Sprintf("step %d: success status %v without running the user method", n, status))
				return
			}
			// undecodable application data cannot yield a context equivalent to the registered one: user code must not be run
			// with a made-up one
			if len(calls) > 0 && !jsonEq(calls[0].Ctx, actx) {
				fail("malformed-data-dispatched", fmt.Sprintf("step %d: the application data %q cannot be decoded, yet the user method ran with the context %v (registered: %v) and status %v was reported", n, data, calls[0].Ctx, actx, status))
				return
			}
			continue
		}
		if len(calls) != 1 || calls[0].Action != resource || calls[0].Method != op {
			fail("dispatch", fmt.Sprintf("step %d (%s): expected exactly one %s on %s, got %+v", n, step, op, resource, calls))
			return
		}
		if calls[0].Xid != xid || calls[0].Branch != branchID {
			fail("dispatch-identifiers", fmt.Sprintf("step %d (%s): user method saw xid=%q branch=%d, request had xid=%q branch=%d", n, step, calls[0].Xid, calls[0].Branch, xid, branchID))
			return
		}
		if !strings.Contains(step, "#") {
			if !jsonEq(calls[0].Ctx, actx) {
				fail("dispatch-context", fmt.Sprintf("step %d (%s): action context %v differs from the one captured at prepare %v", n, step, calls[0].Ctx, actx))
				return
			}
		}
		userErr := resource == "actA" && actA.retErr != nil
		if userErr && success {
			fail("failure-reported-as-success", fmt.Sprintf("step %d (%s): the user method returned an error but status %v was reported", n, step, status))
			return
		}
		if !userErr {
			var wantSt branch.BranchStatus = branch.BranchStatusPhasetwoCommitted
			if op == "rollback" {
				wantSt = branch.BranchStatusPhasetwoRollbacked
			}
			if status != wantSt {
				fail("success-not-reported", fmt.Sprintf("step %d (%s): the user method returned (%v, nil) but the reported status is %v (answered=%v)", n, step, actA.retOK, status, answered))
				return
			}
		} else if answered {
			var wantFail branch.BranchStatus = branch.BranchStatusPhasetwoCommitFailedRetryable
			if op == "rollback" {
				wantFail = branch.BranchStatusPhasetwoRollbackFailedRetryable
			}
			if status != wantFail {
				fail("failure-status", fmt.Sprintf("step %d (%s): the user method failed; reported status %v is not the retryable failure of a %s (%v)", n, step, status, op, wantFail))
				return
			}
		}
	}
}

func Run(r *rep.Run) {
	thorough := r.Tier == "thorough"
	r.Rule = "parameter catalogue of 15 shapes (nil, scalars, map, tagged/untagged/'-'/empty-tag/unexported fields, nested struct, slice, map, pointers incl. nil, embedded action context by pointer/value/nil, context passed directly, unicode keys/values, 2^53) x registration answer {ok, failure, failure with error code 0, transport error, no reply} x phase-two sequence {commit, rollback, each twice, commit then rollback, another registered action, unknown resource, empty / malformed / key-less application data} x user result {(true,nil),(false,nil),(true,err),(false,err)}; every message crosses the real frame codec. quick restricts the phase-two x result product to two parameter shapes."
	r.Assume = []string{"faketc is the coordinator; phase-two requests are delivered one at a time (concurrent delivery is C15)", "time is virtual"}
	if err := setup(); err != nil {
		r.Broken = err.Error()
		return
	}
	if replay := os.Getenv("VERIF_REPLAY"); replay != "" {
		b, err := os.ReadFile(replay)
		if err != nil {
			r.Broken = err.Error()
			return
		}
		var f struct {
			Case Located `json:"case"`
		}
		json.Unmarshal(b, &f)
		for i := 0; i < 3; i++ {
			evalCase(r, f.Case.Case, f.Case.Idx)
		}
		return
	}
	Enumerate(thorough, func(idx int, c Case) { evalCase(r, c, idx) })
	rmDirect(r)
}

// rmDirect: the status the TCC resource manager itself hands back for every user result (a failing manager gets no reply
// on the wire, so its status is only visible here): committed / rollbacked iff the user method returned no error, the
// retryable failure of that very operation otherwise.
func rmDirect(r *rep.Run) {
	mgr := rm.GetRmCacheInstance().GetResourceManager(branch.BranchTypeTCC)
	for _, ret := range []string{"true-nil", "false-nil", "true-err", "false-err"} {
		switch ret {
		case "true-nil":
			actA.retOK, actA.retErr = true, nil
		case "false-nil":
			actA.retOK, actA.retErr = false, nil
		case "true-err":
			actA.retOK, actA.retErr = true, fmt.Errorf("user commit/rollback failed")
		case "false-err":
			actA.retOK, actA.retErr = false, fmt.Errorf("user commit/rollback failed")
		}
		for _, op := range []string{"commit", "rollback"} {
			res := rm.BranchResource{BranchType: branch.BranchTypeTCC, Xid: "192.168.0.1:8091:4242", BranchId: 77, ResourceId: "actA", ApplicationData: []byte(`{"actionContext":{"a":1}}`)}
			var st branch.BranchStatus
			var err error
			p := catchPanic(func() {
				if op == "commit" {
					st, err = mgr.BranchCommit(context.Background(), res)
				} else {
					st, err = mgr.BranchRollback(context.Background(), res)
				}
			})
			r.Eval(true)
			r.Count("rm_direct_cases", 1)
			want := map[string]branch.BranchStatus{"commit": branch.BranchStatusPhasetwoCommitted, "rollback": branch.BranchStatusPhasetwoRollbacked}[op]
			if actA.retErr != nil {
				want = map[string]branch.BranchStatus{"commit": branch.BranchStatusPhasetwoCommitFailedRetryable, "rollback": branch.BranchStatusPhasetwoRollbackFailedRetryable}[op]
			}
			if p != "" || st != want || (err != nil) != (actA.retErr != nil) {
				r.Violate(fmt.Sprintf("rm-direct-status/%s/%s", op, ret), "committed/rollbacked iff the user method returned no error (retryable failure otherwise)", Located{Case: Case{Phase2: op, Ret: ret}},
					fmt.Sprintf("%s with user result %s: the resource manager returned (%v, %v) panic=%q, expected status %v", op, ret, st, err, p, want))
			}
		}
	}
	actA.retOK, actA.retErr = true, nil
}

func catchPanic(f func()) (p string) {
	defer func() {
		if r := recover(); r != nil {
			p = fmt.Sprint(r)
		}
	}()
	f()
	return ""
}
