// Package c11: phase-two commit deletes exactly the committed branch's undo log, eventually (Mode D + F).
//
// A fresh real AsyncWorker (run loop + fanout workers) per execution, over two resources on memdb with a stub data source
// manager, under the environment-point scheduler: the worker's own goroutines are adopted at the rewriter-inserted points
// of async_worker.go / fanout.go and at every memdb statement. Environment actions: the clean-up ticker, a temporarily
// unknown resource becoming known. Faults (connection acquisition / statement failure) are a parameter of the scenario.
package c11

import (
	"context"
	"database/sql"
	"database/sql/driver"
	"encoding/json"
	"fmt"
	"os"
	"runtime"
	"seata.apache.org/seata-go/pkg/tm"
	"sort"
	"strings"
	"sync"
	"time"
	"verifharness/faketc"
	"verifharness/gen"

	"github.com/go-sql-driver/mysql"
	"github.com/prometheus/client_golang/prometheus"

	ssql "seata.apache.org/seata-go/pkg/datasource/sql"
	"seata.apache.org/seata-go/pkg/datasource/sql/datasource"
	"seata.apache.org/seata-go/pkg/datasource/sql/types"
	"seata.apache.org/seata-go/pkg/datasource/sql/undo"
	undomysql "seata.apache.org/seata-go/pkg/datasource/sql/undo/mysql"
	"seata.apache.org/seata-go/pkg/protocol/branch"
	"seata.apache.org/seata-go/pkg/rm"
	"seata.apache.org/seata-go/pkg/util/vshim/vpoint"
	"seata.apache.org/seata-go/pkg/util/vshim/vtime"

	"verifharness/memdb"
	"verifharness/quiet"
	"verifharness/rep"
	"verifharness/sys"
	"verifharness/vsched"
)

type Req struct {
	Res    string `json:"res"`
	Xid    string `json:"xid"`
	Branch int64  `json:"branch"`
}

type Scenario struct {
	Name        string `json:"name"`
	Reqs        []Req  `json:"reqs"`
	Callers     int    `json:"callers"` // requests are dealt round-robin to this many concurrent callers
	BufferLimit int    `json:"buffer_limit"`
	ChanSize    int    `json:"chan_size"`
	Workers     int    `json:"workers"`
	WorkerBuf   int    `json:"worker_buf"`
	Fault       string `json:"fault"`    // "" | connect | exec
	FaultAt     int    `json:"fault_at"` // which occurrence (0-based) of that operation kind fails, once
	UnknownRes  bool   `json:"unknown_res"`
	// Poison: before its own requests the first caller hands in a commit for a resource whose cache entry makes the commit
	// worker's task panic (a batch of its own: buffer limit 2); the later requests must still be served
	Poison bool `json:"poison,omitempty"`
	Ticks       int    `json:"ticks"`
	Bound       int    `json:"bound"`
}

var rows = []Req{ // the undo_log rows present at the start, per resource: branch ids shared across xids and vice versa
	{"resA", "x1", 1}, {"resA", "x1", 2}, {"resA", "x2", 1}, {"resA", "x2", 2},
	{"resB", "x1", 1}, {"resB", "x1", 3}, {"resB", "x3", 1},
}

func scenarios(thorough bool) []Scenario {
	base := Scenario{Callers: 1, BufferLimit: 3, ChanSize: 4, Workers: 1, WorkerBuf: 2, Ticks: 4, Bound: 0}
	streams := map[string][]Req{
		"one":          {{"resA", "x1", 1}},
		"shared-ids":   {{"resA", "x1", 1}, {"resA", "x2", 2}},
		"two-res":      {{"resA", "x1", 1}, {"resB", "x1", 1}, {"resA", "x2", 2}},
		"four":         {{"resA", "x1", 1}, {"resA", "x1", 2}, {"resB", "x3", 1}, {"resA", "x2", 1}},
		"same-branch3": {{"resB", "x1", 3}, {"resB", "x1", 1}, {"resA", "x2", 2}},
	}
	var names []string
	for n := range streams {
		names = append(names, n)
	}
	sort.Strings(names)
	var out []Scenario
	for _, n := range names {
		s := base
		s.Name, s.Reqs = n, streams[n]
		out = append(out, s)
		if len(streams[n]) >= 2 {
			c := s
			c.Name, c.Callers = n+"/2callers", 2
			out = append(out, c)
			p := s
			p.Name, p.ChanSize, p.WorkerBuf, p.BufferLimit = n+"/pressure", 1, 1, 2
			out = append(out, p)
			w := s
			w.Name, w.Workers = n+"/2workers", 2
			out = append(out, w)
		}
		for _, f := range []string{"connect", "exec", "exec-badconn"} {
			for at := 0; at < 2; at++ {
				if at >= len(streams[n]) {
					continue
				}
				x := s
				x.Name, x.Fault, x.FaultAt, x.Ticks = fmt.Sprintf("%s/%s-fails@%d", n, f, at), f, at, 6
				out = append(out, x)
			}
		}
		u := s
		u.Name, u.UnknownRes, u.Ticks = n+"/unknown-resource", true, 6
		out = append(out, u)
	}
	for _, n := range names {
		if len(streams[n]) < 2 {
			continue
		}
		x := base
		x.Name, x.Reqs, x.BufferLimit, x.Poison, x.Ticks = n+"/poisoned-batch", streams[n], 2, true, 6
		out = append(out, x)
	}
	// a whole group is put back (connection acquisition fails) while the receive queue is full and callers are waiting to send
	for _, n := range names {
		if len(streams[n]) < 3 && !thorough || len(streams[n]) < 2 {
			continue
		}
		x := base
		x.Name, x.Reqs, x.Callers, x.ChanSize, x.WorkerBuf, x.BufferLimit, x.Fault, x.FaultAt, x.Ticks = n+"/pressure+connect-fails", streams[n], 2, 1, 1, 3, "connect", 0, 6
		out = append(out, x)
		y := x
		y.Name, y.Fault, y.UnknownRes = n+"/pressure+unknown-resource", "", true
		out = append(out, y)
	}
	if !thorough {
		for i := range out {
			if strings.HasPrefix(out[i].Name, "shared-ids") || strings.HasPrefix(out[i].Name, "one") || strings.Contains(out[i].Name, "/pressure+") {
				out[i].Bound = 1
			}
		}
	}
	if thorough {
		for i := range out {
			out[i].Bound = 1
			if strings.HasPrefix(out[i].Name, "one") {
				out[i].Bound = 2
			}
		}
		for _, n := range names {
			if len(streams[n]) < 2 {
				continue
			}
			x := base
			x.Name, x.Reqs, x.Callers, x.ChanSize, x.WorkerBuf, x.BufferLimit, x.Fault, x.FaultAt, x.Ticks, x.Bound = n+"/pressure+exec-fails", streams[n], 2, 1, 1, 2, "exec", 0, 6, 2
			out = append(out, x)
		}
	}
	return out
}

// ---- stub data source manager ---------------------------------------------------------

type stubMgr struct {
	datasource.DataSourceManager
	res *sync.Map
}

func (m *stubMgr) GetCachedResources() *sync.Map    { return m.res }
func (m *stubMgr) GetBranchType() branch.BranchType { return branch.BranchTypeAT }

type world struct {
	srv map[string]*memdb.Server
	db  map[string]*sql.DB
}

var w *world
var setupOnce sync.Once

func setup() {
	setupOnce.Do(func() {
		sys.QuietInit()
		undomysql.InitUndoLogManager()
		undo.UndoConfig = sys.DefaultUndo
		w = &world{srv: map[string]*memdb.Server{}, db: map[string]*sql.DB{}}
		for i, name := range []string{"resA", "resB"} {
			srv := memdb.NewServer(fmt.Sprintf("10.9.0.%d:3306", i+1), "seata_client")
			srv.SequentialWaits = false
			memdb.Register(srv)
			db, err := sql.Open(sys.BareDriver, memdb.DSN(srv, memdb.DefaultParams))
			if err != nil {
				panic(err)
			}
			for _, stmt := range sys.SplitDDL(sys.UndoLogDDL()) {
				if _, err := db.Exec(stmt); err != nil {
					panic(err)
				}
			}
			db.SetMaxIdleConns(0) // every acquisition really connects, so a failing connection attempt can be injected
			w.srv[name], w.db[name] = srv, db
		}
	})
}

func reset() {
	for name, srv := range w.srv {
		srv.Fault, srv.Sched = nil, nil
		srv.Crash() // drop connections left over from the previous execution
		srv.Restore(memdb.Snapshot{})
		for _, r := range rows {
			if r.Res == name {
				if _, err := w.db[name].Exec("INSERT INTO undo_log (branch_id, xid, context, rollback_info, log_status, log_created, log_modified) VALUES (?, ?, 'c', 'r', 0, NOW(), NOW())", r.Branch, r.Xid); err != nil {
					panic(err)
				}
			}
		}
		srv.ClearJournal()
	}
}

func remaining() map[Req]bool {
	out := map[Req]bool{}
	for name, db := range w.db {
		rs, err := db.Query("SELECT xid, branch_id FROM undo_log")
		if err != nil {
			panic(err)
		}
		for rs.Next() {
			var x string
			var b int64
			rs.Scan(&x, &b)
			out[Req{name, x, b}] = true
		}
		rs.Close()
	}
	return out
}

type execResult struct {
	res      vsched.Result
	statuses []branch.BranchStatus
	errs     []error
	returned []bool
	left     map[Req]bool
	stuck    []string
	log      []string
	panics   int
	hit      bool
}

func runOne(sc Scenario, prefix []int) execResult {
	reset()
	vtime.SetVirtual(func(d time.Duration) bool { return false })
	s := vsched.New()
	s.Adopt = true
	s.Horizon = 600
	resMap := &sync.Map{}
	mk := func(name string) {
		resMap.Store(name, ssql.VerifNewDBResource(name, w.db[name], types.DBTypeMySQL))
	}
	mk("resB")
	if !sc.UnknownRes {
		mk("resA")
	}
	if sc.Poison {
		resMap.Store("resP", "not a *DBResource") // the worker's type assertion on this entry panics
	}
	x := execResult{statuses: make([]branch.BranchStatus, len(sc.Reqs)), errs: make([]error, len(sc.Reqs)), returned: make([]bool, len(sc.Reqs))}
	var mu sync.Mutex
	counts := map[string]int{}
	fault := func(o memdb.Op) error {
		kind := ""
		switch {
		case o.Kind == "connect":
			kind = "connect"
		case o.Kind == "exec" || o.Kind == "prepare":
			if strings.Contains(strings.ToUpper(o.SQL), "DELETE") {
				kind = "exec"
			}
		}
		if kind == "" || kind != strings.TrimSuffix(sc.Fault, "-badconn") {
			return nil
		}
		mu.Lock()
		defer mu.Unlock()
		n := counts[kind]
		counts[kind]++
		if n == sc.FaultAt {
			x.hit = true
			if strings.HasSuffix(sc.Fault, "-badconn") {
				return driver.ErrBadConn // the connection is lost in the middle of a group
			}
			return &mysql.MySQLError{Number: 1040, Message: "Too many connections / statement failed (injected, transient)"}
		}
		return nil
	}
	for _, srv := range w.srv {
		srv.Fault = fault
		srv.Sched = s
	}
	// fairness: the ticker keeps ticking after the last disturbance - at most 2 ticks while the resource is unknown, then the
	// full budget once it is known
	early, ticks, known := 0, 0, !sc.UnknownRes
	s.Env = func() []vsched.EnvAction {
		var out []vsched.EnvAction
		if known && ticks < sc.Ticks {
			out = append(out, vsched.EnvAction{Desc: "tick", Fire: func() { ticks++; vtime.Tick(0) }})
		}
		if !known && early < 2 {
			out = append(out, vsched.EnvAction{Desc: "tick(resource unknown)", Fire: func() { early++; vtime.Tick(0) }})
		}
		if !known {
			out = append(out, vsched.EnvAction{Desc: "resource-becomes-known", Fire: func() { known = true; mk("resA") }})
		}
		return out
	}
	vpoint.SetHook(s.Point)
	conf := ssql.AsyncWorkerConfig{BufferLimit: sc.BufferLimit, BufferCleanInterval: time.Second, ReceiveChanSize: sc.ChanSize,
		CommitWorkerCount: sc.Workers, CommitWorkerBufferSize: sc.WorkerBuf}
	aw := ssql.NewAsyncWorker(prometheus.NewRegistry(), conf, &stubMgr{res: resMap})
	quiet.Spin(nil, 2) // the worker's goroutines reach their first points: those are their idle waits
	s.Canonicalize()
	idle := map[string]bool{}
	for _, d := range s.Parked() {
		idle[d] = true
	}
	for c := 0; c < sc.Callers; c++ {
		c := c
		s.Go(fmt.Sprintf("caller-%d", c), func() {
			if sc.Poison && c == 0 {
				aw.BranchCommit(context.Background(), rm.BranchResource{ResourceId: "resP", Xid: "xp", BranchId: 1})
			}
			for i := c; i < len(sc.Reqs); i += sc.Callers {
				q := sc.Reqs[i]
				st, err := aw.BranchCommit(context.Background(), rm.BranchResource{ResourceId: q.Res, Xid: q.Xid, BranchId: q.Branch})
				mu.Lock()
				x.statuses[i], x.errs[i], x.returned[i] = st, err, true
				mu.Unlock()
			}
		})
	}
	x.res = s.Run(prefix)
	for _, srv := range w.srv {
		srv.Sched, srv.Fault = nil, nil
	}
	for _, u := range s.Unfinished() {
		// the worker's own loops never finish: only a thread that is neither parked at a point nor done is stuck
		if strings.Contains(u, "caller-") {
			x.stuck = append(x.stuck, u)
		}
	}
	x.log = s.Log
	for _, b := range s.Blocked() {
		// a worker goroutine waiting in its idle select is fine; one blocked anywhere else when nothing is enabled is stuck
		at := b[strings.Index(b, "@")+1:]
		if !strings.Contains(b, "caller-") && !idle[at] {
			x.stuck = append(x.stuck, b)
		}
	}
	s.Abort()
	// end the worker's goroutines (they would pile up over thousands of executions): a tick wakes the run loop, which exits
	// at its next point; closing the fanout ends the commit workers
	for _, srv := range w.srv {
		srv.Crash()
	}
	vtime.Tick(0)
	quiet.Spin(nil, 2)
	go ssql.VerifStopAsyncWorker(aw)
	quiet.Spin(nil, 2)
	vpoint.SetHook(nil)
	x.left = remaining()
	return x
}

type Located struct {
	Scenario Scenario `json:"scenario"`
	Choices  []int    `json:"choices"`
	Trace    []string `json:"trace"`
}

const clauseText = "every accepted branch-commit request is answered committed and leads to deletion of the undo-log rows of exactly that (xid, branch id) once the database is reachable; none is lost under batching, queue pressure, transient failures or a temporarily unknown resource; no other branch's undo log is deleted"

func check(sc Scenario, x execResult) (clause, detail string) {
	d := func(f string, a ...interface{}) string { return fmt.Sprintf(f, a...) }
	if x.res.Diverged != "" || x.res.Horizon {
		return "", ""
	}
	requested := map[Req]bool{}
	for i, q := range sc.Reqs {
		if !x.returned[i] {
			return "request-never-accepted", d("BranchCommit(%+v) never returned; blocked threads: %v", q, x.stuck)
		}
		if x.errs[i] != nil || x.statuses[i] != branch.BranchStatusPhasetwoCommitted {
			return "not-answered-committed", d("BranchCommit(%+v) = (%v, %v)", q, x.statuses[i], x.errs[i])
		}
		requested[q] = true
	}
	for _, r := range rows {
		if !requested[r] && !x.left[r] {
			return "foreign-undo-log-deleted", d("the undo log of %+v was deleted although no commit for it was requested (requests %+v)", r, sc.Reqs)
		}
	}
	if len(x.stuck) > 0 {
		return "worker-blocked", d("the worker is blocked for good: %v; undo logs left: %v", x.stuck, leftOf(requested, x.left))
	}
	if l := leftOf(requested, x.left); len(l) > 0 {
		return "undo-log-never-deleted", d("after every tick was delivered and the worker went idle, the undo logs of accepted commits %v are still there", l)
	}
	return "", ""
}

func leftOf(requested, left map[Req]bool) []Req {
	var out []Req
	for q := range requested {
		if left[q] {
			out = append(out, q)
		}
	}
	sort.Slice(out, func(i, j int) bool { return fmt.Sprint(out[i]) < fmt.Sprint(out[j]) })
	return out
}

func sigOf(sc Scenario, clause string) string {
	parts := strings.SplitN(sc.Name, "/", 2)
	variant := "plain"
	if len(parts) == 2 {
		variant = parts[1]
	}
	variant = strings.Split(variant, "@")[0]
	return clause + "/" + variant
}

var deadline time.Time // per worker process: exploration stops there and the run is reported as not exhaustive

func explore(r *rep.Run, sc Scenario) {
	maxExec := 1500
	if r.Tier == "thorough" {
		maxExec = 5000
	}
	ex := &vsched.Explorer{Bound: sc.Bound, MaxExec: maxExec, Deadline: deadline}
	ex.RunOne = func(prefix []int) vsched.Result {
		x := runOne(sc, prefix)
		r.Eval(sc.Fault == "" || x.hit)
		r.Count("schedule_points", int64(len(x.res.Points)))
		if x.res.Diverged != "" {
			r.Count("diverged", 1)
		}
		if x.res.Horizon {
			r.Count("horizon_hit", 1)
		}
		if clause, detail := check(sc, x); clause != "" {
			r.Violate(sigOf(sc, clause), clauseText, Located{sc, x.res.Choices, x.log}, detail+" | scenario "+sc.Name+" | schedule: "+strings.Join(x.log, " ; "))
		}
		return x.res
	}
	ex.Check = func(vsched.Result) {}
	ex.Explore(nil)
	r.Count("executions", int64(ex.Executions))
	r.Count("scenarios", 1)
	if ex.Capped {
		r.Exhaustive = false
		r.Count("capped_scenarios", 1)
	}
}

// throughResourceManager: the same obligation one layer up, on the closed system (no scheduling choices): a branch commit
// delivered by the coordinator through the AT resource manager - also while the resource is temporarily not in the manager's
// cache, or after the connection pool was dropped - is answered committed and its undo log is gone after a few clean-up
// intervals, while another branch's undo log stays.
func throughResourceManager(r *rep.Run) {
	for _, variant := range []string{"plain", "resource-unknown-at-delivery", "connections-dropped-before-flush"} {
		e, err := sys.NewEnv([]string{gen.S1.DDL}, sys.Options{NoXA: true})
		if err != nil {
			r.Broken = err.Error()
			return
		}
		vtime.SetVirtual(func(d time.Duration) bool { return d < 20*time.Second })
		e.Bare.Exec(gen.S1.InsertSQL([]int{0, 1, 2}))
		saved := faketc.SettleAfterCommit
		faketc.SettleAfterCommit = false
		run := func(id int) string {
			var xid string
			tm.WithGlobalTx(context.Background(), &tm.GtxConfig{Name: "c11-rm"}, func(ctx context.Context) error {
				xid = tm.GetXID(ctx)
				_, err := e.AT.ExecContext(ctx, "UPDATE t_s1 SET cnt = cnt + 1 WHERE id = ?", id)
				return err
			})
			return xid
		}
		committed, other := run(1), ""
		// a second global transaction whose branch stays undecided: its undo log must survive
		hold := make(chan struct{})
		done := make(chan struct{})
		go func() {
			defer close(done)
			tm.WithGlobalTx(context.Background(), &tm.GtxConfig{Name: "c11-rm-other"}, func(ctx context.Context) error {
				other = tm.GetXID(ctx)
				e.AT.ExecContext(ctx, "UPDATE t_s1 SET cnt = cnt + 1 WHERE id = 2")
				hold <- struct{}{}
				<-hold
				return nil
			})
		}()
		<-hold
		mgr := datasource.GetDataSourceManager(branch.BranchTypeAT)
		var cached interface{}
		if variant == "resource-unknown-at-delivery" {
			cached, _ = mgr.GetCachedResources().Load(e.ResourceID)
			mgr.GetCachedResources().Delete(e.ResourceID)
		}
		statuses := e.TC.DriveCommit(committed)
		if cached != nil {
			mgr.GetCachedResources().Store(e.ResourceID, cached)
		}
		if variant == "connections-dropped-before-flush" {
			e.Srv.Crash()
		}
		left := func() (mine, others int) {
			rows, err := e.Bare.Query("SELECT xid FROM undo_log")
			if err != nil {
				return -1, -1
			}
			defer rows.Close()
			for rows.Next() {
				var x string
				rows.Scan(&x)
				if x == committed {
					mine++
				} else {
					others++
				}
			}
			return
		}
		for i := 0; i < 8; i++ {
			vtime.Tick(0)
			quiet.Settle(nil, 5)
			if m, _ := left(); m == 0 {
				break
			}
		}
		mine, others := left()
		r.Eval(true)
		r.Count("through_resource_manager_cases", 1)
		loc := Located{Scenario: Scenario{Name: "through-resource-manager/" + variant}}
		for _, st := range statuses {
			if st != int(branch.BranchStatusPhasetwoCommitted) {
				r.Violate("not-answered-committed/rm-"+variant, clauseText, loc, fmt.Sprintf("the branch commit was answered %v", statuses))
			}
		}
		if mine != 0 {
			r.Violate("undo-log-never-deleted/rm-"+variant, clauseText, loc, fmt.Sprintf("%d undo-log row(s) of the committed branch %s are still there after 8 clean-up intervals (answers %v)", mine, committed, statuses))
		}
		if others != 1 {
			r.Violate("other-undo-log-touched/rm-"+variant, clauseText, loc, fmt.Sprintf("the undecided transaction %s has %d undo-log row(s), expected 1", other, others))
		}
		hold <- struct{}{}
		<-done
		faketc.SettleAfterCommit = saved
		vtime.SetPassThrough()
	}
}

func Run(r *rep.Run) {
	thorough := r.Tier == "thorough"
	r.Rule = "request streams of 1-4 branch commits over two resources with branch ids shared across xids and xids shared across branches (7 undo-log rows present, 3 never requested) x {1 or 2 concurrent callers, queue pressure (receive channel 1, worker buffer 1, buffer limit 2), 1 or 2 commit workers} x {no fault, the k-th connection acquisition fails once, the k-th DELETE fails once, the resource is unknown until an environment event registers it}; a fresh real AsyncWorker per execution, its run loop and fanout workers adopted by the scheduler; every schedule with at most `bound` deviations (quick: 0, and 1 for the one- and two-request streams; thorough: 1, and 2 for the one-request stream), each worker process stops exploring after 4 / 15 minutes (reported as not exhaustive, never as a violation), capped at 1500 / 5000 executions per scenario (a capped scenario makes the run non-exhaustive) over the rewriter-inserted points of async_worker.go and fanout.go, every memdb statement, the ticker and the registration event; after the callers return, ticks are delivered until the budget (4-6) is used up and the worker is idle. Non-trivial = fault-free scenario, or the fault fired."
	r.Assume = []string{"streams over two resources are not schedule-deterministic (the worker iterates a Go map of resource groups): their replays may diverge; diverged replays are counted and judged as executions of their own", "faults are transient (each fires once)", "time is virtual: the clean-up ticker ticks only when the scheduler chooses it", "memdb executes the DELETE the worker sends"}
	if os.Getenv("VERIF_C11_RM") != "" {
		// (a process of its own: the scheduler part registers its own driver and resource managers)
		if _, _, worker := rep.Shard(); worker {
			throughResourceManager(r)
		}
		return
	}
	setup()
	if replay := os.Getenv("VERIF_REPLAY"); replay != "" {
		b, err := os.ReadFile(replay)
		if err != nil {
			r.Broken = err.Error()
			return
		}
		var f struct {
			Case Located `json:"case"`
		}
		json.Unmarshal(b, &f)
		for i := 0; i < 3; i++ {
			x := runOne(f.Case.Scenario, f.Case.Choices)
			r.Eval(true)
			fmt.Printf("replay %d: returned=%v left=%v stuck=%v\n  %s\n", i, x.returned, x.left, x.stuck, strings.Join(x.log, "\n  "))
			if clause, detail := check(f.Case.Scenario, x); clause != "" {
				r.Violate(sigOf(f.Case.Scenario, clause), clauseText, Located{f.Case.Scenario, x.res.Choices, x.log}, detail)
			}
		}
		return
	}
	shard, nshards, worker := rep.Shard()
	if !worker {
		os.Setenv("VERIF_C11_RM", "1")
		rep.RunSharded(r, 1, 10*time.Minute)
		os.Unsetenv("VERIF_C11_RM")
		rep.RunSharded(r, 16, 60*time.Minute)
		return
	}
	runtime.GOMAXPROCS(1)
	deadline = time.Now().Add(4 * time.Minute)
	if thorough {
		deadline = time.Now().Add(15 * time.Minute)
	}
	for i, sc := range scenarios(thorough) {
		if i%nshards != shard {
			continue
		}
		single := true // the repository iterates a Go map of resource groups: only single-resource streams are deterministic
		for _, q := range sc.Reqs {
			if q.Res != sc.Reqs[0].Res {
				single = false
			}
		}
		if single {
			a, b := runOne(sc, nil), runOne(sc, nil)
			ja, _ := json.Marshal(a.res.Points)
			jb, _ := json.Marshal(b.res.Points)
			if string(ja) != string(jb) {
				r.Broken = fmt.Sprintf("scenario %s is not deterministic under the scheduler:\n%s\n%s", sc.Name, ja, jb)
				return
			}
		}
		explore(r, sc)
	}
}
