// Package c19: only live sessions are chosen; reconnection restores both directions (Mode B + S).
//
// B: breadth-first enumeration of every history of session events (a new connection to one of three addresses, a
// connection dying silently, getty reporting the close) interleaved with selections, up to a depth bound, for each of the
// five policies, against the real session registry and load balancers (sessionManager.selectSession through a hook). After
// every selection the chosen session is compared with the set of registered, open sessions.
// S: connection loss and re-establishment at each point of a small AT workload on the closed system; the coordinator-side
// view (which session announced which role/resource) is compared with what the client had registered.
package c19

import (
	"context"
	"encoding/json"
	"fmt"
	"os"
	"runtime"
	"strings"
	"sync"
	"time"

	getty "github.com/apache/dubbo-getty"

	"seata.apache.org/seata-go/pkg/protocol/codec"
	"seata.apache.org/seata-go/pkg/protocol/message"
	"seata.apache.org/seata-go/pkg/remoting/config"
	sgetty "seata.apache.org/seata-go/pkg/remoting/getty"
	"seata.apache.org/seata-go/pkg/remoting/loadbalance"
	"seata.apache.org/seata-go/pkg/remoting/rpc"
	"seata.apache.org/seata-go/pkg/tm"
	"seata.apache.org/seata-go/pkg/util/vshim/vtime"

	"verifharness/faketc"
	"verifharness/gen"
	"verifharness/quiet"
	"verifharness/rep"
	"verifharness/sys"
)

var addrs = []string{"10.0.0.5:8091", "10.0.0.6:8091", "10.0.0.5:809"}
var policies = []string{"XID", "RandomLoadBalance", "RoundRobinLoadBalance", "ConsistentHashLoadBalance", "LeastActiveLoadBalance"}

type sess struct {
	getty.Session
	id     int
	addr   string
	mu     sync.Mutex
	closed bool
}

func (s *sess) IsClosed() bool                         { s.mu.Lock(); defer s.mu.Unlock(); return s.closed }
func (s *sess) Close()                                 { s.mu.Lock(); s.closed = true; s.mu.Unlock() }
func (s *sess) RemoteAddr() string                     { return s.addr }
func (s *sess) LocalAddr() string                      { return "127.0.0.1:40000" }
func (s *sess) Stat() string                           { return fmt.Sprintf("c19-%d(%s)", s.id, s.addr) }
func (s *sess) SetAttribute(k, v interface{})          {}
func (s *sess) GetAttribute(k interface{}) interface{} { return nil }
func (s *sess) RemoveAttribute(k interface{})          {}
func (s *sess) WritePkg(pkg interface{}, _ time.Duration) (int, int, error) {
	return 1, 1, nil
}

// events: o<a> open a connection to address a; d<i> session i dies silently (closed, still registered);
// r<i> getty reports session i closed (OnClose); s<x> select for xid variant x
type History []string

var xids = []string{"10.0.0.5:8091:7001", "10.0.0.6:8091:7002", "10.0.0.5:809:7003", "10.0.0.9:8091:7004", "plain-name"}

type Located struct {
	Policy  string  `json:"policy"`
	History History `json:"history"`
}

func body(x string) interface{} {
	return message.GlobalCommitRequest{AbstractGlobalEndRequest: message.AbstractGlobalEndRequest{Xid: x}}
}

// poisoned: policies under which a selection was left blocked for good. Every such selection leaves goroutines behind that
// make the quiescence probe slower and slower, so the remaining histories of that policy are not run (the violation is
// already recorded; the run is reported as not exhaustive).
var poisoned = map[string]bool{}

func run(policy string, h History) (clause, detail string) {
	if poisoned[policy] {
		return "", ""
	}
	clause, detail = run1(policy, h)
	if clause == "selection-blocks" {
		poisoned[policy] = true
	}
	return clause, detail
}

// run1 replays a history on a fresh registry and returns the first violated clause.
func run1(policy string, h History) (clause, detail string) {
	if policy == "ConsistentHashLoadBalance" {
		quiet.Spin(nil, 2) // the ring is refreshed on a goroutine of its own: let the previous history's refresh finish
		defer quiet.Spin(nil, 2)
	}
	sgetty.VerifResetRemoting()
	loadbalance.VerifReset()
	config.GetSeataConfig().LoadBalanceType = policy
	// a selection that falls into the check-alive polling loop runs through it at once instead of sleeping
	vtime.SetVirtual(nil)
	vtime.AutoTick = true
	defer func() { vtime.AutoTick = false; vtime.SetPassThrough() }()
	for _, a := range addrs {
		rpc.RemoveStatus(a) // the per-address in-flight counters the least-active policy reads
	}
	var all []*sess
	registered := map[int]bool{}
	for step, ev := range h {
		switch ev[0] {
		case 'o':
			s := &sess{id: len(all), addr: addrs[ev[1]-'0']}
			all = append(all, s)
			sgetty.VerifRegisterSession(s)
			registered[s.id] = true
		case 'd':
			i := int(ev[1] - '0')
			if i >= len(all) {
				return "", ""
			}
			all[i].Close()
		case 'r':
			i := int(ev[1] - '0')
			if i >= len(all) {
				return "", ""
			}
			all[i].Close()
			sgetty.VerifReleaseSession(all[i])
			registered[i] = false
		case 'x': // getty reports a broken connection as an error followed by the close: the session is released twice
			i := int(ev[1] - '0')
			if i >= len(all) {
				return "", ""
			}
			all[i].Close()
			sgetty.VerifReleaseSession(all[i])
			sgetty.VerifReleaseSession(all[i])
			registered[i] = false
		case 'b': // a request is put in flight on address a (the counter a sender increments around its write)
			rpc.BeginCount(addrs[ev[1]-'0'])
		case 's':
			x := xids[ev[1]-'0']
			var open []*sess
			for _, s := range all {
				if registered[s.id] && !s.IsClosed() {
					open = append(open, s)
				}
			}
			msg := message.RpcMessage{ID: 1, Type: message.GettyRequestTypeRequestSync, Codec: byte(codec.CodecTypeSeata), Body: body(x)}
			got, p, blocked := selectWatched(msg)
			if blocked {
				return "selection-blocks", fmt.Sprintf("step %d: selecting a session for xid %q with %d open session(s) never returned: every goroutine of the process is blocked", step, x, len(open))
			}
			if p != "" {
				return "selection-panics", fmt.Sprintf("step %d: selecting a session for xid %q with %d open session(s) panicked: %s", step, x, len(open), p)
			}
			if len(open) == 0 {
				// no open session: the selection polls for one (the polling loop runs through at once here) and ends with nil
				if gs, ok := got.(*sess); ok && gs != nil {
					return "closed-session-chosen", fmt.Sprintf("step %d: no session is open, yet session %d (%s, closed=%v) was chosen", step, gs.id, gs.addr, gs.IsClosed())
				}
				continue
			}
			if got == nil {
				return "nil-although-open", fmt.Sprintf("step %d: %d open session(s) are registered but none was chosen", step, len(open))
			}
			gs, ok := got.(*sess)
			if !ok {
				return "foreign-session", fmt.Sprintf("step %d: chose %T", step, got)
			}
			if gs.IsClosed() {
				return "closed-session-chosen", fmt.Sprintf("step %d: chose session %d (%s), which is closed; open: %v", step, gs.id, gs.addr, names(open))
			}
			if !registered[gs.id] {
				return "released-session-chosen", fmt.Sprintf("step %d: chose session %d (%s), which has been released", step, gs.id, gs.addr)
			}
			if policy == "XID" {
				parts := strings.Split(x, ":")
				if len(parts) == 3 {
					want := parts[0] + ":" + parts[1]
					has := false
					for _, s := range open {
						if s.addr == want {
							has = true
						}
					}
					if has && gs.addr != want {
						return "xid-affinity", fmt.Sprintf("step %d: xid %q must go to the open session connected to %s, went to %s (open: %v)", step, x, want, gs.addr, names(open))
					}
				}
			}
		}
	}
	return "", ""
}

func names(ss []*sess) []string {
	var out []string
	for _, s := range ss {
		out = append(out, fmt.Sprintf("%d@%s", s.id, s.addr))
	}
	return out
}

// enumerate all histories up to depth with at most maxSess sessions; every history ends with a selection.
func enumerate(depth, maxSess int, withCounters bool, yield func(h History)) {
	var rec func(h History, nsess int)
	rec = func(h History, nsess int) {
		if len(h) > 0 && h[len(h)-1][0] == 's' {
			yield(append(History{}, h...))
		}
		if len(h) == depth {
			return
		}
		if nsess < maxSess {
			for a := range addrs {
				rec(append(h, fmt.Sprintf("o%d", a)), nsess+1)
			}
		}
		for i := 0; i < nsess; i++ {
			rec(append(h, fmt.Sprintf("d%d", i)), nsess)
			rec(append(h, fmt.Sprintf("r%d", i)), nsess)
			rec(append(h, fmt.Sprintf("x%d", i)), nsess)
		}
		if nsess > 0 && withCounters {
			for a := range addrs {
				rec(append(h, fmt.Sprintf("b%d", a)), nsess)
			}
		}
		if nsess > 0 {
			for x := range xids {
				rec(append(h, fmt.Sprintf("s%d", x)), nsess)
			}
		}
	}
	rec(nil, 0)
}

const clauseA = "the chosen session is a registered, open session (nil only when none is open); under the XID policy an xid ip:port:id goes to the open session connected to ip:port when there is one"
const clauseB = "after the connection is lost and re-established the client announces itself again as transaction manager and as resource manager for every resource it had registered; new global transactions can begin"

func partA(r *rep.Run, thorough bool) {
	depth, maxSess := 5, 2
	if thorough {
		depth, maxSess = 6, 3
	}
	saved := config.GetSeataConfig().LoadBalanceType
	defer func() { config.GetSeataConfig().LoadBalanceType = saved }()
	for _, p := range policies {
		n := 0
		enumerate(depth, maxSess, p == "LeastActiveLoadBalance", func(h History) {
			n++
			r.Eval(true)
			// random policies: repeat to cover the index choices (the chosen index is time-seeded; membership must hold for each)
			reps := 1
			if p == "RandomLoadBalance" || p == "LeastActiveLoadBalance" {
				reps = 3
			}
			for i := 0; i < reps; i++ {
				if clause, detail := run(p, h); clause != "" {
					sig := fmt.Sprintf("%s/%s", clause, p)
					r.Violate(sig, clauseA, Located{p, h}, detail+fmt.Sprintf(" | history %v", h))
					break
				}
			}
		})
		// beyond the depth bound: every connection of a two-address set is lost (error, then close) and re-established, then a
		// selection for each xid; also with the reconnections in the other order and with one more plain release in between
		for a := range addrs {
			for b := range addrs {
				for x := range xids {
					for _, mid := range [][]string{{"x0", "x1"}, {"x1", "x0"}, {"x0", "r0", "x1"}, {"d0", "x1", "r0"}} {
						for _, re := range [][]string{{fmt.Sprintf("o%d", a), fmt.Sprintf("o%d", b)}, {fmt.Sprintf("o%d", b), fmt.Sprintf("o%d", a)}} {
							h := History{fmt.Sprintf("o%d", a), fmt.Sprintf("o%d", b)}
							h = append(append(append(h, mid...), re...), fmt.Sprintf("s%d", x))
							n++
							r.Eval(true)
							r.Count("bounce_histories", 1)
							if clause, detail := run(p, h); clause != "" {
								r.Violate(fmt.Sprintf("%s/%s", clause, p), clauseA, Located{p, h}, detail+fmt.Sprintf(" | history %v", h))
							}
						}
					}
				}
			}
		}
		// a connection dies silently and is re-established: the registry holds the stale closed session next to its open twin
		// (to the same address) and a session to another coordinator; repeated, because the registry is walked in map order
		for a := range addrs {
			for b := range addrs {
				if a == b {
					continue
				}
				for x := range xids {
					for _, h := range []History{
						{fmt.Sprintf("o%d", a), fmt.Sprintf("o%d", b), "d0", fmt.Sprintf("o%d", a), fmt.Sprintf("s%d", x)},
						{fmt.Sprintf("o%d", a), fmt.Sprintf("o%d", b), "d1", fmt.Sprintf("o%d", b), fmt.Sprintf("s%d", x)},
						{fmt.Sprintf("o%d", a), "d0", fmt.Sprintf("o%d", a), fmt.Sprintf("o%d", b), "d0", fmt.Sprintf("s%d", x)},
					} {
						for rep := 0; rep < 12; rep++ {
							n++
							r.Eval(true)
							r.Count("stale_twin_histories", 1)
							if clause, detail := run(p, h); clause != "" {
								r.Violate(fmt.Sprintf("%s/%s", clause, p), clauseA, Located{p, h}, detail+fmt.Sprintf(" | history %v", h))
								break
							}
						}
					}
				}
			}
		}
		r.Count("histories/"+p, int64(n))
		if poisoned[p] {
			r.Exhaustive = false
			r.Count("policies_cut_short_after_a_blocked_selection", 1)
			continue
		}
		waitingSelection(r, p)
		ringSweep(r, p, 400)
	}
}

// waitingSelection: a selection that started with no session at all waits for one (check-alive polling). While it waits, a
// flapping reconnect registers a session that is already dead and a healthy one, in either order; after the next poll the
// selection must hand out the healthy one, never the closed one.
func waitingSelection(r *rep.Run, policy string) {
	for _, order := range []string{"closed-first", "open-first", "closed-open-closed"} {
		for x := range xids {
			quiet.Spin(nil, 2)
			sgetty.VerifResetRemoting()
			loadbalance.VerifReset()
			config.GetSeataConfig().LoadBalanceType = policy
			vtime.SetVirtual(nil)
			vtime.AutoTick = false
			msg := message.RpcMessage{ID: 1, Type: message.GettyRequestTypeRequestSync, Codec: byte(codec.CodecTypeSeata), Body: body(xids[x])}
			done := make(chan getty.Session, 1)
			panicked := make(chan string, 1)
			go func() {
				defer func() {
					if p := recover(); p != nil {
						panicked <- fmt.Sprint(p)
						done <- nil
					}
				}()
				done <- sgetty.VerifSelectSession(msg)
			}()
			quiet.Spin(func() bool { return len(done) > 0 }, 3) // now parked at the ticker
			dead := &sess{id: 0, addr: addrs[0], closed: true}
			dead2 := &sess{id: 2, addr: addrs[1], closed: true}
			live := &sess{id: 1, addr: addrs[0]}
			switch order {
			case "closed-first":
				sgetty.VerifRegisterSession(dead)
				sgetty.VerifRegisterSession(live)
			case "open-first":
				sgetty.VerifRegisterSession(live)
				sgetty.VerifRegisterSession(dead)
			default:
				sgetty.VerifRegisterSession(dead)
				sgetty.VerifRegisterSession(live)
				sgetty.VerifRegisterSession(dead2)
			}
			h := History{"select (waits)", order, fmt.Sprintf("s%d", x)}
			var got getty.Session
			returned := false
			for tick := 0; tick < 12 && !returned; tick++ {
				vtime.Tick(0)
				quiet.Spin(func() bool { return len(done) > 0 }, 3)
				select {
				case got = <-done:
					returned = true
				default:
				}
			}
			vtime.SetPassThrough()
			r.Eval(true)
			r.Count("waiting_selection_cases", 1)
			select {
			case p := <-panicked:
				r.Violate("selection-panics/"+policy, clauseA, Located{policy, h}, "a selection started with no session registered panicked: "+p)
				continue
			default:
			}
			if !returned {
				r.Violate("waiting-selection-never-returns/"+policy, clauseA, Located{policy, h}, "an open session was registered while the selection waited; twelve polls later it still has not returned")
				continue
			}
			if gs, ok := got.(*sess); ok && gs != nil && gs.IsClosed() {
				r.Violate("closed-session-chosen/"+policy, clauseA, Located{policy, h}, fmt.Sprintf("the waiting selection was handed session %d (%s), which is closed, although session %d (%s) is open", gs.id, gs.addr, live.id, live.addr))
			} else if got == nil {
				r.Violate("nil-although-open/"+policy, clauseA, Located{policy, h}, "the waiting selection returned nil although an open session had been registered")
			}
		}
	}
}

// selectWatched runs one selection on a goroutine of its own. It normally returns within a few yields; if it does not, the
// process is watched until the selection returns or everything is blocked (a selection waiting for a lock nobody will
// release); a blocked selection is left behind, the next history starts on a fresh registry and balancer.
func selectWatched(msg interface{}) (got getty.Session, panicked string, blocked bool) {
	type res struct {
		s getty.Session
		p string
	}
	done := make(chan res, 1)
	go func() {
		var r res
		r.p = catchPanic(func() { r.s = sgetty.VerifSelectSession(msg) })
		done <- r
	}()
	for i := 0; i < 200; i++ {
		select {
		case r := <-done:
			return r.s, r.p, false
		default:
			runtime.Gosched()
		}
	}
	// (twenty consecutive observations a few dozen microseconds apart: a goroutine that is only momentarily off the
	// processor - waiting for the collector, say - does not stay that way)
	if quiet.Settle(func() bool { return len(done) > 0 }, 20) {
		return nil, "", true
	}
	r := <-done
	return r.s, r.p, false
}

func catchPanic(f func()) (p string) {
	defer func() {
		if r := recover(); r != nil {
			p = fmt.Sprint(r)
		}
	}()
	f()
	return ""
}

// ringSweep: many selections in a row on one registry, for xids spread over the whole hash ring (a selection whose key
// falls behind the last ring position wraps around). Each selection runs on a goroutine of its own; if the process goes
// quiet before it returns, the selection is blocked for good.
func ringSweep(r *rep.Run, policy string, nx int) {
	quiet.Spin(nil, 2)
	sgetty.VerifResetRemoting()
	loadbalance.VerifReset()
	config.GetSeataConfig().LoadBalanceType = policy
	vtime.SetVirtual(nil)
	vtime.AutoTick = true
	defer func() { vtime.AutoTick = false; vtime.SetPassThrough() }()
	open := []*sess{{id: 0, addr: addrs[0]}, {id: 1, addr: addrs[1]}}
	for _, s := range open {
		sgetty.VerifRegisterSession(s)
	}
	for i := 0; i < nx; i++ {
		x := fmt.Sprintf("10.0.0.%d:8091:%d", 5+i%2, 9000+i*7919)
		msg := message.RpcMessage{ID: 1, Type: message.GettyRequestTypeRequestSync, Codec: byte(codec.CodecTypeSeata), Body: body(x)}
		done := make(chan getty.Session, 1)
		go func() { done <- sgetty.VerifSelectSession(msg) }()
		quiet.Settle(func() bool { return len(done) > 0 }, 20)
		r.Eval(true)
		r.Count("ring_sweep_selections/"+policy, 1)
		h := History{"o0", "o1", fmt.Sprintf("sweep:%d selections, last xid %s", i+1, x)}
		select {
		case got := <-done:
			gs, ok := got.(*sess)
			if got == nil || !ok || gs.IsClosed() {
				r.Violate("nil-although-open/"+policy, clauseA, Located{policy, h}, fmt.Sprintf("selection %d (xid %s) with two open sessions returned %v", i+1, x, got))
				return
			}
			if policy == "XID" && gs.addr != fmt.Sprintf("10.0.0.%d:8091", 5+i%2) {
				r.Violate("xid-affinity/"+policy, clauseA, Located{policy, h}, fmt.Sprintf("selection %d: xid %s went to %s", i+1, x, gs.addr))
				return
			}
		default:
			r.Violate("selection-blocks/"+policy, clauseA, Located{policy, h}, fmt.Sprintf("selection %d (xid %s) never returned: every goroutine of the process is blocked (two open sessions are registered)", i+1, x))
			return
		}
	}
}

// ---- part B: reconnection on the closed system ------------------------------------------------

type reconnectCase struct {
	Name string `json:"name"`
}

func partB(r *rep.Run) {
	for _, when := range []string{"idle", "between-phases", "twice"} {
		r.Eval(true)
		e, err := sys.NewEnv([]string{gen.S1.DDL}, sys.Options{NoXA: true})
		if err != nil {
			r.Broken = err.Error()
			return
		}
		vtime.SetVirtual(func(d time.Duration) bool { return d < 20*time.Second })
		e.Bare.Exec(gen.S1.InsertSQL([]int{0, 1, 2}))
		tc := e.TC
		first := e.Sess
		had := tc.ResourcesOn(first.SID)
		var xid string
		if when == "between-phases" {
			// phase one of a branch, then the connection drops before the coordinator decides
			hold := make(chan struct{})
			done := make(chan struct{})
			go func() {
				defer close(done)
				tm.WithGlobalTx(context.Background(), &tm.GtxConfig{Name: "c19"}, func(ctx context.Context) error {
					xid = tm.GetXID(ctx)
					_, err := e.AT.ExecContext(ctx, "UPDATE t_s1 SET cnt = cnt + 1 WHERE id = 1")
					hold <- struct{}{}
					<-hold
					return err
				})
			}()
			<-hold
			defer func() { hold <- struct{}{}; <-done }()
		}
		rounds := 1
		if when == "twice" {
			rounds = 2
		}
		cur := first
		for k := 0; k < rounds; k++ {
			tc.CloseSession(cur)
			cur = tc.Open("192.168.0.1:8091")
			quiet.Settle(nil, 5)
			sawTM := false
			for _, ev := range tc.Events() {
				if ev.Session == cur.SID && ev.Dir == "c2s" {
					if _, ok := ev.Msg.Body.(message.RegisterTMRequest); ok {
						sawTM = true
					}
				}
			}
			loc := map[string]interface{}{"when": when, "round": k + 1}
			if !sawTM {
				r.Violate("tm-not-reannounced/"+when, clauseB, loc, fmt.Sprintf("no RegisterTMRequest on the new session %d", cur.SID))
			}
			now := tc.ResourcesOn(cur.SID)
			for _, res := range had {
				found := false
				for _, n := range now {
					if n == res {
						found = true
					}
				}
				if !found {
					r.Violate("rm-not-reannounced/"+when, clauseB, loc, fmt.Sprintf("resource %q was registered on the lost session but is not announced on the new session %d (announced: %v)", res, cur.SID, now))
				}
			}
			// a new global transaction can begin on the new connection
			var got string
			err := tm.WithGlobalTx(context.Background(), &tm.GtxConfig{Name: "c19-after"}, func(ctx context.Context) error {
				got = tm.GetXID(ctx)
				return nil
			})
			if err != nil || got == "" {
				r.Violate("begin-after-reconnect/"+when, clauseB, loc, fmt.Sprintf("a new global transaction after the reconnect: xid=%q err=%v", got, err))
			}
		}
		vtime.SetPassThrough()
		_ = xid
	}
	// the write of the announcement itself fails once on the re-established connection, which stays open: the client must
	// end up announced on an open session all the same (it gives the session up and is announced on the next one, or repeats
	// the announcement); a registered open session that never saw the announcement cannot carry new transactions
	for _, fails := range []int{1, 2} {
		r.Eval(true)
		e, err := sys.NewEnv([]string{gen.S1.DDL}, sys.Options{NoXA: true})
		if err != nil {
			r.Broken = err.Error()
			return
		}
		vtime.SetVirtual(func(d time.Duration) bool { return d < 20*time.Second })
		tc := e.TC
		tc.CloseSession(e.Sess)
		var cur *faketc.Session
		opened := 0
		for k := 0; k < 4; k++ { // getty redials as long as the client closes what it is given
			cur = tc.NewSession("192.168.0.1:8091")
			if k == 0 {
				cur.FailWrites(fails)
			}
			opened++
			sgetty.GetGettyClientHandlerInstance().OnOpen(cur)
			quiet.Settle(nil, 5)
			if !cur.IsClosed() {
				break
			}
			sgetty.GetGettyClientHandlerInstance().OnClose(cur)
		}
		sawTM := false
		for _, ev := range tc.Events() {
			if ev.Session == cur.SID && ev.Dir == "c2s" {
				if _, ok := ev.Msg.Body.(message.RegisterTMRequest); ok {
					sawTM = true
				}
			}
		}
		loc := map[string]interface{}{"when": "announce-write-fails", "failed_writes": fails}
		if cur.IsClosed() {
			r.Violate("no-session-kept/announce-write-fails", clauseB, loc, fmt.Sprintf("the client closed all %d sessions it was given", opened))
		} else if !sawTM {
			r.Violate("tm-not-reannounced/announce-write-fails", clauseB, loc, fmt.Sprintf("the write of the announcement failed %d time(s) on the new session %d; the session is open and registered but no RegisterTMRequest ever arrived on it (sessions opened: %d)", fails, cur.SID, opened))
		}
		vtime.SetPassThrough()
	}
}

func Run(r *rep.Run) {
	thorough := r.Tier == "thorough"
	r.Rule = "A: every history of up to 5 (thorough 6) events over {open a connection to one of 3 addresses (one address a textual prefix of another), a session dies silently, getty reports a session closed, getty reports a session broken (error, then close: two releases), (least-active policy only) a request put in flight on one of the addresses, select for one of 5 xids (3 matching addresses, one foreign address, one not of the form ip:port:id)} with at most 2 (thorough 3) sessions, ending in a selection, x the five policies, on the real registry through sessionManager.selectSession with the request wrapped as the client wraps it. B: connection loss and re-establishment while idle, between phase one and phase two of an AT branch, and twice in a row, on the closed system."
	r.Assume = []string{"the index drawn by the random policies is not controlled (time-seeded); the oracle must hold for every index and each history is repeated 3 times", "selection with no open session (the check-alive wait) is not driven"}
	sys.InitClient()
	if replay := os.Getenv("VERIF_REPLAY"); replay != "" {
		b, err := os.ReadFile(replay)
		if err != nil {
			r.Broken = err.Error()
			return
		}
		var f struct {
			Case Located `json:"case"`
		}
		json.Unmarshal(b, &f)
		if f.Case.Policy == "" {
			partB(r)
			return
		}
		for i := 0; i < 3; i++ {
			r.Eval(true)
			if clause, detail := run(f.Case.Policy, f.Case.History); clause != "" {
				r.Violate(clause+"/"+f.Case.Policy, clauseA, f.Case, detail)
			}
		}
		return
	}
	partA(r, thorough)
	partB(r)
}
