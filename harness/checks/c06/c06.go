// Package c06: TCC fence - idempotence, anti-suspension, empty rollback (Mode B + F + D).
//
// B: explicit-state BFS. A state is the content of the database (fence rows and the business-effect counters of two
// branches sharing the fence table); a transition calls the real fence.WithFence inside a real database/sql transaction on
// memdb for one delivery (prepare / commit / rollback of branch 1 or 2). Successors are produced by restoring the
// database snapshot of the source state and applying one delivery; states are deduplicated on a canonical form; the search
// runs to a fixpoint (or the depth bound) and every transition is compared with a five-state reference automaton.
// F: from every reachable state, every delivery is repeated with a database error at each of its statements; the state
// afterwards must be the source state. D: from every reachable state, every pair of deliveries for the same branch is run
// on two threads under the scheduler with a scheduling point before every statement; every interleaving is executed and
// the final state must be one that some serial order of the two deliveries produces in the reference automaton.
package c06

import (
	"context"
	"database/sql"
	"encoding/json"
	"fmt"
	"os"
	"runtime"
	"sort"
	"strings"
	"sync"

	"github.com/go-sql-driver/mysql"

	"seata.apache.org/seata-go/pkg/protocol/branch"
	"seata.apache.org/seata-go/pkg/rm"
	"seata.apache.org/seata-go/pkg/rm/tcc"
	"seata.apache.org/seata-go/pkg/rm/tcc/fence"
	"seata.apache.org/seata-go/pkg/rm/tcc/fence/enum"
	"seata.apache.org/seata-go/pkg/tm"

	"verifharness/memdb"
	"verifharness/quiet"
	"verifharness/rep"
	"verifharness/sys"
	"verifharness/vsched"
)

const fenceDDL = "CREATE TABLE tcc_fence_log (xid VARCHAR(128) NOT NULL, branch_id BIGINT NOT NULL, action_name VARCHAR(64) NOT NULL, status TINYINT NOT NULL, gmt_create DATETIME(3) NOT NULL, gmt_modified DATETIME(3) NOT NULL, PRIMARY KEY (xid, branch_id), KEY idx_gmt_modified (gmt_modified), KEY idx_status (status))"
const bizDDL = "CREATE TABLE biz (k VARCHAR(32) NOT NULL, tries INT NOT NULL, confirms INT NOT NULL, cancels INT NOT NULL, PRIMARY KEY (k))"

// branches: same xid / different branch id, and a third one with a different xid and the branch id of the first
var branches = []struct {
	Xid string
	ID  int64
	Key string
}{{"10.0.0.1:8091:77", 1, "b1"}, {"10.0.0.1:8091:77", 2, "b2"}, {"10.0.0.1:8091:78", 1, "b3"}}

type Action struct {
	Op     string `json:"op"` // P | C | R
	Branch int    `json:"branch"`
}

func (a Action) String() string { return fmt.Sprintf("%s%d", a.Op, a.Branch+1) }

// ---- reference automaton ---------------------------------------------------------------

type bstate struct {
	St                      string // none | tried | committed | rollbacked | suspended
	Tries, Confirms, Cancel int
}

func refStep(b bstate, op string) (bstate, bool) { // next state, whether the step may report success
	switch op {
	case "P":
		if b.St == "none" {
			b.St = "tried"
			b.Tries++
			return b, true
		}
		return b, false
	case "C":
		switch b.St {
		case "tried":
			b.St = "committed"
			b.Confirms++
			return b, true
		case "committed":
			return b, true
		}
		return b, false
	case "R":
		switch b.St {
		case "none":
			b.St = "suspended"
			return b, true
		case "tried":
			b.St = "rollbacked"
			b.Cancel++
			return b, true
		case "rollbacked", "suspended":
			return b, true
		}
		return b, false
	}
	return b, false
}

// seqStep is the sequential behaviour actually observed on the tree (known finding: the business method also runs when the
// fence has nothing to do). Race outcomes that are a serial order of seqStep are attributed to that finding; anything else
// is an atomicity violation of its own.
func seqStep(b bstate, op string) bstate {
	n, _ := refStep(b, op)
	switch {
	case op == "C" && b.St == "committed":
		n.Confirms++
	case op == "R" && (b.St == "rollbacked" || b.St == "suspended" || b.St == "none"):
		n.Cancel++
	}
	return n
}

// ---- the real system ---------------------------------------------------------------------

var env *sys.Env

func statusName(st int64) string {
	switch enum.FenceStatus(st) {
	case enum.StatusTried:
		return "tried"
	case enum.StatusCommitted:
		return "committed"
	case enum.StatusRollbacked:
		return "rollbacked"
	case enum.StatusSuspended:
		return "suspended"
	}
	return fmt.Sprintf("status-%d", st)
}

func readState(nb int) []bstate {
	out := make([]bstate, nb)
	for i := 0; i < nb; i++ {
		out[i].St = "none"
		b := branches[i]
		var st int64
		err := env.Bare.QueryRow("SELECT status FROM tcc_fence_log WHERE xid = ? AND branch_id = ?", b.Xid, b.ID).Scan(&st)
		if err == nil {
			out[i].St = statusName(st)
		}
		env.Bare.QueryRow("SELECT tries, confirms, cancels FROM biz WHERE k = ?", b.Key).Scan(&out[i].Tries, &out[i].Confirms, &out[i].Cancel)
	}
	return out
}

func key(s []bstate) string {
	b, _ := json.Marshal(s)
	return string(b)
}

var phaseOf = map[string]enum.FencePhase{"P": enum.FencePhasePrepare, "C": enum.FencePhaseCommit, "R": enum.FencePhaseRollback}
var colOf = map[string]string{"P": "tries", "C": "confirms", "R": "cancels"}

// viaDriver selects the second way an application uses the fence: a *sql.DB opened through the fence driver, whose BeginTx does
// the fence step (in a transaction of its own on the target database) before the business statements run in the returned one.
var viaDriver bool
var fenceDB *sql.DB

func deliver(a Action) error {
	switch {
	case viaRM != "" && a.Op != "P":
		return deliverRM(a)
	case viaDriver:
		return deliverDriver(a)
	}
	return deliverAPI(a)
}

// viaRM selects the third path: commit and rollback deliveries go through the TCC resource manager (BranchCommit /
// BranchRollback of the registered action, which opens its transaction on the fence driver), the way the phase-two
// processors call it - "fresh": with a new background context per delivery, "shared": with one seata context that the
// caller keeps and hands to every delivery. Prepare goes through the fence driver as in the second path.
var viaRM string
var sharedCtx context.Context

type fenceAction struct{}

func (fenceAction) GetActionName() string                                    { return "fenceAct" }
func (fenceAction) Prepare(ctx context.Context, p interface{}) (bool, error) { return true, nil }
func (fenceAction) twoPhase(ctx context.Context, bac *tm.BusinessActionContext, col string) (bool, error) {
	key := fmt.Sprint(bac.ActionContext["key"])
	tx, err := fenceDB.BeginTx(ctx, nil)
	if err != nil {
		return false, fmt.Errorf("begin: %w", err)
	}
	if _, e := tx.ExecContext(ctx, "UPDATE biz SET "+col+" = "+col+" + 1 WHERE k = ?", key); e != nil {
		tx.Rollback()
		return false, e
	}
	if err := tx.Commit(); err != nil {
		return false, err
	}
	return true, nil
}
func (a fenceAction) Commit(ctx context.Context, bac *tm.BusinessActionContext) (bool, error) {
	return a.twoPhase(ctx, bac, colOf["C"])
}
func (a fenceAction) Rollback(ctx context.Context, bac *tm.BusinessActionContext) (bool, error) {
	return a.twoPhase(ctx, bac, colOf["R"])
}

func deliverRM(a Action) (err error) {
	b := branches[a.Branch]
	defer func() {
		if r := recover(); r != nil {
			err = fmt.Errorf("panic: %v", r)
		}
	}()
	ctx := context.Background()
	if viaRM == "shared" {
		ctx = sharedCtx
	}
	res := rm.BranchResource{BranchType: branch.BranchTypeTCC, Xid: b.Xid, BranchId: b.ID, ResourceId: "fenceAct",
		ApplicationData: []byte(fmt.Sprintf(`{"actionContext":{"key":%q}}`, b.Key))}
	mgr := rm.GetRmCacheInstance().GetResourceManager(branch.BranchTypeTCC)
	if a.Op == "C" {
		_, err = mgr.BranchCommit(ctx, res)
	} else {
		_, err = mgr.BranchRollback(ctx, res)
	}
	return err
}

func deliverDriver(a Action) (err error) {
	b := branches[a.Branch]
	ctx := tm.InitSeataContext(context.Background())
	tm.SetXID(ctx, b.Xid)
	tm.SetFencePhase(ctx, phaseOf[a.Op])
	tm.SetBusinessActionContext(ctx, &tm.BusinessActionContext{Xid: b.Xid, BranchId: b.ID, ActionName: "act-" + b.Key})
	defer func() {
		if r := recover(); r != nil {
			err = fmt.Errorf("panic: %v", r)
		}
	}()
	tx, err := fenceDB.BeginTx(ctx, nil)
	if err != nil {
		return fmt.Errorf("begin: %w", err)
	}
	if _, e := tx.ExecContext(ctx, "UPDATE biz SET "+colOf[a.Op]+" = "+colOf[a.Op]+" + 1 WHERE k = ?", b.Key); e != nil {
		tx.Rollback()
		return e
	}
	if driverRetry {
		// the application gives its first attempt up (a successful local rollback) and tries again under the same seata
		// context: the second attempt must be fenced like the first, so the delivery as a whole equals a single one
		if e := tx.Rollback(); e != nil {
			return fmt.Errorf("rollback of the first attempt: %w", e)
		}
		if tx, err = fenceDB.BeginTx(ctx, nil); err != nil {
			return fmt.Errorf("begin (second attempt): %w", err)
		}
		if _, e := tx.ExecContext(ctx, "UPDATE biz SET "+colOf[a.Op]+" = "+colOf[a.Op]+" + 1 WHERE k = ?", b.Key); e != nil {
			tx.Rollback()
			return e
		}
	}
	return tx.Commit()
}

// driverRetry makes every delivery through the fence driver a rolled-back attempt followed by a committed one (sixth-round seed).
var driverRetry bool

// deliverAPI runs one delivery the way an application uses the fence API: one local transaction, WithFence, commit or roll back.
func deliverAPI(a Action) (err error) {
	b := branches[a.Branch]
	ctx := tm.InitSeataContext(context.Background())
	tm.SetXID(ctx, b.Xid)
	tm.SetFencePhase(ctx, phaseOf[a.Op])
	tm.SetBusinessActionContext(ctx, &tm.BusinessActionContext{Xid: b.Xid, BranchId: b.ID, ActionName: "act-" + b.Key})
	tx, err := env.Bare.BeginTx(context.Background(), nil)
	if err != nil {
		return fmt.Errorf("begin: %w", err)
	}
	defer func() {
		if r := recover(); r != nil {
			tx.Rollback()
			err = fmt.Errorf("panic: %v", r)
		}
	}()
	err = fence.WithFence(ctx, tx, func() error {
		_, e := tx.Exec("UPDATE biz SET "+colOf[a.Op]+" = "+colOf[a.Op]+" + 1 WHERE k = ?", b.Key)
		return e
	})
	if err != nil {
		tx.Rollback()
		return err
	}
	return tx.Commit()
}

type Located struct {
	Mode    string   `json:"mode"`
	Path    []string `json:"path"` // deliveries leading to the source state
	Action  string   `json:"action"`
	Action2 string   `json:"action2,omitempty"`
	Fault   int      `json:"fault,omitempty"`
	Choices []int    `json:"choices,omitempty"`
}

func reach(path []string) {
	env.Srv.Fault = nil
	env.Srv.Restore(memdb.Snapshot{})
	for _, b := range branches {
		env.Bare.Exec("INSERT INTO biz (k, tries, confirms, cancels) VALUES (?, 0, 0, 0)", b.Key)
	}
	for _, p := range path {
		deliver(parse(p))
	}
}

func parse(s string) Action {
	return Action{Op: s[:1], Branch: int(s[1] - '1')}
}

var pathTag string // "" for the WithFence API, "driver:" for the fence driver (part of every signature)

const clauseText = "try, confirm and cancel effects are each applied at most once; confirm and cancel never both; a rollback before try records a suspension, applies nothing and makes a later try refused; the fence record and the business effect commit or roll back together"

func classify(prev, next []bstate, a Action, err error) (clause, detail string) {
	want := append([]bstate{}, prev...)
	nb, okAllowed := refStep(prev[a.Branch], a.Op)
	want[a.Branch] = nb
	if key(next) == key(want) {
		if err == nil && !okAllowed {
			return "refusal-not-reported", fmt.Sprintf("%v from %+v changed nothing, as it must, but reported success", a, prev[a.Branch])
		}
		return "", ""
	}
	n := next[a.Branch]
	switch {
	case n.Tries > 1 || n.Confirms > 1 || n.Cancel > 1:
		return "effect-applied-twice", fmt.Sprintf("%v from %+v -> %+v", a, prev[a.Branch], n)
	case n.Confirms > 0 && n.Cancel > 0:
		return "confirm-and-cancel", fmt.Sprintf("%v from %+v -> %+v", a, prev[a.Branch], n)
	case a.Op == "R" && prev[a.Branch].St == "none" && n.St != "suspended":
		return "empty-rollback-not-suspended", fmt.Sprintf("rollback before try: fence state %q (err=%v); a later try is not refused", n.St, err)
	case key(next) == key(prev) && okAllowed:
		return "step-refused", fmt.Sprintf("%v from %+v was refused: %v", a, prev[a.Branch], err)
	}
	for i := range next {
		if i != a.Branch && next[i] != prev[i] {
			return "other-branch-touched", fmt.Sprintf("%v changed branch %d: %+v -> %+v", a, i+1, prev[i], next[i])
		}
	}
	return "record-effect-mismatch", fmt.Sprintf("%v from %+v -> %+v (expected %+v, err=%v)", a, prev[a.Branch], n, nb, err)
}

func bfs(r *rep.Run, nb, depth int) (paths map[string][]string) {
	actions := []Action{}
	for b := 0; b < nb; b++ {
		for _, op := range []string{"P", "C", "R"} {
			actions = append(actions, Action{op, b})
		}
	}
	reach(nil)
	init := readState(nb)
	paths = map[string][]string{key(init): {}}
	snaps := map[string]memdb.Snapshot{key(init): env.Srv.Snapshot()}
	frontier := []string{key(init)}
	transitions := 0
	maxDepth := 0
	for d := 0; d < depth && len(frontier) > 0; d++ {
		var next []string
		for _, k := range frontier {
			var prev []bstate
			json.Unmarshal([]byte(k), &prev)
			for _, a := range actions {
				env.Srv.Restore(snaps[k])
				err := deliver(a)
				st := readState(nb)
				transitions++
				r.Eval(true)
				if clause, detail := classify(prev, st, a, err); clause != "" {
					r.Violate(fmt.Sprintf("%s%s/%s-from-%s", pathTag, clause, a.Op, prev[a.Branch].St), clauseText,
						Located{Mode: "bfs", Path: paths[k], Action: a.String()}, detail+fmt.Sprintf(" | path %v", paths[k]))
				}
				if n := env.Srv.OpenTxCount(); n != 0 {
					r.Violate(pathTag+"transaction-left-open/"+a.Op, clauseText, Located{Mode: "bfs", Path: paths[k], Action: a.String()}, fmt.Sprintf("%d transaction(s) left open", n))
				}
				nk := key(st)
				if _, seen := paths[nk]; !seen {
					paths[nk] = append(append([]string{}, paths[k]...), a.String())
					snaps[nk] = env.Srv.Snapshot()
					next = append(next, nk)
					if d+1 > maxDepth {
						maxDepth = d + 1
					}
				}
			}
		}
		frontier = next
	}
	r.Count(fmt.Sprintf("%sbfs_states/%dbranches", pathTag, nb), int64(len(paths)))
	r.Count(fmt.Sprintf("%sbfs_transitions/%dbranches", pathTag, nb), int64(transitions))
	r.Count(fmt.Sprintf("%sbfs_max_depth/%dbranches", pathTag, nb), int64(maxDepth))
	if len(frontier) > 0 {
		r.Count(fmt.Sprintf("bfs_frontier_left/%dbranches", nb), int64(len(frontier)))
	}
	return paths
}

// faults: a database error at each statement of each delivery from each reachable state.
func faults(r *rep.Run, paths map[string][]string, nb int) {
	var keys []string
	for k := range paths {
		keys = append(keys, k)
	}
	sort.Strings(keys)
	for _, k := range keys {
		var prev []bstate
		json.Unmarshal([]byte(k), &prev)
		for _, op := range []string{"P", "C", "R"} {
			a := Action{op, 0}
			for f := 0; f < 12; f++ {
				reach(paths[k])
				n, hit, hitKind, commits, hitCommit := 0, false, "", 0, 0
				env.Srv.Fault = func(o memdb.Op) error {
					if o.Kind == "connect" {
						return nil
					}
					n++
					if o.Kind == "commit" {
						commits++
					}
					if n-1 == f {
						hit, hitKind, hitCommit = true, o.Kind, commits
						return &mysql.MySQLError{Number: 1205, Message: "Lock wait timeout exceeded (injected)"}
					}
					return nil
				}
				err := deliver(a)
				env.Srv.Fault = nil
				if !hit {
					break
				}
				st := readState(nb)
				r.Eval(true)
				r.Count("fault_cases", 1)
				at := ""
				if hitKind == "commit" && hitCommit == 2 {
					at = "@second-commit" // only the fence driver has two transactions per delivery
				}
				if key(st) != k {
					r.Violate(fmt.Sprintf("%sfault-partial/%s-from-%s%s", pathTag, op, prev[0].St, at), clauseText, Located{Mode: "fault", Path: paths[k], Action: a.String(), Fault: f},
						fmt.Sprintf("operation #%d of %v failed (err=%v); the state is %+v, expected the source state %+v", f, a, err, st[0], prev[0]))
				} else if err == nil {
					r.Violate(fmt.Sprintf("%sfault-swallowed/%s-from-%s", pathTag, op, prev[0].St), clauseText, Located{Mode: "fault", Path: paths[k], Action: a.String(), Fault: f},
						fmt.Sprintf("operation #%d of %v failed but the delivery reported success", f, a))
				}
				if n := env.Srv.OpenTxCount(); n != 0 && hitKind != "rollback" { // a failed ROLLBACK leaves the transaction to the server
					r.Violate(pathTag+"transaction-left-open/fault/"+op, clauseText, Located{Mode: "fault", Path: paths[k], Action: a.String(), Fault: f}, fmt.Sprintf("%d transaction(s) left open", n))
				}
			}
		}
	}
}

// races: two deliveries for branch 1 on two threads, every interleaving at statement granularity.
func races(r *rep.Run, paths map[string][]string, bound int) {
	var keys []string
	for k := range paths {
		keys = append(keys, k)
	}
	sort.Strings(keys)
	pairs := [][2]string{{"P", "P"}, {"C", "C"}, {"R", "R"}, {"P", "R"}, {"C", "R"}, {"P", "C"}}
	for _, k := range keys {
		var prev []bstate
		json.Unmarshal([]byte(k), &prev)
		idleOthers := true // the other branches do not take part: keep only source states that differ in branch 1
		for _, o := range prev[1:] {
			if o.St != "none" {
				idleOthers = false
			}
		}
		if !idleOthers {
			continue
		}
		for _, pr := range pairs {
			a1, a2 := Action{pr[0], 0}, Action{pr[1], 0}
			outcomes := map[string]bool{}
			ex := &vsched.Explorer{Bound: bound, MaxExec: 4000}
			ex.RunOne = func(prefix []int) vsched.Result {
				reach(paths[k])
				env.Srv.SequentialWaits = false
				s := vsched.New()
				s.Horizon = 200
				env.Srv.Sched = s
				var mu sync.Mutex
				errs := make([]error, 2)
				for i, a := range []Action{a1, a2} {
					i, a := i, a
					s.Go(fmt.Sprintf("deliver-%v", a), func() {
						e := deliver(a)
						mu.Lock()
						errs[i] = e
						mu.Unlock()
					})
				}
				res := s.Run(prefix)
				env.Srv.Sched = nil
				stuck := s.Unfinished()
				s.Abort()
				env.Srv.Crash() // drop whatever a stuck thread still holds
				quiet.Spin(nil, 2)
				env.Srv.SequentialWaits = true
				st := readState(1)
				r.Eval(len(res.Points) > 2)
				r.Count("race_executions", 1)
				outcomes[key(st)] = true
				loc := Located{Mode: "race", Path: paths[k], Action: a1.String(), Action2: a2.String(), Choices: res.Choices}
				if len(stuck) > 0 && !res.Horizon {
					r.Violate(fmt.Sprintf("race-stuck/%s%s-from-%s", pr[0], pr[1], prev[0].St), clauseText, loc, fmt.Sprintf("deliveries never finished: %v | schedule %v", stuck, s.Log))
				} else {
					// a delivery that reported an error and was rolled back did not happen (the coordinator retries it): the final
					// state must be a serial order of the deliveries that reported success
					var okActs []Action
					mu.Lock()
					for i, a := range []Action{a1, a2} {
						if errs[i] == nil {
							okActs = append(okActs, a)
						}
					}
					mu.Unlock()
					okRef, okSeq := map[string]bool{}, map[string]bool{}
					orders := [][]Action{okActs}
					if len(okActs) == 2 {
						orders = append(orders, []Action{okActs[1], okActs[0]})
					}
					for _, o := range orders {
						a, b := prev[0], prev[0]
						for _, x := range o {
							a, _ = refStep(a, x.Op)
							b = seqStep(b, x.Op)
						}
						okRef[key([]bstate{a})], okSeq[key([]bstate{b})] = true, true
					}
					if !okRef[key(st)] {
						cls := "race-outcome"
						if okSeq[key(st)] {
							cls = "race-serial-with-sequential-defect"
						}
						r.Violate(fmt.Sprintf("%s/%s%s-from-%s", cls, pr[0], pr[1], prev[0].St), clauseText, loc,
							fmt.Sprintf("racing %v and %v from %+v ended in %+v, which no serial order of the successful deliveries produces (errs %v) | schedule %s", a1, a2, prev[0], st[0], errs, strings.Join(s.Log, " ; ")))
					}
				}
				return res
			}
			ex.Check = func(vsched.Result) {}
			ex.Explore(nil)
			r.Count("race_scenarios", 1)
			r.Count("race_distinct_outcomes", int64(len(outcomes)))
			if ex.Capped {
				r.Exhaustive = false
			}
		}
	}
}

func Run(r *rep.Run) {
	thorough := r.Tier == "thorough"
	r.Rule = "BFS to a fixpoint (depth bound 8 quick / 12 thorough) over deliveries {prepare, commit, rollback} x 2 branches (thorough: 3, incl. same branch id under another xid) sharing the fence table, real fence.WithFence in a real database/sql transaction on memdb, states = (fence status, try/confirm/cancel counters) per branch, every transition compared with a 5-state reference automaton; from every reachable state every delivery with a database error at each statement; from every reachable state (other branches idle) every pair of deliveries for one branch raced on two threads, all interleavings at statement granularity with at most `bound` preemptions (quick 2, thorough 4). The same BFS and fault enumeration (two branches) through a *sql.DB opened on the fence driver (the BFS once more with every delivery as a locally rolled-back attempt followed by a second attempt under the same seata context), and with commit / rollback delivered through the TCC resource manager (fresh context per delivery; one caller-shared seata context)."
	r.Assume = []string{"memdb: row locks of SELECT ... FOR UPDATE (also on a missing row: none, as in MySQL without gap locks on a unique miss), duplicate key 1062, deadlock detection", "the application wraps each delivery in one local transaction and commits iff WithFence returned nil (the documented usage)"}
	var err error
	env, err = sys.NewEnv([]string{fenceDDL, bizDDL}, sys.Options{NoAT: true, NoXA: true})
	if err != nil {
		r.Broken = err.Error()
		return
	}
	if replay := os.Getenv("VERIF_REPLAY"); replay != "" {
		b, err := os.ReadFile(replay)
		if err != nil {
			r.Broken = err.Error()
			return
		}
		var f struct {
			Case Located `json:"case"`
		}
		json.Unmarshal(b, &f)
		if f.Case.Mode == "race" {
			for i := 0; i < 3; i++ {
				reach(f.Case.Path)
				env.Srv.SequentialWaits = false
				s := vsched.New()
				env.Srv.Sched = s
				for _, a := range []Action{parse(f.Case.Action), parse(f.Case.Action2)} {
					a := a
					s.Go(fmt.Sprintf("deliver-%v", a), func() { deliver(a) })
				}
				res := s.Run(f.Case.Choices)
				env.Srv.Sched = nil
				fmt.Printf("replay %d: diverged=%q horizon=%v unfinished=%v conns=%+v\n  %s\n", i, res.Diverged, res.Horizon, s.Unfinished(), env.Srv.ConnStates(), strings.Join(s.Log, "\n  "))
				s.Abort()
				env.Srv.Crash()
				quiet.Spin(nil, 2)
				env.Srv.SequentialWaits = true
				r.Eval(true)
			}
			return
		}
		reach(f.Case.Path)
		prev := readState(3)
		e := deliver(parse(f.Case.Action))
		next := readState(3)
		r.Eval(true)
		fmt.Printf("replay: path %v then %s: %+v -> %+v err=%v\n", f.Case.Path, f.Case.Action, prev, next, e)
		if f.Case.Mode == "bfs" {
			if clause, detail := classify(prev, next, parse(f.Case.Action), e); clause != "" {
				r.Violate(clause+"/replay", clauseText, f.Case, detail)
			}
		}
		return
	}
	nb, depth, bound := 2, 8, 2
	if thorough {
		nb, depth, bound = 3, 12, 4
	}
	runtime.GOMAXPROCS(1)
	paths := bfs(r, nb, depth)
	faults(r, paths, nb)
	races(r, paths, bound)
	// the same search through the fence driver
	sql.Register("verif-fence-memdb", &fence.FenceDriver{TargetDriver: memdb.Driver{}})
	fenceDB, err = sql.Open("verif-fence-memdb", env.DSN)
	if err != nil {
		r.Broken = err.Error()
		return
	}
	viaDriver, pathTag = true, "driver:"
	// a transaction begun without a seata context is refused and leaves nothing behind
	reach(nil)
	if tx, e := fenceDB.BeginTx(context.Background(), nil); e == nil {
		tx.Rollback()
		r.Violate("driver:no-context-accepted", clauseText, Located{Mode: "bfs"}, "BeginTx through the fence driver without a seata context succeeded")
	}
	r.Eval(true)
	if n := env.Srv.OpenTxCount(); n != 0 {
		r.Violate("driver:transaction-left-open/no-context", clauseText, Located{Mode: "bfs"}, fmt.Sprintf("%d transaction(s) left open after a refused BeginTx", n))
	}
	// (the driver and resource-manager paths keep two branches in both tiers: their deliveries cost two transactions each,
	// and the third branch - same branch id under another xid - exercises the fence table, which the API path covers)
	nb2 := 2
	dpaths := bfs(r, nb2, depth)
	faults(r, dpaths, nb2)
	// ... every delivery as a locally rolled-back attempt plus a second attempt under the same context
	driverRetry, pathTag = true, "driver-retry:"
	bfs(r, nb2, depth)
	driverRetry, pathTag = false, "driver:"
	// ... and with commit / rollback deliveries through the TCC resource manager
	if _, err := tcc.NewTCCServiceProxy(fenceAction{}); err != nil {
		r.Broken = "register fence action: " + err.Error()
		return
	}
	for _, mode := range []string{"fresh", "shared"} {
		viaRM, pathTag = mode, "rm-"+mode+":"
		sharedCtx = tm.InitSeataContext(context.Background())
		rpaths := bfs(r, nb2, depth)
		if mode == "fresh" {
			faults(r, rpaths, nb2)
		}
	}
	viaRM = ""
	viaDriver, pathTag = false, ""
}

var _ = sql.ErrNoRows
