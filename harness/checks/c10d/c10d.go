// Package c10d: C10 under the scheduler - the coordinator's branch rollback racing the branch's own phase one at
// statement granularity (Mode D). The sequential part of C10 places the whole rollback delivery at each position among the
// operations of phase one; here the rollback transaction's own statements interleave with them.
//
// Thread A runs one AT statement in a global transaction (register, undo log, local commit). As soon as the branch is
// registered the environment may deliver the coordinator's BranchRollback for it: the delivery, the handler's database
// statements and every client message are scheduling points. After the run a clean redelivery follows (sequentially).
// Oracles: when any delivery answered 'rollbacked', the business tables end in the pre-state; the redelivery answers
// rollbacked; nothing is left open; nothing is stuck.
package c10d

import (
	"context"
	"encoding/json"
	"fmt"
	"os"
	"runtime"
	"strings"
	"sync"
	"time"

	"seata.apache.org/seata-go/pkg/protocol/branch"
	"seata.apache.org/seata-go/pkg/tm"
	"seata.apache.org/seata-go/pkg/util/vshim/vtime"

	"verifharness/atrun"
	"verifharness/faketc"
	"verifharness/gen"
	"verifharness/memdb"
	"verifharness/quiet"
	"verifharness/rep"
	"verifharness/sys"
	"verifharness/vsched"
)

type Scenario struct {
	Name  string        `json:"name"`
	SQL   string        `json:"sql"`
	Args  []interface{} `json:"args"`
	Bound int           `json:"bound"`
}

func scenarios(thorough bool) []Scenario {
	b := 3
	if thorough {
		b = 5
	}
	all := []Scenario{
		{"update", "UPDATE t_s1 SET cnt = cnt + 1 WHERE id = ?", []interface{}{int64(1)}, b},
		{"insert", "INSERT INTO t_s1 (id, name, cnt) VALUES (?, ?, ?)", []interface{}{int64(5), "e", 50}, b},
		{"delete", "DELETE FROM t_s1 WHERE id = ?", []interface{}{int64(2)}, b},
		{"update-many", "UPDATE t_s1 SET name = 'm' WHERE id <= 2", nil, b},
	}
	return all
}

var env *sys.Env

type execResult struct {
	res      vsched.Result
	bizErr   string
	statuses []int
	stuck    []string
	log      []string
	redeliv  int
	final    string
	pre      string
	leak     string
	noBranch bool
}

const rollbacked = int(branch.BranchStatusPhasetwoRollbacked)

func runOne(sc Scenario, prefix []int) execResult {
	var x execResult
	e := env
	e.Srv.Fault, e.Srv.Sched = nil, nil
	if err := atrun.Reset(e, &gen.S1, []int{0, 1, 2}); err != nil {
		panic(err)
	}
	e.TC.AutoRollback = false
	sys.TakeErrors()
	x.pre = atrun.BusinessTables(e.Srv.Snapshot()).String()
	vtime.SetVirtual(func(d time.Duration) bool { return d < 20*time.Second })
	s := vsched.New()
	s.Horizon = 400
	e.Srv.Sched = s
	oldSpawn, oldJoin, oldPoint := faketc.Spawn, faketc.Join, faketc.Point
	faketc.Spawn = func(name string, f func()) { s.Go(name, f) }
	faketc.Join = func(done chan struct{}) { <-done }
	faketc.Point = func(desc string) { s.Point(desc) }
	restore := func() { faketc.Spawn, faketc.Join, faketc.Point = oldSpawn, oldJoin, oldPoint }
	var mu sync.Mutex
	var xid string
	delivered := false
	s.Env = func() []vsched.EnvAction {
		mu.Lock()
		defer mu.Unlock()
		if delivered || xid == "" {
			return nil
		}
		g := e.TC.Global(xid)
		if g == nil || len(g.Branches) == 0 {
			return nil
		}
		br := g.Branches[0]
		x0 := xid
		return []vsched.EnvAction{{Desc: "coordinator-decides-rollback", Fire: func() {
			mu.Lock()
			delivered = true
			mu.Unlock()
			s.GoNow("rollback-request", func() {
				resp, ok := e.TC.BranchRollback(x0, br)
				st := -1
				if ok {
					st = int(resp.BranchStatus)
				}
				mu.Lock()
				x.statuses = append(x.statuses, st)
				mu.Unlock()
			})
		}}}
	}
	s.Go("phase-one", func() {
		tm.WithGlobalTx(context.Background(), &tm.GtxConfig{Name: "c10d", Timeout: time.Minute}, func(ctx context.Context) error {
			mu.Lock()
			xid = tm.GetXID(ctx)
			mu.Unlock()
			if _, err := e.AT.ExecContext(ctx, sc.SQL, sc.Args...); err != nil {
				mu.Lock()
				x.bizErr = err.Error()
				mu.Unlock()
				return err
			}
			return nil
		})
	})
	x.res = s.Run(prefix)
	e.Srv.Sched = nil
	x.stuck = s.Unfinished()
	x.log = s.Log
	s.Abort()
	restore()
	if len(x.stuck) > 0 {
		e.Srv.Crash()
	}
	quiet.Spin(nil, 2)
	// clean redelivery, sequentially
	if g := e.TC.Global(xid); g != nil && len(g.Branches) > 0 && len(x.stuck) == 0 {
		resp, ok := e.TC.BranchRollback(xid, g.Branches[0])
		x.redeliv = -1
		if ok {
			x.redeliv = int(resp.BranchStatus)
		}
	} else {
		x.noBranch = true
	}
	quiet.Spin(nil, 2)
	vtime.SetPassThrough()
	x.final = atrun.BusinessTables(e.Srv.Snapshot()).String()
	if n, l := e.Srv.OpenTxCount(), e.Srv.HeldLocks(); n != 0 || l != 0 {
		x.leak = fmt.Sprintf("open transactions %d, row locks %d", n, l)
		e.Srv.Crash()
	}
	return x
}

type Located struct {
	Scenario Scenario `json:"scenario"`
	Choices  []int    `json:"choices"`
	Trace    []string `json:"trace"`
}

const clauseText = "a branch rollback racing the branch's own phase one: whenever a delivery answers rollbacked the business tables end in the pre-state, the redelivery answers rollbacked, nothing is left open and nothing blocks for good"

func check(sc Scenario, x execResult) (clause, detail string) {
	if x.res.Diverged != "" || x.res.Horizon {
		return "", ""
	}
	if len(x.stuck) > 0 {
		return "never-terminates", fmt.Sprintf("threads never finished: %v", x.stuck)
	}
	if x.noBranch {
		return "", "" // registration failed or never happened: nothing to roll back
	}
	answered := x.redeliv == rollbacked
	for _, st := range x.statuses {
		if st == rollbacked {
			answered = true
		}
	}
	if x.redeliv != rollbacked {
		// a redelivery may legitimately report a retryable failure only if it then left everything as it was; with the
		// phase one finished and no fault injected there is no reason left to fail
		return "redelivery-not-rollbacked", fmt.Sprintf("first delivery answered %v, the clean redelivery answered %d", x.statuses, x.redeliv)
	}
	if answered && x.final != x.pre {
		return "rollbacked-but-not-restored", fmt.Sprintf("deliveries answered %v / redelivery %d (phase one error %q), yet the business tables are %s, expected %s", x.statuses, x.redeliv, x.bizErr, x.final, x.pre)
	}
	if x.leak != "" {
		return "leak", x.leak
	}
	return "", ""
}

var deadline time.Time

func explore(r *rep.Run, sc Scenario, shard, nshards int) {
	maxExec := 48000
	if r.Tier == "thorough" {
		maxExec = 480000
	}
	ex := &vsched.Explorer{Bound: sc.Bound, MaxExec: maxExec / nshards, Shard: shard, NShards: nshards, Deadline: deadline}
	outcomes := map[string]bool{}
	ex.RunOne = func(prefix []int) vsched.Result {
		x := runOne(sc, prefix)
		if ex.Silent {
			return x.res
		}
		raced := false
		for _, l := range x.log {
			if strings.HasPrefix(l, "E:coordinator-decides-rollback") {
				raced = true
			}
		}
		r.Eval(raced)
		r.Count("partD_schedule_points", int64(len(x.res.Points)))
		if x.res.Diverged != "" {
			r.Count("partD_diverged", 1)
		}
		outcomes[fmt.Sprintf("first=%v redelivery=%d phase-one-failed=%v restored=%v", x.statuses, x.redeliv, x.bizErr != "", x.final == x.pre)] = true
		if clause, detail := check(sc, x); clause != "" {
			r.Violate("partD/"+clause+"/"+sc.Name, clauseText, Located{sc, x.res.Choices, x.log}, detail+" | client errors: "+strings.Join(sys.TakeErrors(), " || ")+" | schedule: "+strings.Join(x.log, " ; "))
		}
		return x.res
	}
	ex.Check = func(vsched.Result) {}
	ex.Explore(nil)
	r.Count("partD_executions/"+sc.Name, int64(ex.Executions))
	var keys []string
	for k := range outcomes {
		keys = append(keys, k)
	}
	r.Extra[fmt.Sprintf("partD_outcomes/%s/shard%d", sc.Name, shard)] = keys
	if ex.Capped {
		r.Exhaustive = false
		r.Count("partD_capped/"+sc.Name, 1)
	}
}

// RunD: driver (re-executes itself as 16 workers) or worker.
func RunD(r *rep.Run) {
	thorough := r.Tier == "thorough"
	if os.Getenv("VERIF_C10D_WORKER") == "" {
		os.Setenv("VERIF_C10D_WORKER", "1")
		defer os.Unsetenv("VERIF_C10D_WORKER")
		rep.RunSharded(r, 16, 45*time.Minute)
		union := map[string]map[string]bool{}
		for k, v := range r.Extra {
			if !strings.HasPrefix(k, "partD_outcomes/") {
				continue
			}
			name := strings.Split(k, "/")[1]
			if union[name] == nil {
				union[name] = map[string]bool{}
			}
			if l, ok := v.([]interface{}); ok {
				for _, o := range l {
					union[name][fmt.Sprint(o)] = true
				}
			}
			delete(r.Extra, k)
		}
		for name, m := range union {
			r.Count("partD_distinct_outcomes/"+name, int64(len(m)))
			var l []string
			for o := range m {
				l = append(l, o)
			}
			r.Extra["partD_outcomes_seen/"+name] = l
		}
		return
	}
	shard, nshards, _ := rep.Shard()
	var err error
	env, err = sys.NewEnv([]string{gen.S1.DDL}, sys.Options{NoXA: true, Concurrent: true})
	if err != nil {
		r.Broken = err.Error()
		return
	}
	quiet.Spin(nil, 5)
	runtime.GOMAXPROCS(1)
	deadline = time.Now().Add(2 * time.Minute)
	if thorough {
		deadline = time.Now().Add(15 * time.Minute)
	}
	scs := scenarios(thorough)
	runOne(scs[0], nil) // warm-up: table metadata
	for i, sc := range scs {
		if i%nshards == shard {
			a, b := runOne(sc, nil), runOne(sc, nil)
			ja, _ := json.Marshal(a.res.Points)
			jb, _ := json.Marshal(b.res.Points)
			if string(ja) != string(jb) {
				r.Count("partD_probe_not_deterministic/"+sc.Name, 1)
				r.Exhaustive = false
			}
		}
		explore(r, sc, shard, nshards)
	}
}

var _ = memdb.Snapshot{}
