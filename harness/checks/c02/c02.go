// Package c02: AT phase one is atomic and ordered against the coordinator (Mode F).
package c02

import (
	"context"
	"database/sql"
	"database/sql/driver"
	"encoding/json"
	"fmt"
	"os"
	"seata.apache.org/seata-go/pkg/datasource/sql/types"
	"seata.apache.org/seata-go/pkg/datasource/sql/undo/base"
	"sort"
	"strings"
	"time"

	"github.com/go-sql-driver/mysql"

	"seata.apache.org/seata-go/pkg/protocol/branch"
	"seata.apache.org/seata-go/pkg/protocol/message"
	"seata.apache.org/seata-go/pkg/tm"
	"seata.apache.org/seata-go/pkg/util/vshim/vtime"

	"verifharness/atrun"
	"verifharness/faketc"
	"verifharness/gen"
	"verifharness/memdb"
	"verifharness/rep"
	"verifharness/sys"
)

// Deviation is one departure from the fault-free environment.
type Deviation struct {
	Kind string `json:"kind"` // db-error | db-badconn | db-crash | register-(lockconflict|fail|transport|drop) | report-fail
	Step int    `json:"step"` // db-*: index of the database operation counted from the start of the business callback
	N    int    `json:"n"`    // report-fail: number of consecutive failing answers (99 = always)
}

type Case struct {
	Program gen.Program `json:"program"`
	Devs    []Deviation `json:"deviations"`
}

type Located struct {
	Idx  int    `json:"idx"`
	Tier string `json:"tier"`
	Case Case   `json:"case"`
}

func pick(s *gen.Schema, names ...string) []gen.Stmt {
	var out []gen.Stmt
	for _, n := range names {
		for _, st := range s.Alphabet(true) {
			if st.Name == n {
				out = append(out, st)
			}
		}
	}
	return out
}

func alphabet(s *gen.Schema) []gen.Stmt {
	switch s.ID {
	case "s1":
		return pick(s, "ins-bound", "upd-key-bound", "del-key-bound", "ups-update", "upd-many")
	case "s2":
		return pick(s, "ins-auto", "upd-key", "del-key", "ups-update")
	case "s3":
		return pick(s, "upd-key", "del-key", "upd-partial-key")
	}
	return nil
}

func programs(thorough bool) []gen.Program {
	var out []gen.Program
	for _, s := range []*gen.Schema{&gen.S1, &gen.S2, &gen.S3} {
		al := alphabet(s)
		for _, st := range al {
			for _, g := range []int{0, 1} {
				for _, pinned := range []bool{false, true} {
					out = append(out, gen.Program{Schema: s.ID, Steps: []gen.Step{{Stmt: st, Group: g}}, Pinned: pinned, Init: []int{0, 1, 2}})
				}
			}
		}
		// pinned connection, business code that carries on after a failed local transaction
		for _, a := range al {
			for _, part := range [][]int{{1, 0}, {0, 0}, {1, 2}} {
				out = append(out, gen.Program{Schema: s.ID, Steps: []gen.Step{{Stmt: a, Group: part[0]}, {Stmt: al[1], Group: part[1]}}, Pinned: true, ContinueOnError: true, Init: []int{0, 1, 2}})
			}
		}
		// ... and business code that carries on inside the same local transaction after one of its statements failed, and commits it
		for _, a := range al {
			for _, pinned := range []bool{false, true} {
				out = append(out, gen.Program{Schema: s.ID, Steps: []gen.Step{{Stmt: a, Group: 1}, {Stmt: al[1], Group: 1}}, Pinned: pinned, ContinueOnError: true, KeepTx: true, Init: []int{0, 1, 2}})
			}
		}
		// two connections: the first step's connection stays checked out, the second step reaches the database on another one
		for i, a := range al {
			for j, b := range al {
				if !thorough && (i+j)%2 == 1 {
					continue
				}
				for _, part := range [][]int{{0, 0}, {1, 2}, {0, 1}} {
					out = append(out, gen.Program{Schema: s.ID, Steps: []gen.Step{{Stmt: a, Group: part[0]}, {Stmt: b, Group: part[1]}}, TwoConns: true, Init: []int{0, 1, 2}})
				}
			}
		}
		// length 2: same local transaction, and two local transactions
		for i, a := range al {
			for j, b := range al {
				if !thorough && (i+j)%2 == 1 {
					continue
				}
				for _, part := range [][]int{{1, 1}, {0, 0}, {1, 2}} {
					out = append(out, gen.Program{Schema: s.ID, Steps: []gen.Step{{Stmt: a, Group: part[0]}, {Stmt: b, Group: part[1]}}, Init: []int{0, 1, 2}})
				}
			}
		}
	}
	return out
}

type runResult struct {
	obs       *atrun.Obs
	dbOps     int // database operations issued during the business callback
	registers int
	reports   int
	clientErr []string
	follow    string // outcome of the follow-up statement
	openTx    int
	locks     int
	crashPre  []memdb.Snapshot
}

type env struct {
	e *sys.Env
}

// run executes the program with the deviations applied.
func run(e *sys.Env, c Case) (*runResult, string) {
	s := gen.SchemaByID(c.Program.Schema)
	if err := atrun.Reset(e, s, c.Program.Init); err != nil {
		return nil, err.Error()
	}
	rr := &runResult{}
	drops := 0
	vtime.SetVirtual(func(d time.Duration) bool {
		if d >= 20*time.Second {
			if drops > 0 {
				drops--
				return true
			}
			return false
		}
		return true
	})
	defer vtime.SetPassThrough()
	opCount := 0
	inBusiness := false
	self := memdb.GoroutineID()
	e.Srv.WantGID = true
	e.Srv.Fault = func(op memdb.Op) error {
		if !inBusiness || op.Kind == "connect" || op.GID != self {
			return nil // only the business thread's own database operations are steps
		}
		k := opCount
		opCount++
		for _, d := range c.Devs {
			if d.Step != k {
				continue
			}
			switch d.Kind {
			case "db-error":
				return &mysql.MySQLError{Number: 1205, Message: "Lock wait timeout exceeded; try restarting transaction (injected)"}
			case "db-badconn":
				return driver.ErrBadConn
			}
		}
		return nil
	}
	regSeen, repSeen := 0, 0
	e.TC.Script = func(tc *faketc.TC, req message.RpcMessage) faketc.Answer {
		switch req.Body.(type) {
		case message.BranchRegisterRequest:
			regSeen++
			for _, d := range c.Devs {
				if strings.HasPrefix(d.Kind, "register-") && d.Step == regSeen-1 {
					k := strings.TrimPrefix(d.Kind, "register-")
					if k == "drop" {
						drops++
					}
					return faketc.Answer{Kind: k, Msg: "injected"}
				}
			}
		case message.BranchReportRequest:
			repSeen++
			for _, d := range c.Devs {
				if d.Kind == "report-fail" && repSeen <= d.N {
					return faketc.Answer{Kind: "transport"}
				}
			}
		}
		return faketc.Answer{}
	}
	sys.TakeErrors()
	// the business callback is bracketed so that only its database operations are counted as steps
	p := c.Program
	inBusiness = true
	o := atrun.RunGlobal(e, p, "commit", func() { inBusiness = false })
	inBusiness = false
	e.Srv.Fault = nil
	e.TC.Script = nil
	rr.obs = o
	rr.dbOps = opCount
	rr.registers, rr.reports = regSeen, repSeen
	rr.clientErr = sys.TakeErrors()
	rr.openTx, rr.locks = e.Srv.OpenTxCount(), e.Srv.HeldLocks()
	// follow-up statement on the pool, outside any global transaction
	if _, err := e.AT.Exec("UPDATE " + s.Table + " SET cnt = cnt WHERE 1 = 0"); err != nil {
		rr.follow = err.Error()
	}
	return rr, ""
}

func isBusinessTable(t string) bool { return strings.ToLower(t) != "undo_log" }

// check applies the oracles; base is the fault-free run of the same program.
func check(c Case, rr *runResult) (clause, detail string) {
	o := rr.obs
	d := func(f string, a ...interface{}) string { return fmt.Sprintf(f, a...) }
	// (a) atomicity per commit write set, (b) order against the registration reply
	var regReplies []int64
	var reports []message.BranchReportRequest
	for _, ev := range o.Events {
		if r, ok := ev.Msg.Body.(message.BranchRegisterResponse); ok && ev.Dir == "s2c" && r.ResultCode == message.ResultCodeSuccess {
			regReplies = append(regReplies, ev.G)
		}
		if r, ok := ev.Msg.Body.(message.BranchReportRequest); ok && ev.Dir == "c2s" {
			reports = append(reports, r)
		}
	}
	end := o.MidJournalLen
	if end > len(o.Journal) {
		end = len(o.Journal)
	}
	nCommitsWithData := 0
	for _, j := range o.Journal[:end] {
		if j.Kind != "commit" || len(j.Diff) == 0 {
			continue
		}
		hasBiz, hasUndo := false, false
		for _, ch := range j.Diff {
			if isBusinessTable(ch.Table) {
				hasBiz = true
			} else if ch.After != nil {
				hasUndo = true
			}
		}
		// (an undo-log row without business writes only means the statement matched rows without changing them)
		if hasBiz && !hasUndo {
			return "atomicity", d("a local COMMIT made business writes durable without their undo log (or the reverse): business=%v undo=%v writeset=%v", hasBiz, hasUndo, j.Diff)
		}
		if hasBiz {
			nCommitsWithData++
			ok := false
			for _, g := range regReplies {
				if g < j.G {
					ok = true
				}
			}
			if !ok {
				return "order", d("local COMMIT (event %d) with business writes was issued without a preceding successful BranchRegister reply (replies at %v)", j.G, regReplies)
			}
		}
	}
	if nCommitsWithData > len(regReplies) {
		return "order", d("%d local commits with data but only %d successful registrations", nCommitsWithData, len(regReplies))
	}
	// (c) failure: a failed step commits nothing and returns an error
	injected := len(c.Devs) > 0
	failedStep := -1
	for i, sr := range o.Steps {
		if sr.Err != "" || sr.Panic != "" {
			failedStep = i
		}
	}
	commitFailed := len(o.CommitErrs) > 0
	if failedStep >= 0 && len(o.StepMarks) > failedStep+1 {
		lo, hi := o.StepMarks[failedStep], o.StepMarks[failedStep+1]
		grp := c.Program.Steps[failedStep].Group
		for _, j := range o.Journal[lo:min(hi, len(o.Journal))] {
			if j.Kind == "commit" && len(j.Diff) > 0 && grp == 0 {
				return "failed-but-committed", d("step %d returned %q but its local transaction committed %v", failedStep, o.Steps[failedStep].Err, j.Diff)
			}
		}
	}
	for _, dv := range c.Devs {
		switch {
		case strings.HasPrefix(dv.Kind, "register-"):
			// registration refused: the caller gets an error for that local transaction
			if failedStep < 0 && !commitFailed && o.BusinessErr == "" && rr.registers > dv.Step {
				return "failure-swallowed", d("registration #%d was answered %s but no error reached the caller", dv.Step, dv.Kind)
			}
		case dv.Kind == "db-error": // (a lost connection may legitimately be absorbed by database/sql's retry on a fresh connection)
			if dv.Step < rr.dbOps && failedStep < 0 && !commitFailed && o.BusinessErr == "" {
				return "failure-swallowed", d("database operation #%d failed (%s) but no error reached the caller", dv.Step, dv.Kind)
			}
		}
	}
	// an already registered branch whose local transaction failed is reported phase-one-failed
	if (failedStep >= 0 || commitFailed) && injected {
		regOK := len(regReplies)
		okReports, failReports := 0, 0
		for _, r := range reports {
			if r.Status == branch.BranchStatusPhaseoneFailed {
				failReports++
			} else if r.Status == branch.BranchStatusPhaseoneDone {
				okReports++
			}
		}
		alwaysFailReport := false
		for _, dv := range c.Devs {
			if dv.Kind == "report-fail" && dv.N >= 5 {
				alwaysFailReport = true
			}
		}
		if regOK > nCommitsWithData && failReports == 0 && !alwaysFailReport {
			return "no-phase-one-failed-report", d("%d branches registered, %d committed, but no BranchReport(PhaseOneFailed) was sent (reports: %d done / %d failed)", regOK, nCommitsWithData, okReports, failReports)
		}
	}
	// (d) hygiene - unless the environment refused the ROLLBACK itself, which leaves the client nothing to clean up with
	rollbackRefused := false
	for _, j := range o.Journal {
		if j.Kind == "rollback" && j.Injected {
			rollbackRefused = true
		}
	}
	if (rr.openTx != 0 || rr.locks != 0) && !rollbackRefused {
		return "hygiene", d("after control returned %d pooled connection(s) sit in an open transaction holding %d row lock(s)", rr.openTx, rr.locks)
	}
	if rr.follow != "" {
		return "hygiene-followup", d("a follow-up statement outside any global transaction failed: %s", rr.follow)
	}
	return "", ""
}

func min(a, b int) int {
	if a < b {
		return a
	}
	return b
}

// Enumerate runs the fault-free execution of each program to learn its step list, then yields every deviation within the bound.
func Enumerate(e *sys.Env, thorough bool, yield func(idx int, c Case)) int {
	idx := 0
	for _, p := range programs(thorough) {
		base, _ := run(e, Case{Program: p})
		if os.Getenv("VERIF_DEBUG_DET") != "" && base != nil {
			j1 := e.Srv.Journal()
			b2, _ := run(e, Case{Program: p})
			if b2 != nil && (b2.dbOps != base.dbOps || b2.registers != base.registers) {
				fmt.Printf("NONDET program=%s ops %d vs %d\n", shape(p), base.dbOps, b2.dbOps)
				for _, j := range j1 {
					fmt.Printf("   A c%d %s %.80q\n", j.Conn, j.Kind, j.SQL)
				}
				for _, j := range e.Srv.Journal() {
					fmt.Printf("   B c%d %s %.80q\n", j.Conn, j.Kind, j.SQL)
				}
			}
		}
		yield(idx, Case{Program: p})
		idx++
		if base == nil {
			continue
		}
		var singles []Deviation
		for k := 0; k < base.dbOps; k++ {
			singles = append(singles, Deviation{Kind: "db-error", Step: k}, Deviation{Kind: "db-badconn", Step: k})
		}
		for k := 0; k < base.registers; k++ {
			for _, kind := range []string{"lockconflict", "fail", "transport", "drop"} {
				singles = append(singles, Deviation{Kind: "register-" + kind, Step: k})
			}
		}
		if base.reports > 0 {
			for _, n := range []int{1, 2, 4, 5, 99} {
				singles = append(singles, Deviation{Kind: "report-fail", N: n})
			}
		}
		for _, d := range singles {
			yield(idx, Case{Program: p, Devs: []Deviation{d}})
			idx++
		}
		if thorough && len(p.Steps) == 1 {
			for i := range singles {
				for j := i + 1; j < len(singles); j++ {
					yield(idx, Case{Program: p, Devs: []Deviation{singles[i], singles[j]}})
					idx++
				}
			}
		} else if len(p.Steps) == 1 {
			// quick tier: the one double deviation whose second half is not a step of its own - a database error at any step
			// while the phase-one-failed report can never be delivered
			for _, d := range singles {
				if d.Kind == "db-error" {
					yield(idx, Case{Program: p, Devs: []Deviation{d, {Kind: "report-fail", N: 99}}})
					idx++
				}
			}
		}
	}
	return idx
}

func devSig(ds []Deviation, rr *runResult) string {
	if len(ds) == 0 {
		return "none"
	}
	var parts []string
	for _, d := range ds {
		k := d.Kind
		if strings.HasPrefix(k, "db-") && rr != nil {
			k += "@" + stepName(rr, d.Step)
		}
		if d.Kind == "report-fail" {
			if d.N >= 5 {
				k += "-all"
			} else {
				k += "-some"
			}
		}
		parts = append(parts, k)
	}
	return strings.Join(parts, "+")
}

// stepName names the k-th database operation of the business callback by what it does.
func stepName(rr *runResult, k int) string {
	n := 0
	for _, j := range rr.obs.Journal {
		if j.Kind == "connect" || j.Kind == "close" || (j.Kind == "commit" && j.SQL == "(autocommit)") {
			continue
		}
		if n == k {
			q := strings.ToUpper(strings.TrimSpace(j.SQL))
			switch {
			case j.Kind == "begin":
				return "begin"
			case j.Kind == "commit":
				return "commit"
			case j.Kind == "rollback":
				return "rollback"
			case strings.Contains(q, "INFORMATION_SCHEMA"):
				return "metadata"
			case strings.Contains(q, "UNDO_LOG"):
				return j.Kind + "-undo-insert"
			case strings.HasPrefix(q, "SELECT") && strings.Contains(q, "FOR UPDATE"):
				return "before-image"
			case strings.HasPrefix(q, "SELECT"):
				return "after-image"
			case strings.HasPrefix(q, "SHOW"):
				return "show-variables"
			}
			return j.Kind + "-business"
		}
		n++
	}
	return fmt.Sprintf("op%d", k)
}

func shape(p gen.Program) string {
	var g []string
	for _, s := range p.Steps {
		if s.Group == 0 {
			g = append(g, "a")
		} else {
			g = append(g, fmt.Sprintf("t%d", s.Group))
		}
	}
	out := strings.Join(g, "")
	if p.Pinned {
		out += "-pinned"
	}
	if p.TwoConns {
		out += "-twoconns"
	}
	if p.ContinueOnError {
		out += "-continue"
	}
	if p.KeepTx {
		out += "-sametx"
	}
	return out
}

// imageKeys lists the rows named by the undo-log images that each successful local commit wrote ("table/before|after/pk").
func imageKeys(e *sys.Env, journal []memdb.Entry) []string {
	var out []string
	ut := e.Srv.TableDef("undo_log")
	if ut == nil {
		return nil
	}
	ci, ii := ut.ColIndexPublic("context"), ut.ColIndexPublic("rollback_info")
	for _, j := range journal {
		if j.Kind != "commit" || j.Err != "" {
			continue
		}
		for _, d := range j.Diff {
			if !strings.EqualFold(d.Table, "undo_log") || d.After == nil || ci < 0 || ii < 0 {
				continue
			}
			func() {
				defer func() { recover() }()
				bl, err := base.VerifDecode(memdb.TextOf(d.After[ci]), memdb.TextOf(d.After[ii]))
				if err != nil || bl == nil {
					out = append(out, "(undecodable undo log)")
					return
				}
				for _, l := range bl.Logs {
					for which, img := range map[string]*types.RecordImage{"before": l.BeforeImage, "after": l.AfterImage} {
						if img == nil {
							continue
						}
						for _, row := range img.Rows {
							var pk []string
							for _, col := range row.Columns {
								if col.KeyType == types.IndexTypePrimaryKey {
									v := col.Value
									if b, ok := v.([]byte); ok {
										v = string(b)
									}
									pk = append(pk, fmt.Sprintf("%s=%v", strings.ToLower(col.ColumnName), v))
								}
							}
							sort.Strings(pk)
							out = append(out, fmt.Sprintf("%s/%s/%s", strings.ToLower(l.TableName), which, strings.Join(pk, ",")))
						}
					}
				}
			}()
		}
	}
	sort.Strings(out)
	return out
}

// writtenRowsHaveImages: every business row a successful local commit makes durable is named by an image of the undo log
// written with that commit (otherwise a global rollback cannot undo it).
func writtenRowsHaveImages(e *sys.Env, c Case, rr *runResult) (clause, detail string) {
	ut := e.Srv.TableDef("undo_log")
	if ut == nil {
		return "", ""
	}
	for _, j := range rr.obs.Journal {
		if j.Kind != "commit" || j.Err != "" {
			continue
		}
		hasUndo := false
		for _, d := range j.Diff {
			if strings.EqualFold(d.Table, "undo_log") && d.After != nil {
				hasUndo = true
			}
		}
		if !hasUndo {
			continue // the coarse clause (business without any undo log) is judged by check()
		}
		keys := map[string]bool{}
		for _, k := range imageKeys(e, []memdb.Entry{j}) {
			parts := strings.SplitN(k, "/", 3)
			if len(parts) == 3 {
				keys[parts[0]+"/"+parts[2]] = true
			}
		}
		for _, d := range j.Diff {
			if !isBusinessTable(d.Table) {
				continue
			}
			t := e.Srv.TableDef(d.Table)
			if t == nil {
				continue
			}
			row := d.After
			if row == nil {
				row = d.Before
			}
			var pk []string
			for _, ci := range t.PK {
				pk = append(pk, fmt.Sprintf("%s=%s", strings.ToLower(t.Cols[ci].Name), memdb.TextOf(row[ci])))
			}
			sort.Strings(pk)
			k := strings.ToLower(d.Table) + "/" + strings.Join(pk, ",")
			if !keys[k] {
				return "written-row-without-image", fmt.Sprintf("the local commit made a write to %s durable that no image of its undo log names (images: %v)", k, imageKeys(e, []memdb.Entry{j}))
			}
		}
	}
	return "", ""
}

// failedStatementLeavesNoImage: in a transaction that carries on after one of its statements failed at the database, the
// images written with the commit are those of the same program without that statement.
func failedStatementLeavesNoImage(e *sys.Env, c Case, rr *runResult) (clause, detail string) {
	if !c.Program.ContinueOnError || len(c.Devs) != 1 || c.Devs[0].Kind != "db-error" || stepName(rr, c.Devs[0].Step) != "exec-business" {
		return "", ""
	}
	failed := -1
	for i, st := range rr.obs.Steps {
		if st.Err != "" || st.Panic != "" {
			if failed >= 0 {
				return "", ""
			}
			failed = i
		}
	}
	if failed < 0 || len(rr.obs.Steps) != len(c.Program.Steps) {
		return "", ""
	}
	got := imageKeys(e, rr.obs.Journal)
	ref := c.Program
	ref.Steps = append(append([]gen.Step{}, c.Program.Steps[:failed]...), c.Program.Steps[failed+1:]...)
	if len(ref.Steps) == 0 {
		return "", ""
	}
	rr2, broken := run(e, Case{Program: ref})
	if broken != "" || rr2 == nil {
		return "", ""
	}
	want := imageKeys(e, rr2.obs.Journal)
	if strings.Join(got, ";") != strings.Join(want, ";") {
		return "failed-statement-left-images", fmt.Sprintf("statement %d (%s) failed at the database and the transaction carried on: the committed undo log names %v, the same program without that statement records %v", failed, c.Program.Steps[failed].Stmt.Name, got, want)
	}
	return "", ""
}

// keeper is the connection of the very first AT transaction of the process. It stays checked out (idle) for the whole run,
// so that whatever the client caches at first use and wrongly ties to that connection (a prepared statement, say) is still
// alive - and shows - when the later transactions run on other connections.
var keeper *sql.Conn

func keepFirstUse(e *sys.Env) {
	if keeper != nil {
		return
	}
	if err := atrun.Reset(e, &gen.S1, []int{0, 1, 2}); err != nil {
		return
	}
	c, err := e.AT.Conn(context.Background())
	if err != nil {
		return
	}
	var xid string
	tm.WithGlobalTx(context.Background(), &tm.GtxConfig{Name: "c02-first-use"}, func(ctx context.Context) error {
		xid = tm.GetXID(ctx)
		_, err := c.ExecContext(ctx, "UPDATE t_s1 SET cnt = cnt + 1 WHERE id = 1")
		return err
	})
	if xid != "" {
		e.TC.DriveCommit(xid)
	}
	keeper = c
}

func evalCase(r *rep.Run, e *sys.Env, c Case, idx int) {
	rr, broken := run(e, c)
	if broken != "" {
		r.Broken = broken
		return
	}
	r.Eval(len(c.Devs) > 0)
	if idx%101 == 0 {
		r.Sample(map[string]interface{}{"program": c.Program.Names(), "schema": c.Program.Schema, "deviations": c.Devs, "db_steps": rr.dbOps, "registrations": rr.registers, "reports": rr.reports, "business_error": rr.obs.BusinessErr})
	}
	clause, detail := check(c, rr)
	if clause == "" {
		clause, detail = failedStatementLeavesNoImage(e, c, rr)
	}
	if clause == "" {
		clause, detail = writtenRowsHaveImages(e, c, rr)
	}
	if os.Getenv("VERIF_TRACE") != "" {
		fmt.Printf("==== %d %s devs=%v clause=%s %s\n", idx, c.Program.Names(), c.Devs, clause, detail)
		for _, j := range rr.obs.Journal {
			fmt.Printf("  db %d c%d t%d %s %q err=%q inj=%v diff=%d\n", j.G, j.Conn, j.Txn, j.Kind, j.SQL, j.Err, j.Injected, len(j.Diff))
		}
		for _, ev := range rr.obs.Events {
			fmt.Printf("  tc %d %s %T %s\n", ev.G, ev.Dir, ev.Msg.Body, ev.Note)
		}
		fmt.Printf("  steps=%+v commitErrs=%v businessErr=%q errors=%v openTx=%d locks=%d\n", rr.obs.Steps, rr.obs.CommitErrs, rr.obs.BusinessErr, rr.clientErr, rr.openTx, rr.locks)
	}
	if clause == "" {
		return
	}
	kinds := c.Program.Kinds()
	sig := fmt.Sprintf("%s/%s/%s/%s/%s", clause, c.Program.Schema, kinds, shape(c.Program), devSig(c.Devs, rr))
	r.Violate(sig, "business writes and undo log are durable together or not at all; local commit only after registration; a failed step commits nothing, returns an error, is reported phase-one-failed, and the pooled connection is not handed back inside an open transaction",
		Located{idx, r.Tier, c}, fmt.Sprintf("%s | program=%s deviations=%v steps=%+v commitErrs=%v businessErr=%q client errors: %s", detail, c.Program.Names(), c.Devs, rr.obs.Steps, rr.obs.CommitErrs, rr.obs.BusinessErr, strings.Join(rr.clientErr, " || ")))
}

func Run(r *rep.Run) {
	thorough := r.Tier == "thorough"
	r.Rule = "programs of 1-2 statements from a reduced alphabet (insert, update, delete, upsert, multi-row update) over s1 (single key), s2 (auto-increment), s3 (composite key), in autocommit and explicit local transactions, pool, pinned connection and two connections (the first step's connection stays checked out); the fault-free run is recorded as a step list (every database operation of the business callback, every BranchRegister, the BranchReport), then re-run with every single deviation (thorough: every pair for length-1 programs): " +
		"database error / connection loss at step k, registration answered lock-conflict / failure / transport error / no reply (virtual timeout), report failing 1, 2, 4, 5 or all attempts. Non-trivial = at least one deviation."
	r.Assume = []string{"memdb assumptions A1-A7; a failed COMMIT leaves nothing committed (the server rolls back)", "connection loss = the statement fails with driver.ErrBadConn and the server drops the connection's transaction", "time is virtual (overlay)"}
	shard, nshards, worker := rep.Shard()
	if !worker {
		if replay := os.Getenv("VERIF_REPLAY"); replay != "" {
			b, err := os.ReadFile(replay)
			if err != nil {
				r.Broken = err.Error()
				return
			}
			var f struct {
				Case Located `json:"case"`
			}
			json.Unmarshal(b, &f)
			e := atrun.EnvFor("c02", sys.Options{NoXA: true})
			keepFirstUse(e)
			for i := 0; i < 3; i++ {
				evalCase(r, e, f.Case.Case, f.Case.Idx)
			}
			return
		}
		rep.RunSharded(r, 16, 25*time.Minute)
		return
	}
	e := atrun.EnvFor("c02", sys.Options{NoXA: true})
	keepFirstUse(e)
	Enumerate(e, thorough, func(idx int, c Case) {
		if idx%nshards != shard {
			return
		}
		evalCase(r, e, c, idx)
	})
}
