// Package c04: exactly one truthful decision per global transaction (Mode S/F, single thread, virtual time).
package c04

import (
	"context"
	"encoding/json"
	"fmt"
	"os"
	"strings"
	"sync"
	"time"

	"seata.apache.org/seata-go/pkg/protocol/message"
	"seata.apache.org/seata-go/pkg/tm"
	"seata.apache.org/seata-go/pkg/util/vshim/vtime"

	"verifharness/faketc"
	"verifharness/rep"
	"verifharness/sys"
)

type Case struct {
	Callback string   `json:"callback"` // nil | error | panic
	Begin    string   `json:"begin"`    // ok | fail | transport | drop
	Second   []string `json:"second"`   // answers to successive second-phase requests
	Retries  int      `json:"retries"`  // configured commit/rollback retry count (0 = unbounded)
	Cancel   string   `json:"cancel"`   // never | before-begin | in-callback | after-callback | after-attempt-K
	Role     string   `json:"role"`     // initiator | participant
}

type Located struct {
	Idx  int    `json:"idx"`
	Tier string `json:"tier"`
	Case Case   `json:"case"`
}

var answers = []string{"ok", "fail", "transport", "drop"}

func seqs(n int) [][]string {
	if n == 0 {
		return [][]string{{}}
	}
	var out [][]string
	for _, s := range seqs(n - 1) {
		for _, a := range answers {
			out = append(out, append(append([]string{}, s...), a))
		}
	}
	return out
}

// effective truncates a sequence after its first terminal answer (ok/fail end the exchange).
func effective(s []string) []string {
	for i, a := range s {
		if a == "ok" || a == "fail" {
			return s[:i+1]
		}
	}
	return s
}

func Enumerate(thorough bool, yield func(idx int, c Case)) int {
	idx := 0
	emit := func(c Case) {
		yield(idx, c)
		idx++
	}
	for _, cb := range []string{"nil", "error", "panic", "panic-error", "panic-int", "panic-struct"} {
		// no transaction bound at all: a scope that runs its callback outside any global transaction (propagation NotSupported,
		// Never, or Supports with nothing to join) still has to report the callback's outcome truthfully and send nothing
		for _, role := range []string{"outside-notsupported", "outside-never", "outside-supports", "outside-notsupported-suspending"} {
			emit(Case{cb, "ok", nil, 3, "never", role})
		}
		// participant: no coordinator traffic at all
		for _, cancel := range []string{"never", "in-callback"} {
			emit(Case{cb, "ok", nil, 3, cancel, "participant"})
		}
		for _, begin := range answers {
			for _, cancel := range []string{"never", "before-begin"} {
				if begin != "ok" {
					emit(Case{cb, begin, nil, 3, cancel, "initiator"})
				}
			}
		}
		for _, R := range []int{1, 2, 3, 0} {
			horizon := R + 1
			if R == 0 {
				horizon = 4
			}
			seen := map[string]bool{}
			for _, s := range seqs(horizon) {
				e := effective(s)
				if R == 0 && len(e) == horizon && e[len(e)-1] != "ok" && e[len(e)-1] != "fail" {
					// unbounded retries: the horizon ends with a terminal answer so that the run ends
					e = append(append([]string{}, e...), "ok")
				}
				k := strings.Join(e, ",")
				if seen[k] {
					continue
				}
				seen[k] = true
				cancels := []string{"never", "before-begin", "in-callback"}
				for a := 1; a <= len(e); a++ {
					cancels = append(cancels, fmt.Sprintf("after-attempt-%d", a))
				}
				if !thorough && len(e) > 2 {
					cancels = []string{"never", "in-callback", fmt.Sprintf("after-attempt-%d", len(e)-1)}
				}
				for _, cancel := range cancels {
					emit(Case{cb, "ok", e, R, cancel, "initiator"})
				}
			}
		}
	}
	return idx
}

type observed struct {
	Ret       string
	RetNil    bool
	Escaped   string // panic that escaped WithGlobalTx
	Begins    int
	Commits   []string // answers given to commit requests for the xid
	Rollbacks []string
	Xid       string
	CbRan     bool
	CbXid     string
}

var (
	envOnce sync.Once
	env     *sys.Env
)

func getEnv() *sys.Env {
	envOnce.Do(func() {
		e, err := sys.NewEnv(nil, sys.Options{NoXA: true, NoAT: true})
		if err != nil {
			panic(err)
		}
		env = e
	})
	return env
}

func runCase(c Case) observed {
	e := getEnv()
	e.TC.ResetState()
	// the retry setting under test applies to the decision this case expects; the other decision's setting is
	// deliberately different, so that using the wrong one is visible
	cr, rr := c.Retries, c.Retries+2
	if c.Callback != "nil" {
		cr, rr = c.Retries+2, c.Retries
	}
	tm.InitTm(tm.TmConfig{CommitRetryCount: cr, RollbackRetryCount: rr, DefaultGlobalTransactionTimeout: 60 * time.Second})
	drops := 0
	vtime.SetVirtual(func(d time.Duration) bool {
		if d >= 20*time.Second { // the RPC timeout: expires only for a request the coordinator dropped
			if drops > 0 {
				drops--
				return true
			}
			return false
		}
		return true // back-off waits elapse at once
	})
	defer vtime.SetPassThrough()
	ctx, cancel := context.WithCancel(context.Background())
	defer cancel()
	var ob observed
	attempt := 0
	e.TC.Script = func(tc *faketc.TC, req message.RpcMessage) faketc.Answer {
		ans := "ok"
		switch req.Body.(type) {
		case message.GlobalBeginRequest:
			ob.Begins++
			ans = c.Begin
		case message.GlobalCommitRequest, message.GlobalRollbackRequest:
			if attempt < len(c.Second) {
				ans = c.Second[attempt]
			}
			attempt++
			if _, isC := req.Body.(message.GlobalCommitRequest); isC {
				ob.Commits = append(ob.Commits, ans)
			} else {
				ob.Rollbacks = append(ob.Rollbacks, ans)
			}
			if c.Cancel == fmt.Sprintf("after-attempt-%d", attempt) {
				cancel()
			}
		default:
			return faketc.Answer{}
		}
		switch ans {
		case "fail":
			return faketc.Answer{Kind: "fail", Msg: "injected failure result"}
		case "transport":
			return faketc.Answer{Kind: "transport"}
		case "drop":
			drops++
			return faketc.Answer{Kind: "drop"}
		}
		return faketc.Answer{}
	}
	if c.Cancel == "before-begin" {
		cancel()
	}
	if c.Role == "participant" || c.Role == "outside-notsupported-suspending" {
		ctx = tm.InitSeataContext(ctx)
		tm.SetXID(ctx, "192.168.0.1:8091:77777")
	}
	gc := &tm.GtxConfig{Name: "c04", Timeout: 30 * time.Second}
	switch c.Role {
	case "outside-notsupported", "outside-notsupported-suspending":
		gc.Propagation = tm.NotSupported
	case "outside-never":
		gc.Propagation = tm.Never
	case "outside-supports":
		gc.Propagation = tm.Supports
	}
	func() {
		defer func() {
			if r := recover(); r != nil {
				ob.Escaped = fmt.Sprint(r)
			}
		}()
		err := tm.WithGlobalTx(ctx, gc, func(cctx context.Context) error {
			ob.CbRan = true
			ob.CbXid = tm.GetXID(cctx)
			if c.Cancel == "in-callback" {
				cancel()
			}
			switch c.Callback {
			case "error":
				return fmt.Errorf("business error")
			case "panic":
				panic("business panic")
			case "panic-error":
				panic(fmt.Errorf("business panic (error value)"))
			case "panic-int":
				panic(42)
			case "panic-struct":
				panic(struct{ Code int }{7})
			}
			return nil
		})
		ob.RetNil = err == nil
		if err != nil {
			ob.Ret = err.Error()
		}
		if c.Cancel == "after-callback" {
			// (cancellation between callback and second phase cannot be injected from outside WithGlobalTx on one
			// thread; the in-callback variant cancels at the last instant of the callback instead)
		}
	}()
	for _, g := range e.TC.Globals() {
		ob.Xid = g.Xid
	}
	e.TC.Script = nil
	return ob
}

// check is the reference function derived clause by clause from the property statement.
func check(c Case, ob observed) (clause, detail string) {
	d := func(f string, a ...interface{}) string { return fmt.Sprintf(f, a...) }
	if ob.Escaped != "" {
		return "crash", d("a panic escaped WithGlobalTx: %s", ob.Escaped)
	}
	if len(ob.Commits) > 0 && len(ob.Rollbacks) > 0 {
		return "both-decisions", d("commit and rollback were both requested: %v / %v", ob.Commits, ob.Rollbacks)
	}
	if strings.HasPrefix(c.Role, "outside-") {
		if ob.Begins+len(ob.Commits)+len(ob.Rollbacks) > 0 {
			return "outside-scope-talks-to-coordinator", d("a scope without a transaction sent begin=%d commit=%v rollback=%v", ob.Begins, ob.Commits, ob.Rollbacks)
		}
		if ob.CbRan && ob.CbXid != "" {
			return "outside-scope-sees-xid", d("the callback of a scope without a transaction saw xid %q", ob.CbXid)
		}
		if c.Callback != "nil" && ob.RetNil {
			return "silent-success", d("callback outcome %s but nil was returned", c.Callback)
		}
		if c.Callback == "nil" && !ob.RetNil {
			return "spurious-error", d("the callback returned nil but WithGlobalTx returned %q", ob.Ret)
		}
		return "", ""
	}
	if c.Role == "participant" {
		if ob.Begins+len(ob.Commits)+len(ob.Rollbacks) > 0 {
			return "participant-ends-tx", d("a joined transaction sent begin=%d commit=%v rollback=%v", ob.Begins, ob.Commits, ob.Rollbacks)
		}
		if c.Callback != "nil" && ob.RetNil {
			return "silent-success", d("callback outcome %s but nil was returned", c.Callback)
		}
		return "", ""
	}
	cancelled := c.Cancel != "never"
	wantCommit := c.Callback == "nil"
	if c.Begin == "ok" && ob.Begins > 0 {
		if wantCommit && len(ob.Rollbacks) > 0 {
			return "wrong-decision", d("callback returned nil but rollback was requested %v", ob.Rollbacks)
		}
		if !wantCommit && len(ob.Commits) > 0 {
			return "wrong-decision", d("callback %s but commit was requested %v", c.Callback, ob.Commits)
		}
	}
	if c.Begin != "ok" && len(ob.Commits)+len(ob.Rollbacks) > 0 {
		return "decision-without-begin", d("begin answered %s but a second phase was sent", c.Begin)
	}
	reqs := ob.Commits
	if len(ob.Rollbacks) > 0 {
		reqs = ob.Rollbacks
	}
	// a repeat only follows a transport-level failure
	for i := 0; i+1 < len(reqs); i++ {
		if reqs[i] == "ok" || reqs[i] == "fail" {
			return "retry-after-answer", d("request %d was answered %q and yet repeated: %v", i+1, reqs[i], reqs)
		}
	}
	if c.Retries > 0 && len(reqs) > c.Retries {
		return "too-many-retries", d("%d requests with a retry setting of %d: %v", len(reqs), c.Retries, reqs)
	}
	// the configured number of attempts is actually available: as long as every answer is a transport failure and the
	// context is alive, the initiator keeps trying up to the setting
	if c.Retries > 0 && !cancelled && c.Begin == "ok" && len(reqs) > 0 && len(reqs) < c.Retries && len(reqs) <= len(c.Second) {
		last := reqs[len(reqs)-1]
		if last == "transport" || last == "drop" {
			return "gave-up-early", d("%d requests although %d attempts are configured and the last answer was a transport failure: %v", len(reqs), c.Retries, reqs)
		}
	}
	// truthfulness of the return value
	acked := false
	for _, a := range ob.Commits {
		if a == "ok" {
			acked = true
		}
	}
	if ob.RetNil {
		switch {
		case c.Callback == "error":
			return "silent-success", "business error but nil was returned"
		case strings.HasPrefix(c.Callback, "panic"):
			return "silent-success", "business panic but nil was returned"
		case c.Begin != "ok":
			return "silent-success", d("begin answered %s but nil was returned", c.Begin)
		case !acked:
			return "silent-success", d("nil returned although no commit request was answered with a success result (commit answers %v)", ob.Commits)
		}
	}
	if cancelled && ob.RetNil && !(acked && strings.HasPrefix(c.Cancel, "after-attempt")) {
		// a cancellation that happened before the decision was acknowledged must surface
		return "cancel-swallowed", d("context cancelled (%s) but nil was returned", c.Cancel)
	}
	// sanity of the clean path
	if !cancelled && c.Begin == "ok" && c.Callback == "nil" && len(c.Second) > 0 && c.Second[0] == "ok" && !ob.RetNil {
		return "clean-path-error", d("fault-free commit returned %q", ob.Ret)
	}
	if c.Begin == "ok" && !cancelled && ob.CbRan && len(reqs) == 0 {
		return "no-decision", "the initiator never asked the coordinator for a decision"
	}
	return "", ""
}

func evalCase(r *rep.Run, c Case, idx int) {
	ob := runCase(c)
	faulty := c.Begin != "ok" || c.Cancel != "never" || c.Callback != "nil"
	for _, a := range c.Second {
		if a != "ok" {
			faulty = true
		}
	}
	r.Eval(faulty)
	if idx%53 == 0 {
		r.Sample(map[string]interface{}{"case": c, "returned_nil": ob.RetNil, "commits": ob.Commits, "rollbacks": ob.Rollbacks})
	}
	if os.Getenv("VERIF_TRACE") != "" {
		fmt.Printf("%d %+v -> %+v\n", idx, c, ob)
	}
	if clause, detail := check(c, ob); clause != "" {
		sec := "-"
		if len(c.Second) > 0 {
			sec = c.Second[len(c.Second)-1]
			if len(c.Second) > 1 {
				sec = "retry.." + sec
			}
		}
		cancel := c.Cancel
		if strings.HasPrefix(cancel, "after-attempt") {
			cancel = "after-attempt"
		}
		rcls := "bounded"
		if c.Retries == 0 {
			rcls = "unbounded"
		}
		sig := fmt.Sprintf("%s/%s/cb=%s/begin=%s/second=%s/cancel=%s/retries=%s", clause, c.Role, c.Callback, c.Begin, sec, cancel, rcls)
		r.Violate(sig, "commit iff the callback returned nil without panicking; never both; never for a joined transaction; retry only on transport failure and at most the configured number of times; nil only when the business succeeded and the coordinator acknowledged the commit; error, panic, failed second phase and cancellation surface",
			Located{idx, r.Tier, c}, fmt.Sprintf("%s | case=%+v observed=%+v", detail, c, ob))
	}
}

// managerDirect: the transaction manager's Commit / Rollback called directly with the transaction of a context in each
// role. Only the launcher's call may reach the coordinator; a context that merely carries somebody else's xid (a callee
// built by an integration layer: role unknown; a participant) must not decide that transaction.
func managerDirect(r *rep.Run) {
	e := getEnv()
	tm.InitTm(tm.TmConfig{CommitRetryCount: 1, RollbackRetryCount: 1, DefaultGlobalTransactionTimeout: 60 * time.Second})
	vtime.SetVirtual(func(d time.Duration) bool { return d < 20*time.Second })
	defer vtime.SetPassThrough()
	for _, role := range []tm.GlobalTransactionRole{tm.Launcher, tm.Participant, tm.UnKnow} {
		for _, op := range []string{"commit", "rollback"} {
			for _, viaCtx := range []bool{true, false} {
				e.TC.ResetState()
				// a transaction begun by somebody else
				var xid string
				bctx := tm.InitSeataContext(context.Background())
				if err := tm.GetGlobalTransactionManager().Begin(bctx, time.Minute); err != nil {
					r.Broken = "manager-direct: begin: " + err.Error()
					return
				}
				xid = tm.GetXID(bctx)
				mark := len(e.TC.Events())
				ctx := tm.InitSeataContext(context.Background())
				tm.SetXID(ctx, xid)
				gtx := &tm.GlobalTransaction{Xid: xid, TxRole: role, TxStatus: message.GlobalStatusBegin}
				if viaCtx {
					tm.SetTxRole(ctx, role)
					tm.SetTxStatus(ctx, message.GlobalStatusBegin)
					gtx = tm.GetTx(ctx)
				}
				var err error
				if op == "commit" {
					err = tm.GetGlobalTransactionManager().Commit(ctx, gtx)
				} else {
					err = tm.GetGlobalTransactionManager().Rollback(ctx, gtx)
				}
				n := 0
				for _, ev := range e.TC.Events()[mark:] {
					if ev.Dir != "c2s" {
						continue
					}
					switch ev.Msg.Body.(type) {
					case message.GlobalCommitRequest, message.GlobalRollbackRequest:
						n++
					}
				}
				r.Eval(true)
				r.Count("manager_direct_cases", 1)
				loc := map[string]interface{}{"role": role.String(), "op": op, "transaction_from_context": viaCtx}
				if role != tm.Launcher && n != 0 {
					r.Violate(fmt.Sprintf("decided-by-non-launcher/%s/%s", role.String(), op), "never both; never for a joined transaction", loc,
						fmt.Sprintf("%s called with a transaction in role %s sent %d decision request(s) for %s to the coordinator (err=%v)", op, role.String(), n, xid, err))
				}
				if role == tm.Launcher && (n != 1 || err != nil) {
					r.Violate(fmt.Sprintf("launcher-decision-lost/%s", op), "exactly one truthful decision", loc, fmt.Sprintf("%s by the launcher sent %d request(s), err=%v", op, n, err))
				}
			}
		}
	}
}

func Run(r *rep.Run) {
	thorough := r.Tier == "thorough"
	r.Rule = "complete product: callback outcome {nil, error, panic with a string / error / int / struct value} x begin answer {ok, failure result, transport error, no reply} x every effective second-phase answer sequence over {ok, failure result, transport error, no reply} up to the retry bound x retry setting {1,2,3, 0=unbounded up to a horizon of 4 attempts} x context cancellation {never, before begin, inside the callback, after the k-th second-phase attempt} x role {initiator, participant, and scopes that run outside any transaction: NotSupported (with and without a transaction to suspend), Never, Supports with nothing to join}; single thread, virtual time (back-off waits elapse at once, the RPC timeout expires exactly for dropped requests). Non-trivial = any fault, cancellation or non-nil callback outcome."
	r.Assume = []string{"coordinator = faketc; time is virtual (vtime overlay of backoff.go and getty_client.go)", "cancellation 'between callback and second phase' is injected at the last instant of the callback"}
	if replay := os.Getenv("VERIF_REPLAY"); replay != "" {
		b, err := os.ReadFile(replay)
		if err != nil {
			r.Broken = err.Error()
			return
		}
		var f struct {
			Case Located `json:"case"`
		}
		json.Unmarshal(b, &f)
		for i := 0; i < 5; i++ {
			evalCase(r, f.Case.Case, f.Case.Idx)
		}
		return
	}
	shard, nshards, worker := rep.Shard()
	if !worker {
		managerDirect(r)
		total := Enumerate(thorough, func(int, Case) {})
		r.Extra["space_size"] = total
		rep.RunSharded(r, 8, 20*time.Minute)
		return
	}
	Enumerate(thorough, func(idx int, c Case) {
		if idx%nshards != shard {
			return
		}
		evalCase(r, c, idx)
	})
}
