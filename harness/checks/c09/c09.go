// Package c09: branch rollback never overwrites a foreign write (Mode S).
package c09

import (
	"encoding/json"
	"fmt"
	"os"
	"strings"
	"time"

	sundo "seata.apache.org/seata-go/pkg/datasource/sql/undo"
	"seata.apache.org/seata-go/pkg/protocol/branch"

	"verifharness/atrun"
	"verifharness/gen"
	"verifharness/memdb"
	"verifharness/rep"
	"verifharness/sys"
)

type branchStmt struct {
	Name    string
	Kind    string
	Stmt    gen.Stmt
	Written []string // columns the statement assigns (update kinds)
}

type tableInfo struct {
	schema   *gen.Schema
	keyWhere func(pk []memdb.Value) (string, []interface{})
	third    string // assignment giving a written column a third value
	written  string // name of the written column used by F-back
	unwr     string // assignment to a column the update branches do not write
	branches []branchStmt
	init     []int
}

func tables() []tableInfo {
	return []tableInfo{
		{schema: &gen.S1, init: []int{0, 1, 2}, third: "cnt = 999", written: "cnt", unwr: "name = 'foreign'",
			keyWhere: func(pk []memdb.Value) (string, []interface{}) { return "id = ?", []interface{}{pk[0]} },
			branches: []branchStmt{
				{"upd1", "update", gen.Stmt{Name: "upd1", Kind: "update", SQL: "UPDATE t_s1 SET cnt = 11 WHERE id = 1"}, []string{"cnt"}},
				{"upd3", "update", gen.Stmt{Name: "upd3", Kind: "update", SQL: "UPDATE t_s1 SET cnt = cnt + 100 WHERE id IN (1, 2, 3)"}, []string{"cnt"}},
				{"del1", "delete", gen.Stmt{Name: "del1", Kind: "delete", SQL: "DELETE FROM t_s1 WHERE id = ?", Args: []interface{}{int64(1)}}, nil},
				{"del3", "delete", gen.Stmt{Name: "del3", Kind: "delete", SQL: "DELETE FROM t_s1 WHERE id <= 3"}, nil},
				{"ins1", "insert", gen.Stmt{Name: "ins1", Kind: "insert", SQL: "INSERT INTO t_s1 (id, name, cnt) VALUES (5, 'e', 50)"}, nil},
				{"ins3", "insert", gen.Stmt{Name: "ins3", Kind: "insert", SQL: "INSERT INTO t_s1 (id, name, cnt) VALUES (5, 'e', 50), (6, 'f', 60), (7, 'g', 70)"}, nil},
				{"ups-ins", "upsert", gen.Stmt{Name: "ups-ins", Kind: "upsert", SQL: "INSERT INTO t_s1 (id, name, cnt) VALUES (5, 'e', 50) ON DUPLICATE KEY UPDATE cnt = cnt + 1"}, nil},
				{"ups-upd", "upsert", gen.Stmt{Name: "ups-upd", Kind: "upsert", SQL: "INSERT INTO t_s1 (id, name, cnt) VALUES (1, 'z', 9) ON DUPLICATE KEY UPDATE cnt = cnt + 1"}, []string{"cnt"}},
				{"upd-digits", "update", gen.Stmt{Name: "upd-digits", Kind: "update", SQL: "UPDATE t_s1 SET name = ? WHERE id = 1", Args: []interface{}{"01069"}}, []string{"name"}},
				{"upd-longdigits", "update", gen.Stmt{Name: "upd-longdigits", Kind: "update", SQL: "UPDATE t_s1 SET name = ? WHERE id = 2", Args: []interface{}{"6222020200112345678"}}, []string{"name"}},
			}},
		{schema: &gen.S3, init: []int{0, 1, 2}, third: "cnt = 999", written: "cnt", unwr: "v = 'foreign'",
			keyWhere: func(pk []memdb.Value) (string, []interface{}) { return "a = ? AND b = ?", []interface{}{pk[0], pk[1]} },
			branches: []branchStmt{
				{"upd1", "update", gen.Stmt{Name: "upd1", Kind: "update", SQL: "UPDATE t_s3 SET cnt = 11 WHERE a = 1 AND b = ?", Args: []interface{}{"x"}}, []string{"cnt"}},
				{"upd3", "update", gen.Stmt{Name: "upd3", Kind: "update", SQL: "UPDATE t_s3 SET cnt = cnt + 100 WHERE cnt >= 10"}, []string{"cnt"}},
				{"del1", "delete", gen.Stmt{Name: "del1", Kind: "delete", SQL: "DELETE FROM t_s3 WHERE a = 2"}, nil},
				{"del3", "delete", gen.Stmt{Name: "del3", Kind: "delete", SQL: "DELETE FROM t_s3 WHERE cnt >= 10"}, nil},
			}},
		{schema: &gen.S5, init: []int{0, 1, 2}, third: "score = 999.5", written: "score", unwr: "memo = 'foreign'",
			keyWhere: func(pk []memdb.Value) (string, []interface{}) { return "id = ?", []interface{}{pk[0]} },
			branches: []branchStmt{
				{"upd1", "update", gen.Stmt{Name: "upd1", Kind: "update", SQL: "UPDATE t_s5 SET score = 7.5 WHERE id = 1"}, []string{"score"}},
				{"upd3", "update", gen.Stmt{Name: "upd3", Kind: "update", SQL: "UPDATE t_s5 SET score = 8.25 WHERE id <= 3"}, []string{"score"}},
				{"del1", "delete", gen.Stmt{Name: "del1", Kind: "delete", SQL: "DELETE FROM t_s5 WHERE id = 1"}, nil},
				{"del3", "delete", gen.Stmt{Name: "del3", Kind: "delete", SQL: "DELETE FROM t_s5 WHERE id <= 3"}, nil},
				{"ins1", "insert", gen.Stmt{Name: "ins1", Kind: "insert", SQL: "INSERT INTO t_s5 (id, email, score, memo) VALUES (5, 'e@x', 5.5, 'm5')"}, nil},
			}},
		// a time-typed written column: the foreign 'third value' lies in the same second as the value the branch wrote
		{schema: &gen.S6, init: []int{0, 1}, third: "c_dt = '2025-01-01 01:02:03.900000'", written: "c_dt", unwr: "c_vc = 'foreign'",
			keyWhere: func(pk []memdb.Value) (string, []interface{}) { return "id = ?", []interface{}{pk[0]} },
			branches: []branchStmt{
				{"upd-dt", "update", gen.Stmt{Name: "upd-dt", Kind: "update", SQL: "UPDATE t_s6 SET c_dt = ? WHERE id = 1", Args: []interface{}{"2025-01-01 01:02:03.000004"}}, []string{"c_dt"}},
			}},
	}
}

// Foreign operation kinds applied to one touched row.
var foreignKinds = []string{"third", "back", "unwritten", "delete", "reinsert-same", "reinsert-diff", "lookalike", "null"}

type fop struct {
	Kind string `json:"kind"`
	Row  int    `json:"row"` // index into the rows the branch touched
}

type Case struct {
	Schema   string `json:"schema"`
	Branch   string `json:"branch"`
	OnlyCare bool   `json:"only_care_update_columns"`
	Foreign  []fop  `json:"foreign"`
}

type Located struct {
	Idx  int    `json:"idx"`
	Tier string `json:"tier"`
	Case Case   `json:"case"`
}

func Enumerate(thorough bool, yield func(idx int, c Case)) int {
	idx := 0
	for _, ti := range tables() {
		for _, b := range ti.branches {
			nrows := 1
			if strings.HasSuffix(b.Name, "3") {
				nrows = 3
			}
			var singles []fop
			for _, k := range foreignKinds {
				for row := 0; row < nrows && row < 2; row++ {
					singles = append(singles, fop{k, row})
				}
			}
			for _, oc := range []bool{true, false} {
				yield(idx, Case{ti.schema.ID, b.Name, oc, nil})
				idx++
				for _, f := range singles {
					yield(idx, Case{ti.schema.ID, b.Name, oc, []fop{f}})
					idx++
				}
				for i := range singles {
					for j := range singles {
						if i == j || (!thorough && singles[i].Row == singles[j].Row && nrows > 1) {
							continue
						}
						yield(idx, Case{ti.schema.ID, b.Name, oc, []fop{singles[i], singles[j]}})
						idx++
					}
				}
			}
		}
	}
	return idx
}

func findTable(id string) *tableInfo {
	for _, t := range tables() {
		if t.schema.ID == id {
			tt := t
			return &tt
		}
	}
	return nil
}

func rowKeyed(t *memdb.Table, rows []memdb.Row) map[string]memdb.Row {
	m := map[string]memdb.Row{}
	for _, r := range rows {
		var ks []string
		for _, ci := range t.PK {
			ks = append(ks, fmt.Sprint(r[ci]))
		}
		m[strings.Join(ks, "|")] = r
	}
	return m
}

func eqOn(a, b memdb.Row, cols []int) bool {
	if a == nil || b == nil {
		return a == nil && b == nil
	}
	for _, ci := range cols {
		if fmt.Sprint(a[ci]) != fmt.Sprint(b[ci]) {
			return false
		}
	}
	return true
}

func evalCase(r *rep.Run, e *sys.Env, c Case, idx int) {
	ti := findTable(c.Schema)
	var b *branchStmt
	for i := range ti.branches {
		if ti.branches[i].Name == c.Branch {
			b = &ti.branches[i]
		}
	}
	s := ti.schema
	if err := atrun.Reset(e, s, ti.init); err != nil {
		r.Broken = err.Error()
		return
	}
	cfg := sys.DefaultUndo
	cfg.OnlyCareUpdateColumns = c.OnlyCare
	sundo.UndoConfig = cfg
	defer func() { sundo.UndoConfig = sys.DefaultUndo }()
	t := e.Srv.TableDef(s.Table)
	tname := strings.ToLower(s.Table)
	sys.TakeErrors()
	var s2 memdb.Snapshot
	applicable := true
	var applied []string
	var touched []string // keys of rows the branch changed, in key order
	var s0, s1 map[string]memdb.Row
	afterForeign := 0
	p := gen.Program{Schema: s.ID, Steps: []gen.Step{{Stmt: b.Stmt}}, Init: ti.init}
	o := atrun.RunGlobal(e, p, "rollback", func() {
		// between local commit and rollback: the foreign writer
		mid := e.Srv.Snapshot()
		s1 = rowKeyed(t, mid[tname])
		// s0 is filled below from o.Pre; compute touched from Pre via closure variables after RunGlobal returns is too late, so recompute here
		pre := preSnap
		s0 = rowKeyed(t, pre[tname])
		seen := map[string]bool{}
		for _, rows := range [][]memdb.Row{pre[tname], mid[tname]} {
			for _, row := range rows {
				k := keyOf(t, row)
				if seen[k] {
					continue
				}
				seen[k] = true
				if !eqOn(s0[k], s1[k], allCols(t)) {
					touched = append(touched, k)
				}
			}
		}
		for _, f := range c.Foreign {
			if f.Row >= len(touched) {
				applicable = false
				return
			}
			k := touched[f.Row]
			before, after := s0[k], s1[k]
			cur := rowKeyed(t, e.Srv.TableRows(s.Table))[k]
			ref := before
			if ref == nil {
				ref = after
			}
			where, wargs := ti.keyWhere(t.PKValuesPublic(ref))
			var q string
			var args []interface{}
			switch f.Kind {
			case "third":
				if cur == nil {
					applicable = false
					return
				}
				q, args = "UPDATE "+s.Table+" SET "+ti.third+" WHERE "+where, wargs
			case "lookalike":
				// a different text that a numeric comparison would call equal
				alike := map[string]string{"upd-digits": "1069", "upd-longdigits": "6222020200112345679"}[b.Name]
				if alike == "" || cur == nil {
					applicable = false
					return
				}
				q, args = "UPDATE "+s.Table+" SET name = ? WHERE "+where, append([]interface{}{alike}, wargs...)
			case "null":
				// the foreign writer sets a column the branch wrote to NULL (only where the column allows it)
				col := ti.written
				if len(b.Written) > 0 {
					col = b.Written[0]
				}
				ci := t.ColIndexPublic(col)
				if cur == nil || ci < 0 || !t.Cols[ci].Nullable || cur[ci] == nil {
					applicable = false
					return
				}
				q, args = "UPDATE "+s.Table+" SET "+col+" = NULL WHERE "+where, wargs
			case "back":
				if cur == nil || before == nil || after == nil {
					applicable = false
					return
				}
				ci := t.ColIndexPublic(ti.written)
				q, args = "UPDATE "+s.Table+" SET "+ti.written+" = ? WHERE "+where, append([]interface{}{before[ci]}, wargs...)
			case "unwritten":
				if cur == nil {
					applicable = false
					return
				}
				q, args = "UPDATE "+s.Table+" SET "+ti.unwr+" WHERE "+where, wargs
			case "delete":
				if cur == nil {
					applicable = false
					return
				}
				q, args = "DELETE FROM "+s.Table+" WHERE "+where, wargs
			case "reinsert-same", "reinsert-diff":
				if cur != nil || before == nil {
					applicable = false
					return
				}
				row := append(memdb.Row(nil), before...)
				if f.Kind == "reinsert-diff" {
					ci := t.ColIndexPublic(ti.written)
					row[ci] = int64(424242)
				}
				ph := make([]string, len(row))
				for i := range row {
					ph[i] = "?"
					args = append(args, row[i])
				}
				q = "INSERT INTO " + s.Table + " VALUES (" + strings.Join(ph, ", ") + ")"
			}
			if _, err := e.Bare.Exec(q, args...); err != nil {
				applicable = false
				return
			}
			applied = append(applied, q)
		}
		s2 = e.Srv.Snapshot()
		afterForeign = e.Srv.JournalLen()
	})
	_ = o
	clientErrs := sys.TakeErrors()
	if !applicable || s2 == nil || o.BusinessErr != "" {
		r.Count("not_applicable_combinations", 1)
		return
	}
	s3 := o.Post
	cur2 := rowKeyed(t, s2[tname])
	cur3 := rowKeyed(t, s3[tname])
	// image columns
	img := allCols(t)
	if c.OnlyCare && b.Kind == "update" {
		img = nil
		for _, ci := range t.PK {
			img = append(img, ci)
		}
		for _, w := range b.Written {
			img = append(img, t.ColIndexPublic(w))
		}
	}
	nDirty, nClean, nAlready := 0, 0, 0
	for _, k := range touched {
		cur := cur2[k]
		switch {
		case eqOn(cur, s1[k], img) && (cur == nil) == (s1[k] == nil):
			nClean++
		case eqOn(cur, s0[k], img) && (cur == nil) == (s0[k] == nil):
			nAlready++
		default:
			nDirty++
		}
	}
	r.Eval(len(c.Foreign) > 0)
	if idx%211 == 0 {
		r.Sample(map[string]interface{}{"schema": c.Schema, "branch": b.Stmt.SQL, "only_care": c.OnlyCare, "foreign": applied, "rows_dirty": nDirty, "rows_clean": nClean, "rows_already_before": nAlready, "phase2": o.Phase2})
	}
	rollbacked := len(o.Phase2) > 0
	for _, st := range o.Phase2 {
		if st != int(branch.BranchStatusPhasetwoRollbacked) {
			rollbacked = false
		}
	}
	loc := Located{idx, r.Tier, c}
	var fk []string
	for _, f := range c.Foreign {
		fk = append(fk, f.Kind)
	}
	care := "care"
	if !c.OnlyCare {
		care = "all"
	}
	sigTail := fmt.Sprintf("%s/%s/%s/%s", c.Schema, b.Name, strings.Join(fk, "+"), care)
	detail := fmt.Sprintf("branch=%q foreign=%v dirty=%d clean=%d already=%d phase2=%v\n before rollback: %s\n after rollback:  %s\n client errors: %s", b.Stmt.SQL, applied, nDirty, nClean, nAlready, o.Phase2,
		memdb.Snapshot{tname: s2[tname]}.String(), memdb.Snapshot{tname: s3[tname]}.String(), strings.Join(clientErrs, " || "))
	if os.Getenv("VERIF_TRACE") != "" {
		fmt.Println("====", idx, sigTail, "\n", detail)
		for _, j := range o.Journal[afterForeign:] {
			fmt.Printf("  db c%d t%d %s %q %v err=%q aff=%d\n", j.Conn, j.Txn, j.Kind, j.SQL, j.Args, j.Err, j.Affected)
		}
	}
	undoSame := memdb.Snapshot{"u": s2["undo_log"]}.String() == memdb.Snapshot{"u": s3["undo_log"]}.String()
	tableSame := memdb.Snapshot{"t": s2[tname]}.String() == memdb.Snapshot{"t": s3[tname]}.String()
	switch {
	case nDirty > 0:
		if rollbacked {
			r.Violate("dirty-reported-rollbacked/"+sigTail, "a foreign write on a touched row => failure, never 'rollbacked'", loc, detail)
		}
		if !tableSame {
			r.Violate("dirty-overwritten/"+sigTail, "a foreign write on a touched row => rows left untouched", loc, detail)
		} else if !undoSame {
			r.Violate("dirty-undolog-touched/"+sigTail, "a foreign write on a touched row => undo log left untouched", loc, detail)
		}
	case nAlready > 0 && nClean > 0:
		r.Count("mixed_rows_unspecified", 1)
	case nAlready > 0:
		if !rollbacked {
			r.Violate("already-before-not-rollbacked/"+sigTail, "rows already equal to the before image => rollback succeeds", loc, detail)
		} else if !tableSame {
			r.Violate("already-before-written/"+sigTail, "rows already equal to the before image => nothing is written", loc, detail)
		} else {
			// no write statement against the table in the rollback transaction
			for _, j := range o.Journal[afterForeign:] {
				if j.Kind == "exec" && len(j.Diff) > 0 && strings.Contains(strings.ToLower(j.SQL), tname) {
					r.Violate("already-before-written/"+sigTail, "rows already equal to the before image => nothing is written", loc, detail+"\n wrote: "+j.SQL)
				}
			}
		}
	default: // all clean
		if !rollbacked {
			r.Violate("clean-not-rollbacked/"+sigTail, "rows equal to the after image => rollback restores them", loc, detail)
			return
		}
		for _, k := range touched {
			want := s0[k]
			got := cur3[k]
			if (want == nil) != (got == nil) || !eqOn(want, got, img) {
				r.Violate("clean-not-restored/"+sigTail, "rows equal to the after image => restored to the before image", loc, detail)
				return
			}
			// columns outside the image keep the current (foreign) value
			if got != nil && cur2[k] != nil {
				for ci := range t.Cols {
					inImg := false
					for _, x := range img {
						if x == ci {
							inImg = true
						}
					}
					if !inImg && fmt.Sprint(got[ci]) != fmt.Sprint(cur2[k][ci]) {
						r.Violate("unwritten-column-overwritten/"+sigTail, "rollback never overwrites a foreign write to a column it does not track", loc, detail)
						return
					}
				}
			}
		}
	}
}

var preSnap memdb.Snapshot

func keyOf(t *memdb.Table, r memdb.Row) string {
	var ks []string
	for _, ci := range t.PK {
		ks = append(ks, fmt.Sprint(r[ci]))
	}
	return strings.Join(ks, "|")
}

func allCols(t *memdb.Table) []int {
	out := make([]int, len(t.Cols))
	for i := range out {
		out[i] = i
	}
	return out
}

func Run(r *rep.Run) {
	thorough := r.Tier == "thorough"
	r.Rule = "committed branches {update, delete, insert, upsert-insert, upsert-update} x {1 row, 3 rows} over s1 (single key), s3 (composite key), s5 (nullable/unique) x only-care-update-columns {on, off}, data validation on; " +
		"foreign histories applied through a bare connection between local commit and rollback: none, and every single and ordered pair of {third value on a written column, written column set back to the before value, unwritten column changed, row deleted, deleted key re-inserted with same / different content, written column set to NULL where it is nullable} on the first two touched rows. " +
		"Non-trivial = at least one foreign operation was applied."
	r.Assume = []string{"memdb assumptions A1-A7", "rows are classified on the columns present in the images (updated columns + key with only-care on, all columns otherwise); mixtures of reverted and unreverted rows are left unspecified"}
	shard, nshards, worker := rep.Shard()
	if !worker {
		if replay := os.Getenv("VERIF_REPLAY"); replay != "" {
			b, err := os.ReadFile(replay)
			if err != nil {
				r.Broken = err.Error()
				return
			}
			var f struct {
				Case Located `json:"case"`
			}
			json.Unmarshal(b, &f)
			e := atrun.EnvFor("c09", sys.Options{NoXA: true})
			for i := 0; i < 3; i++ {
				runOne(r, e, f.Case.Case, f.Case.Idx)
			}
			return
		}
		total := Enumerate(thorough, func(int, Case) {})
		r.Extra["space_size"] = total
		rep.RunSharded(r, 16, 25*time.Minute)
		return
	}
	e := atrun.EnvFor("c09", sys.Options{NoXA: true})
	Enumerate(thorough, func(idx int, c Case) {
		if idx%nshards != shard {
			return
		}
		runOne(r, e, c, idx)
	})
}

func runOne(r *rep.Run, e *sys.Env, c Case, idx int) {
	// the pre-state is deterministic per schema: take it from a reset database
	ti := findTable(c.Schema)
	if err := atrun.Reset(e, ti.schema, ti.init); err != nil {
		r.Broken = err.Error()
		return
	}
	preSnap = e.Srv.Snapshot()
	evalCase(r, e, c, idx)
}
