// Package c20: concurrent use of one client is free of data races and lock-ups.
//
// This is the free-running companion of the schedule-exploring checks (C06, C11, C14, C15): a cooperative scheduler's
// hand-offs are happens-before edges and hide unsynchronised accesses from the race detector, so the same kind of workload is
// run here WITHOUT the scheduler in a -race build. The set of workload compositions (which kinds of global transaction run
// side by side) is enumerated exhaustively; the interleavings inside one composition are whatever the Go scheduler produces
// in the repeated runs - they are not enumerated, and the evidence says so.
package c20

import (
	"bytes"
	"context"
	"encoding/json"
	"fmt"
	"os"
	"os/exec"
	"regexp"
	"runtime"
	"sort"
	"strings"
	"sync"
	"time"

	"seata.apache.org/seata-go/pkg/rm/tcc"
	"seata.apache.org/seata-go/pkg/tm"
	"seata.apache.org/seata-go/pkg/util/vshim/vtime"

	"verifharness/faketc"
	"verifharness/gen"
	"verifharness/quiet"
	"verifharness/rep"
	"verifharness/sys"
)

var kinds = []string{"at-commit", "at-rollback", "xa-commit", "tcc-commit"}

type Composition struct {
	Kinds  []string `json:"kinds"`
	Rounds int      `json:"rounds"`
}

func compositions(thorough bool) []Composition {
	var out []Composition
	rounds := 3
	if thorough {
		rounds = 10
	}
	for i := range kinds {
		for j := i; j < len(kinds); j++ {
			out = append(out, Composition{[]string{kinds[i], kinds[j]}, rounds})
		}
	}
	if thorough {
		for i := range kinds {
			for j := i; j < len(kinds); j++ {
				for k := j; k < len(kinds); k++ {
					out = append(out, Composition{[]string{kinds[i], kinds[j], kinds[k]}, rounds})
				}
			}
		}
	}
	out = append(out, Composition{[]string{"at-commit", "at-rollback", "xa-commit", "tcc-commit"}, rounds})
	// a burst of one kind: four concurrent streams of AT commits, whose phase-two commits keep arriving while the
	// asynchronous commit worker is flushing earlier ones
	out = append(out, Composition{[]string{"at-commit", "at-commit", "at-commit", "at-commit"}, 10})
	return out
}

type tccAct struct{ name string }

func (a *tccAct) Prepare(ctx context.Context, p interface{}) (bool, error) { return true, nil }
func (a *tccAct) Commit(ctx context.Context, c *tm.BusinessActionContext) (bool, error) {
	return true, nil
}
func (a *tccAct) Rollback(ctx context.Context, c *tm.BusinessActionContext) (bool, error) {
	return true, nil
}
func (a *tccAct) GetActionName() string { return a.name }

type workerResult struct {
	Problems []string `json:"problems"` // clause: detail
	Txs      int      `json:"txs"`
	Deadline bool     `json:"deadline"`
}

// worker runs one composition free-running and reports the accounting oracles; race reports go to stderr.
func worker(c Composition) workerResult {
	var res workerResult
	e, err := sys.NewEnv([]string{gen.S1.DDL}, sys.Options{Concurrent: true})
	if err != nil {
		res.Problems = append(res.Problems, "setup: "+err.Error())
		return res
	}
	e.Bare.Exec("INSERT INTO t_s1 (id, name, cnt) VALUES (1,'a',0),(2,'b',0),(3,'c',0),(4,'d',0)")
	e.AT.SetMaxIdleConns(0) // every transaction opens a new connection
	// XA too: a pooled XA connection cannot run a second global transaction at all (xaActive is never reset after phase
	// two: "should NEVER happen: setAutoCommit from true to false while xa branch is active", then a nil-target Tx.Rollback
	// panic) - a sequential defect in C17's territory, noted in DESIGN.md 9.4; with fresh connections the concurrent part can run
	e.XA.SetMaxIdleConns(0)
	e.TC.AutoRollback = true
	faketc.SettleAfterCommit = false // several transactions run at once: global quiescence is not a per-call notion here
	proxy, err := tcc.NewTCCServiceProxy(&tccAct{name: "c20Action"})
	if err != nil {
		res.Problems = append(res.Problems, "setup: "+err.Error())
		return res
	}
	var seq int64
	var seqMu sync.Mutex
	next := func() int64 { seqMu.Lock(); defer seqMu.Unlock(); seq++; return seq }
	// one long-lived transaction configuration per kind, shared by every goroutine that runs that kind (applications keep
	// such a configuration around); its timeout is left to the default
	shared := map[string]*tm.GtxConfig{}
	for _, k := range kinds {
		shared[k] = &tm.GtxConfig{Name: "c20-" + k}
	}
	one := func(kind string, slot int) error {
		var xid string
		err := tm.WithGlobalTx(context.Background(), shared[kind], func(ctx context.Context) error {
			xid = tm.GetXID(ctx)
			switch kind {
			case "at-commit":
				_, err := e.AT.ExecContext(ctx, "UPDATE t_s1 SET cnt = cnt + 1 WHERE id = ?", slot+1)
				return err
			case "at-rollback":
				if _, err := e.AT.ExecContext(ctx, "UPDATE t_s1 SET name = 'z' WHERE id = ?", slot+1); err != nil {
					return err
				}
				return fmt.Errorf("business decides to roll back")
			case "xa-commit":
				_, err := e.XA.ExecContext(ctx, "INSERT INTO t_s1 (id, name, cnt) VALUES (?, 'x', 1)", 1000+next())
				return err
			case "tcc-commit":
				_, err := proxy.Prepare(ctx, map[string]interface{}{"n": slot})
				return err
			}
			return nil
		})
		if kind == "at-rollback" {
			err = nil // the rollback is the expected outcome
			if xid != "" {
				// the coordinator re-sends the branch rollback twice (it did not see the answers): the second and third delivery
				// take the 'nothing to undo' and the 'already finished' paths of the undo manager
				e.TC.DriveRollback(xid)
				e.TC.DriveRollback(xid)
			}
		} else if err == nil && xid != "" {
			e.TC.DriveCommit(xid) // phase-two traffic while the other transactions run
		}
		return err
	}
	dbg := func(f string, a ...interface{}) {
		if os.Getenv("VERIF_C20_DEBUG") != "" {
			fmt.Fprintf(os.Stderr, "C20DBG "+f+"\n", a...)
		}
	}
	// warm-up: one transaction of each kind, so lazily started daemons exist before the baseline is taken
	for i, k := range kinds {
		dbg("warmup %s", k)
		if err := one(k, i); err != nil {
			res.Problems = append(res.Problems, fmt.Sprintf("warmup: %s: %v", k, err))
		}
	}
	quiet.Settle(nil, 30)
	dbg("warmup done, hung=%d", faketc.HungCount())
	base := runtime.NumGoroutine()
	openConns := func() int {
		n := 0
		for _, cs := range e.Srv.ConnStates() {
			if !cs.Closed {
				n++
			}
		}
		return n
	}
	baseConns := openConns()
	hungBefore := faketc.HungCount()
	waitFlush := func() {
		// the asynchronous phase-two commits are flushed by the clean-up ticker, which the check ticks: wait until the undo logs are gone (bounded)
		for i := 0; i < 100; i++ {
			n := 0
			rows, err := e.Bare.Query("SELECT branch_id FROM undo_log")
			if err != nil {
				res.Problems = append(res.Problems, "setup: undo_log query: "+err.Error())
				break
			}
			for rows.Next() {
				n++
			}
			rows.Close()
			if n == 0 {
				break
			}
			vtime.Tick(0) // the client's tickers are virtual (sys.InitClient): this is the clean-up interval elapsing
			time.Sleep(20 * time.Millisecond)
		}
	}
	for round := 0; round < c.Rounds; round++ {
		// fresh configurations each round: their first concurrent uses fall into this round
		for _, k := range kinds {
			shared[k] = &tm.GtxConfig{Name: "c20-" + k}
		}
		var wg sync.WaitGroup
		done := make(chan struct{})
		errs := make([]error, len(c.Kinds))
		for i, k := range c.Kinds {
			i, k := i, k
			wg.Add(1)
			go func() {
				defer wg.Done()
				for t := 0; t < 3; t++ {
					if err := one(k, i); err != nil {
						errs[i] = err
						return
					}
				}
			}()
		}
		go func() { wg.Wait(); close(done) }()
		// the clean-up interval keeps elapsing while the transactions run: flushes of the asynchronous commit worker
		// overlap with newly arriving phase-two commits
		go func() {
			for {
				select {
				case <-done:
					return
				default:
					vtime.Tick(0)
					time.Sleep(time.Millisecond)
				}
			}
		}()
		deadline := time.After(90 * time.Second)
		select {
		case <-done:
		case <-deadline:
			// a lock-up only if the whole process is blocked; otherwise just slow: not judged
			if quiet.Settle(func() bool {
				select {
				case <-done:
					return true
				default:
					return false
				}
			}, 200) {
				buf := make([]byte, 1<<16)
				n := runtime.Stack(buf, true)
				res.Problems = append(res.Problems, fmt.Sprintf("lock-up: round %d never terminated and every goroutine is blocked\n%s", round, firstFrames(buf[:n])))
				return res
			}
			res.Deadline = true
		}
		dbg("round %d done", round)
		res.Txs += 3 * len(c.Kinds)
		waitFlush() // one flush of the asynchronous commit worker per round
		for i, err := range errs {
			if err != nil {
				res.Problems = append(res.Problems, fmt.Sprintf("transaction-failed: %s in round %d: %v", c.Kinds[i], round, err))
			}
		}
	}
	waitFlush()
	// accounting at quiescence
	dbg("flushed, settling")
	quiet.Settle(nil, 50)
	time.Sleep(50 * time.Millisecond)
	quiet.Settle(nil, 50)
	dbg("settled")
	if n := runtime.NumGoroutine(); n > base {
		buf := make([]byte, 1<<17)
		k := runtime.Stack(buf, true)
		res.Problems = append(res.Problems, fmt.Sprintf("goroutines-lost: %d goroutines at quiescence, %d before the workload (%d transactions)\n%s", n, base, res.Txs, firstFrames(buf[:k])))
	}
	dbg("goroutines counted")
	if s := e.AT.Stats(); s.InUse != 0 {
		res.Problems = append(res.Problems, fmt.Sprintf("connections-lost: AT handle has %d connections in use at quiescence", s.InUse))
	}
	if s := e.XA.Stats(); s.InUse != 0 {
		res.Problems = append(res.Problems, fmt.Sprintf("connections-lost: XA handle has %d connections in use at quiescence", s.InUse))
	}
	// database connections: the pools keep at most a couple of idle ones; a connection per transaction or per phase-two
	// commit that is never closed shows up as growth with the number of transactions
	if os.Getenv("VERIF_TRACE") != "" {
		fmt.Fprintf(os.Stderr, "TRACE conns base=%d now=%d txs=%d\n", baseConns, openConns(), res.Txs)
	}
	if n := openConns(); n > baseConns+1 {
		res.Problems = append(res.Problems, fmt.Sprintf("connections-lost: %d database connections are open at quiescence, %d before the workload (%d transactions)", n, baseConns, res.Txs))
	}
	dbg("pools counted")
	if n := e.Srv.OpenTxCount(); n != 0 {
		res.Problems = append(res.Problems, fmt.Sprintf("transactions-left-open: %d database transactions are still open", n))
	}
	if n := e.Srv.HeldLocks(); n != 0 {
		res.Problems = append(res.Problems, fmt.Sprintf("locks-left: %d row locks are still held", n))
	}
	if faketc.HungCount() > hungBefore {
		res.Problems = append(res.Problems, "handler-never-returned: a phase-two handler never returned")
	}
	return res
}

func firstFrames(b []byte) string {
	var out []string
	for _, blk := range strings.Split(string(b), "\n\n") {
		lines := strings.Split(blk, "\n")
		if len(lines) >= 2 && (strings.Contains(blk, "seata-go") || strings.Contains(blk, "verifharness")) {
			l := lines[0]
			for _, x := range lines[1:] {
				if strings.Contains(x, "seata-go") && !strings.HasPrefix(x, "\t") {
					l += " | " + x
					break
				}
			}
			out = append(out, l)
		}
	}
	if len(out) > 12 {
		out = out[:12]
	}
	return strings.Join(out, "\n")
}

var reFunc = regexp.MustCompile(`^\s+((?:seata\.apache\.org/seata-go|verifharness)[^\s(]*[^\s]*?)\(`)

// parseRaces extracts one signature per DATA RACE block: the topmost repository function of each of the two stacks.
func parseRaces(stderr string) map[string]string {
	out := map[string]string{}
	blocks := strings.Split(stderr, "WARNING: DATA RACE")
	for _, b := range blocks[1:] {
		if i := strings.Index(b, "=================="); i >= 0 {
			b = b[:i]
		}
		var tops []string
		for _, stack := range strings.Split(b, "\n\n") {
			if !(strings.Contains(stack, " at 0x") && strings.Contains(stack, "by ")) {
				continue
			}
			top := ""
			for _, l := range strings.Split(stack, "\n") {
				l = strings.TrimSpace(l)
				if strings.HasPrefix(l, "seata.apache.org/seata-go") || strings.HasPrefix(l, "verifharness") {
					top = l
					if i := strings.LastIndex(top, "("); i > 0 {
						top = top[:i]
					}
					break
				}
			}
			if top != "" {
				tops = append(tops, strings.TrimPrefix(top, "seata.apache.org/seata-go/"))
			}
		}
		if len(tops) > 2 {
			tops = tops[:2]
		}
		sort.Strings(tops)
		sig := strings.Join(tops, "|")
		if sig == "" {
			sig = "(no repository frame)"
		}
		if _, ok := out[sig]; !ok {
			if len(b) > 1800 {
				b = b[:1800]
			}
			out[sig] = b
		}
	}
	return out
}

const clauseText = "no data race on the client's shared registries and caches; no goroutine or connection is lost per transaction; every transaction terminates"

func Run(r *rep.Run) {
	thorough := r.Tier == "thorough"
	r.Rule = "every multiset of 2 (thorough: also 3) kinds out of {AT commit, AT rollback, XA commit, TCC commit} plus all four together and a burst of four AT-commit streams, with the clean-up interval elapsing continuously while they run, each run as concurrent goroutines x 3 transactions x 3 rounds (thorough 10) on one initialised client with shared handles, phase-two requests delivered while the others run, a new database connection per AT transaction, in a -race build, free-running (no cooperative scheduler: its hand-offs would be happens-before edges). Compositions are enumerated exhaustively; interleavings inside a composition are those the Go scheduler produced - NOT enumerated. Schedule-exhaustive exploration of the concurrent pieces is in C06 (fence races), C11 (async worker), C14 (remoting), C15 (phase-two dispatch)."
	r.Assume = []string{"race detection is dynamic: a race is found only if both accesses occur in one of the runs", "a deadline (90 s per round) that expires while goroutines are still running is reported as not judged (exhaustive=false), never as a violation; a lock-up is reported only when the whole process is blocked"}
	r.Exhaustive = false
	if w := os.Getenv("VERIF_C20_WORKER"); w != "" {
		var c Composition
		json.Unmarshal([]byte(w), &c)
		res := worker(c)
		if os.Getenv("VERIF_C20_DEBUG") != "" {
			fmt.Fprintf(os.Stderr, "C20DBG worker returned %d problems\n", len(res.Problems))
		}
		b, _ := json.Marshal(res)
		os.WriteFile(os.Getenv("VERIF_C20_OUT"), b, 0o644)
		os.Exit(0)
	}
	comps := compositions(thorough)
	if replay := os.Getenv("VERIF_REPLAY"); replay != "" {
		b, err := os.ReadFile(replay)
		if err != nil {
			r.Broken = err.Error()
			return
		}
		var f struct {
			Case Composition `json:"case"`
		}
		json.Unmarshal(b, &f)
		comps = []Composition{f.Case}
	}
	type out struct {
		c      Composition
		res    workerResult
		stderr string
		err    error
	}
	sem := make(chan struct{}, 8)
	ch := make(chan out, len(comps))
	for i, c := range comps {
		i, c := i, c
		go func() {
			sem <- struct{}{}
			defer func() { <-sem }()
			cj, _ := json.Marshal(c)
			path := fmt.Sprintf("%s/.build/tmp/c20-%d-%d.json", rep.Root, os.Getpid(), i)
			os.MkdirAll(rep.Root+"/.build/tmp", 0o755)
			cmd := exec.Command(os.Args[0], "C20")
			cmd.Env = append(os.Environ(), "VERIF_C20_WORKER="+string(cj), "VERIF_C20_OUT="+path, "GORACE=halt_on_error=0 exitcode=0 history_size=3")
			var eb bytes.Buffer
			cmd.Stderr = &eb
			cmd.Stdout = &eb
			done := make(chan error, 1)
			if err := cmd.Start(); err != nil {
				ch <- out{c: c, err: err}
				return
			}
			go func() { done <- cmd.Wait() }()
			var werr error
			select {
			case werr = <-done:
			case <-time.After(25 * time.Minute):
				cmd.Process.Kill()
				<-done
				werr = fmt.Errorf("worker exceeded 25 minutes")
			}
			o := out{c: c, stderr: eb.String(), err: werr}
			if b, err := os.ReadFile(path); err == nil {
				json.Unmarshal(b, &o.res)
				os.Remove(path)
			} else if werr == nil {
				o.err = fmt.Errorf("worker left no result: %v\n%s", err, tail(eb.String(), 2000))
			}
			ch <- o
		}()
	}
	for range comps {
		o := <-ch
		r.Eval(true)
		r.Count("transactions", int64(o.res.Txs))
		if o.err != nil {
			if r.Broken == "" {
				r.Broken = fmt.Sprintf("composition %v: %v\n%s", o.c.Kinds, o.err, tail(o.stderr, 2000))
			}
			continue
		}
		if o.res.Deadline {
			r.Count("deadline_not_judged", 1)
		}
		for sig, blk := range parseRaces(o.stderr) {
			r.Count("race_reports", 1)
			if !strings.Contains(sig, "pkg/") && strings.Contains(sig, "verifharness") {
				// both accesses inside the harness: a defect of the machinery, not of the repository
				if r.Broken == "" {
					r.Broken = "data race inside the harness itself: " + sig + "\n" + blk
				}
				continue
			}
			r.Violate("race/"+sig, clauseText, o.c, "composition "+strings.Join(o.c.Kinds, "+")+"\n"+blk)
		}
		for _, p := range o.res.Problems {
			cl := strings.SplitN(p, ":", 2)[0]
			r.Violate(cl+"/"+strings.Join(o.c.Kinds, "+"), clauseText, o.c, p)
		}
	}
	r.Count("compositions", int64(len(comps)))
}

func tail(s string, n int) string {
	if len(s) > n {
		return s[len(s)-n:]
	}
	return s
}
