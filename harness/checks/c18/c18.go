// Package c18: captured images equal the rows the statement actually changed (Mode S).
// The same executions also feed C03 part A (lock keys cover written rows).
package c18

import (
	"encoding/json"
	"fmt"
	"os"
	"sort"
	"strconv"
	"strings"
	"time"

	"seata.apache.org/seata-go/pkg/datasource/sql/types"
	sundo "seata.apache.org/seata-go/pkg/datasource/sql/undo"
	"seata.apache.org/seata-go/pkg/datasource/sql/undo/base"
	"seata.apache.org/seata-go/pkg/protocol/message"

	"verifharness/atrun"
	"verifharness/faketc"
	"verifharness/gen"
	"verifharness/memdb"
	"verifharness/rep"
	"verifharness/sys"
)

// ---- statement space ---------------------------------------------------------------

type Case struct {
	Schema   string   `json:"schema"`
	Stmt     gen.Stmt `json:"stmt"`
	OnlyCare bool     `json:"only_care_update_columns"`
	Init     []int    `json:"init"`
}

type Located struct {
	Idx  int    `json:"idx"`
	Tier string `json:"tier"`
	Case Case   `json:"case"`
}

type atom struct {
	text string        // with %s placeholders for values
	vals []interface{} // the literal values
}

func atomsFor(s *gen.Schema) []atom {
	switch s.ID {
	case "s1":
		return []atom{{"id = %s", []interface{}{int64(1)}}, {"id IN (%s, %s)", []interface{}{int64(2), int64(3)}}, {"id BETWEEN %s AND %s", []interface{}{int64(1), int64(2)}},
			{"cnt < %s", []interface{}{25}}, {"name = %s", []interface{}{"b"}}, {"cnt >= %s", []interface{}{20}}, {"id = %s", []interface{}{int64(404)}}}
	case "s3":
		return []atom{{"a = %s", []interface{}{1}}, {"b = %s", []interface{}{"x"}}, {"(a = %s AND b = %s)", []interface{}{1, "y"}}, {"cnt > %s", []interface{}{15}}, {"b IN (%s, %s)", []interface{}{"x", "z_1"}}}
	case "s4":
		return []atom{{"code = %s", []interface{}{"k1"}}, {"code IN (%s, %s)", []interface{}{"k2", "0123"}}, {"cnt BETWEEN %s AND %s", []interface{}{15, 35}}, {"note = %s", []interface{}{"odd"}}}
	case "s2":
		return []atom{{"id = %s", []interface{}{2}}, {"id <= %s", []interface{}{2}}, {"name = %s", []interface{}{"c"}}, {"cnt > %s", []interface{}{15}}}
	case "s5":
		return []atom{{"id = %s", []interface{}{int64(1)}}, {"email = %s", []interface{}{"b@x"}}, {"score > %s", []interface{}{0.05}}, {"id IN (%s, %s)", []interface{}{int64(3), int64(4)}}}
	case "s7":
		return []atom{{"id = %s", []interface{}{2}}, {"ref_id = %s", []interface{}{10}}, {"idx >= %s", []interface{}{200}}, {"ref_id IS NULL", nil}}
	case "s8":
		return []atom{{"id = %s", []interface{}{2}}, {"email = %s", []interface{}{"a@x"}}, {"cnt >= %s", []interface{}{20}}, {"email IS NULL", nil}}
	}
	return nil
}

func lit(v interface{}) string {
	switch x := v.(type) {
	case string:
		return "'" + strings.ReplaceAll(x, "'", "''") + "'"
	}
	return fmt.Sprint(v)
}

// render builds SQL text and argument list from a template whose value slots are bound (mask bit set) or literal.
func render(tmpl string, vals []interface{}, mask int) (string, []interface{}) {
	var args []interface{}
	parts := strings.Split(tmpl, "%s")
	var sb strings.Builder
	for i, p := range parts {
		sb.WriteString(p)
		if i < len(vals) {
			if mask&(1<<i) != 0 {
				sb.WriteString("?")
				args = append(args, vals[i])
			} else {
				sb.WriteString(lit(vals[i]))
			}
		}
	}
	return sb.String(), args
}

func setsFor(s *gen.Schema) []atom {
	switch s.ID {
	case "s1":
		return []atom{{"cnt = %s", []interface{}{5}}, {"name = %s", []interface{}{"q"}}, {"name = %s, cnt = %s", []interface{}{"q", 6}}, {"cnt = cnt + %s", []interface{}{1}}}
	case "s2":
		return []atom{{"cnt = %s", []interface{}{5}}, {"name = %s, cnt = cnt + %s", []interface{}{"q", 1}}}
	case "s3":
		return []atom{{"cnt = %s", []interface{}{5}}, {"v = %s", []interface{}{"w"}}, {"v = %s, cnt = %s", []interface{}{"w", 7}}}
	case "s4":
		return []atom{{"cnt = %s", []interface{}{5}}, {"note = %s, cnt = cnt + %s", []interface{}{"nn", 2}}}
	case "s5":
		return []atom{{"score = %s", []interface{}{4.5}}, {"memo = %s, email = %s", []interface{}{"mm", "z@x"}}}
	case "s7":
		return []atom{{"ref_id = %s", []interface{}{5}}, {"idx = idx + %s, ref_id = %s", []interface{}{1, 6}}}
	case "s8":
		return []atom{{"cnt = %s", []interface{}{5}}, {"email = %s, cnt = cnt + %s", []interface{}{"z@x", 1}}}
	}
	return nil
}

// whereExprs combines atoms: single, AND, OR, (a OR b) AND c, NOT (thorough adds more triples).
func whereExprs(as []atom, thorough bool) []atom {
	var out []atom
	out = append(out, as...)
	join := func(f string, xs ...atom) atom {
		var vals []interface{}
		texts := make([]interface{}, len(xs))
		for i, x := range xs {
			texts[i] = x.text
			vals = append(vals, x.vals...)
		}
		return atom{fmt.Sprintf(f, texts...), vals}
	}
	for i := range as {
		for j := range as {
			if i == j {
				continue
			}
			out = append(out, join("%s AND %s", as[i], as[j]))
			if i < j {
				out = append(out, join("%s OR %s", as[i], as[j]))
				out = append(out, join("(%s OR %s)", as[i], as[j]))
			}
		}
	}
	n := len(as)
	if !thorough && n > 4 {
		n = 4
	}
	for i := 0; i < n; i++ {
		for j := i + 1; j < n; j++ {
			for k := 0; k < len(as); k++ {
				if k == i || k == j {
					continue
				}
				out = append(out, join("(%s OR %s) AND %s", as[i], as[j], as[k]))
				if thorough {
					out = append(out, join("%s AND (%s OR (%s))", as[k], as[i], as[j]))
				}
			}
		}
	}
	out = append(out, join("NOT (%s)", as[0]))
	return out
}

func masks(nvals int, thorough bool) []int {
	if nvals == 0 {
		return []int{0}
	}
	all := 1<<nvals - 1
	if nvals <= 6 || thorough && nvals <= 8 {
		var out []int
		for m := 0; m <= all; m++ {
			out = append(out, m)
		}
		return out
	}
	// none, all, each single, alternating
	out := []int{0, all}
	for i := 0; i < nvals; i++ {
		out = append(out, 1<<i)
	}
	out = append(out, 0x55&all, 0xaa&all)
	return out
}

// Statements generates the grammar statements of one schema.
func Statements(s *gen.Schema, thorough bool) []gen.Stmt {
	var out []gen.Stmt
	out = append(out, s.Alphabet(true)...)
	if s.ID == "s6" {
		return out
	}
	ws := whereExprs(atomsFor(s), thorough)
	n := 0
	add := func(kind, tmpl string, vals []interface{}) {
		for _, m := range masks(len(vals), thorough) {
			q, args := render(tmpl, vals, m)
			n++
			out = append(out, gen.Stmt{Name: fmt.Sprintf("g%d", n), Kind: kind, SQL: q, Args: args})
		}
	}
	for _, w := range ws {
		for _, set := range setsFor(s) {
			add("update", "UPDATE "+s.Table+" SET "+set.text+" WHERE "+w.text, append(append([]interface{}{}, set.vals...), w.vals...))
		}
		add("delete", "DELETE FROM "+s.Table+" WHERE "+w.text, w.vals)
	}
	// ORDER BY / LIMIT
	first := atomsFor(s)[0]
	key := s.PK[0]
	for _, tail := range []atom{{" ORDER BY " + key + " DESC LIMIT %s", []interface{}{1}}, {" ORDER BY " + key + " LIMIT %s", []interface{}{2}}, {" LIMIT %s", []interface{}{1}}} {
		set := setsFor(s)[0]
		add("update", "UPDATE "+s.Table+" SET "+set.text+" WHERE NOT ("+first.text+")"+tail.text, append(append(append([]interface{}{}, set.vals...), first.vals...), tail.vals...))
		add("delete", "DELETE FROM "+s.Table+" WHERE NOT ("+first.text+")"+tail.text, append(append([]interface{}{}, first.vals...), tail.vals...))
	}
	// statements that must be rejected: assignment to a key column
	switch s.ID {
	case "s1":
		out = append(out, gen.Stmt{Name: "pk-assign", Kind: "update-pk", SQL: "UPDATE t_s1 SET id = 50 WHERE id = 1"},
			gen.Stmt{Name: "pk-assign-bound", Kind: "update-pk", SQL: "UPDATE t_s1 SET id = ?, cnt = 1 WHERE id = ?", Args: []interface{}{int64(51), int64(2)}},
			gen.Stmt{Name: "pk-assign-same", Kind: "update-pk", SQL: "UPDATE t_s1 SET id = id + 100 WHERE cnt >= 20"},
			gen.Stmt{Name: "ups-pk-assign", Kind: "upsert-pk", SQL: "INSERT INTO t_s1 (id, name, cnt) VALUES (1, 'z', 9) ON DUPLICATE KEY UPDATE id = 60"},
			// the key column spelled in another letter case than the table meta spells it (column names are case-insensitive)
			gen.Stmt{Name: "ups-pk-assign-upper", Kind: "upsert-pk", SQL: "INSERT INTO t_s1 (id, name, cnt) VALUES (1, 'z', 9) ON DUPLICATE KEY UPDATE ID = ID + 100"},
			gen.Stmt{Name: "pk-assign-upper", Kind: "update-pk", SQL: "UPDATE t_s1 SET ID = 52 WHERE id = 1"},
			// keys shifting into each other: some old key values exist again afterwards (as other rows)
			gen.Stmt{Name: "pk-assign-shift", Kind: "update-pk", SQL: "UPDATE t_s1 SET id = id + 1 WHERE id IN (2, 3) ORDER BY id DESC"},
			gen.Stmt{Name: "pk-assign-shift-bound", Kind: "update-pk", SQL: "UPDATE t_s1 SET id = id + ?, cnt = cnt + 1 WHERE id >= ? ORDER BY id DESC", Args: []interface{}{int64(1), int64(2)}},
			gen.Stmt{Name: "pk-assign-swap-down", Kind: "update-pk", SQL: "UPDATE t_s1 SET id = id - 1 WHERE id IN (2, 3) AND cnt >= 20 ORDER BY id"})
	case "s3":
		out = append(out, gen.Stmt{Name: "pk-assign", Kind: "update-pk", SQL: "UPDATE t_s3 SET b = 'new' WHERE a = 1 AND b = 'x'"})
	case "s4":
		out = append(out, gen.Stmt{Name: "pk-assign", Kind: "update-pk", SQL: "UPDATE t_s4 SET code = 'kk' WHERE code = 'k1'"})
	}
	// multi-statement strings (multi-update / multi-delete executors)
	switch s.ID {
	case "s1":
		out = append(out,
			gen.Stmt{Name: "multi-upd-2", Kind: "multi-update", SQL: "UPDATE t_s1 SET cnt = 1 WHERE id = 1; UPDATE t_s1 SET cnt = 2 WHERE id = 2"},
			gen.Stmt{Name: "multi-upd-2-bound", Kind: "multi-update", SQL: "UPDATE t_s1 SET cnt = ? WHERE id = ?; UPDATE t_s1 SET name = ? WHERE id = ?", Args: []interface{}{1, int64(1), "m", int64(2)}},
			gen.Stmt{Name: "multi-upd-3", Kind: "multi-update", SQL: "UPDATE t_s1 SET cnt = 1 WHERE id = 1; UPDATE t_s1 SET cnt = 2 WHERE id = 2; UPDATE t_s1 SET cnt = cnt + 1 WHERE id = 1"},
			gen.Stmt{Name: "multi-del-2", Kind: "multi-delete", SQL: "DELETE FROM t_s1 WHERE id = 1; DELETE FROM t_s1 WHERE cnt >= 30"},
			gen.Stmt{Name: "multi-del-2-bound", Kind: "multi-delete", SQL: "DELETE FROM t_s1 WHERE id = ?; DELETE FROM t_s1 WHERE id = ?", Args: []interface{}{int64(1), int64(2)}},
			gen.Stmt{Name: "multi-del-3", Kind: "multi-delete", SQL: "DELETE FROM t_s1 WHERE id = 1; DELETE FROM t_s1 WHERE id = 2; DELETE FROM t_s1 WHERE id = 404"},
			// a statement without WHERE among statements with one, in every position
			gen.Stmt{Name: "multi-del-nowhere-first", Kind: "multi-delete", SQL: "DELETE FROM t_s1; DELETE FROM t_s1 WHERE id = 2"},
			gen.Stmt{Name: "multi-del-nowhere-last", Kind: "multi-delete", SQL: "DELETE FROM t_s1 WHERE id = 2; DELETE FROM t_s1"},
			gen.Stmt{Name: "multi-del-nowhere-middle", Kind: "multi-delete", SQL: "DELETE FROM t_s1 WHERE id = ?; DELETE FROM t_s1; DELETE FROM t_s1 WHERE id = ?", Args: []interface{}{int64(1), int64(3)}},
			gen.Stmt{Name: "multi-upd-nowhere-first", Kind: "multi-update", SQL: "UPDATE t_s1 SET cnt = 0; UPDATE t_s1 SET cnt = 5 WHERE id = 2"})
	}
	// VALUES lists mixing literal, parameter, NULL, DEFAULT over 1..3 rows
	if s.ID == "s1" {
		cells := [][]atom{ // id, name, cnt
			{{"%s", []interface{}{int64(5)}}}, {{"%s", []interface{}{"e"}}, {"NULL", nil}}, {{"%s", []interface{}{50}}, {"DEFAULT", nil}},
		}
		k := 0
		for rows := 1; rows <= 3; rows++ {
			for _, nameCell := range cells[1] {
				for _, cntCell := range cells[2] {
					var tuples []string
					var vals []interface{}
					for r := 0; r < rows; r++ {
						tuples = append(tuples, "(%s, "+nameCell.text+", "+cntCell.text+")")
						vals = append(vals, int64(5+r))
						vals = append(vals, nameCell.vals...)
						vals = append(vals, cntCell.vals...)
					}
					for _, m := range masks(len(vals), thorough) {
						q, args := render("INSERT INTO t_s1 (id, name, cnt) VALUES "+strings.Join(tuples, ", "), vals, m)
						k++
						out = append(out, gen.Stmt{Name: fmt.Sprintf("v%d", k), Kind: "insert", SQL: q, Args: args})
					}
				}
			}
		}
	}
	if s.ID == "s1" {
		// key column not first, string literal before it
		k := 0
		for rows := 1; rows <= 2; rows++ {
			var tuples []string
			var vals []interface{}
			for r := 0; r < rows; r++ {
				tuples = append(tuples, "(%s, %s, %s)")
				vals = append(vals, fmt.Sprintf("n%d", r), int64(5+r), 50+r)
			}
			for _, m := range masks(len(vals), thorough) {
				q, args := render("INSERT INTO t_s1 (name, id, cnt) VALUES "+strings.Join(tuples, ", "), vals, m)
				k++
				out = append(out, gen.Stmt{Name: fmt.Sprintf("vk%d", k), Kind: "insert", SQL: q, Args: args})
			}
		}
	}
	if s.ID == "s2" {
		// auto-increment batches
		for rows := 1; rows <= 3; rows++ {
			var tuples []string
			var vals []interface{}
			for r := 0; r < rows; r++ {
				tuples = append(tuples, "(%s, %s)")
				vals = append(vals, fmt.Sprintf("n%d", r), 10*r)
			}
			for _, m := range masks(len(vals), thorough) {
				q, args := render("INSERT INTO t_s2 (name, cnt) VALUES "+strings.Join(tuples, ", "), vals, m)
				out = append(out, gen.Stmt{Name: fmt.Sprintf("auto%d-%d", rows, m), Kind: "insert", SQL: q, Args: args})
			}
		}
	}
	return out
}

// Enumerate yields every case in a fixed order.
func Enumerate(thorough bool, yield func(idx int, c Case)) int {
	idx := 0
	for _, s := range gen.Schemas {
		init := []int{0, 1, 2}
		for _, st := range Statements(s, thorough) {
			for _, oc := range []bool{true, false} {
				yield(idx, Case{Schema: s.ID, Stmt: st, OnlyCare: oc, Init: init})
				idx++
			}
		}
	}
	return idx
}

// ---- execution and oracles ----------------------------------------------------------

// Observed is what one statement run inside a committed global transaction produced.
type Observed struct {
	Obs       *atrun.Obs
	StmtErr   string
	Diff      []memdb.RowChange // rows the business statement changed (memdb's statement diff)
	Logs      []sundo.SQLUndoLog
	DecodeErr string
	Registers []message.BranchRegisterRequest
	CommitWS  []memdb.RowChange // business-table rows of the local commit write set
	Errors    []string
}

// RunStatement runs one statement alone (autocommit) inside a global transaction that commits.
func RunStatement(e *sys.Env, c Case) (*Observed, string) {
	s := gen.SchemaByID(c.Schema)
	if err := atrun.Reset(e, s, c.Init); err != nil {
		return nil, err.Error()
	}
	cfg := sys.DefaultUndo
	cfg.OnlyCareUpdateColumns = c.OnlyCare
	sundo.UndoConfig = cfg
	sys.TakeErrors()
	p := gen.Program{Schema: c.Schema, Steps: []gen.Step{{Stmt: c.Stmt}}, Init: c.Init}
	out := &Observed{}
	// observe the undo log before phase two deletes it: RunGlobal snapshots Mid before driving phase two
	o := atrun.RunGlobal(e, p, "commit", nil)
	sundo.UndoConfig = sys.DefaultUndo
	out.Obs = o
	out.Errors = sys.TakeErrors()
	if len(o.Steps) > 0 {
		out.StmtErr = o.Steps[0].Err + o.Steps[0].Panic
	}
	table := strings.ToLower(s.Table)
	for _, j := range o.Journal {
		if j.Kind == "exec" && j.SQL == c.Stmt.SQL {
			out.Diff = append(out.Diff, j.Diff...)
		}
		if j.Kind == "commit" {
			for _, ch := range j.Diff {
				if strings.ToLower(ch.Table) == table {
					out.CommitWS = append(out.CommitWS, ch)
				}
			}
		}
	}
	for _, row := range o.Mid["undo_log"] {
		// columns: id, branch_id, xid, context, rollback_info, log_status, ...
		ctxb, _ := row[3].(string)
		info, _ := row[4].(string)
		if fmt.Sprint(row[5]) != "0" {
			continue
		}
		func() {
			defer func() {
				if r := recover(); r != nil {
					out.DecodeErr = fmt.Sprintf("panic: %v", r)
				}
			}()
			bl, err := base.VerifDecode([]byte(ctxb), []byte(info))
			if err != nil {
				out.DecodeErr = err.Error()
				return
			}
			out.Logs = append(out.Logs, bl.Logs...)
		}()
	}
	for _, ev := range o.Events {
		if ev.Dir == "c2s" {
			if req, ok := ev.Msg.Body.(message.BranchRegisterRequest); ok {
				out.Registers = append(out.Registers, req)
			}
		}
	}
	return out, ""
}

func valueEq(img interface{}, db memdb.Value) bool {
	if img == nil || db == nil {
		return img == nil && db == nil
	}
	switch x := db.(type) {
	case time.Time:
		if t, ok := img.(time.Time); ok {
			return t.Equal(x)
		}
		if s, ok := img.(string); ok {
			if t, err := time.Parse(time.RFC3339Nano, s); err == nil {
				return t.Equal(x)
			}
		}
		return false
	case string:
		switch y := img.(type) {
		case string:
			return y == x
		case []byte:
			return string(y) == x
		}
		if f, err := strconv.ParseFloat(x, 64); err == nil {
			return numEq(img, f)
		}
		return fmt.Sprint(img) == x
	case int64:
		return numEq(img, float64(x))
	case uint64:
		return numEq(img, float64(x))
	case float64:
		return numEq(img, x)
	}
	return fmt.Sprint(img) == fmt.Sprint(db)
}

func numEq(img interface{}, f float64) bool {
	switch y := img.(type) {
	case int64:
		return float64(y) == f
	case int32:
		return float64(y) == f
	case int16:
		return float64(y) == f
	case int8:
		return float64(y) == f
	case int:
		return float64(y) == f
	case uint64:
		return float64(y) == f
	case float64:
		return y == f || float32(y) == float32(f)
	case float32:
		return float64(y) == f || y == float32(f)
	case string:
		g, err := strconv.ParseFloat(y, 64)
		return err == nil && g == f
	}
	return false
}

// imageMatches checks that image rows are exactly the given table rows (matched by primary key), restricted to the image's columns.
func imageMatches(t *memdb.Table, img *types.RecordImage, want []memdb.Row, wantCols map[string]bool, which string) string {
	nimg := 0
	if img != nil {
		nimg = len(img.Rows)
	}
	if nimg != len(want) {
		return fmt.Sprintf("%s image has %d rows, the statement changed %d", which, nimg, len(want))
	}
	if nimg == 0 {
		return ""
	}
	used := make([]bool, len(want))
	for ri, row := range img.Rows {
		cols := map[string]interface{}{}
		for _, c := range row.Columns {
			cols[strings.ToLower(c.ColumnName)] = c.Value
		}
		// locate by primary key
		found := -1
		for wi, w := range want {
			if used[wi] {
				continue
			}
			ok := true
			for _, ci := range t.PK {
				v, present := cols[strings.ToLower(t.Cols[ci].Name)]
				if !present || !valueEq(v, w[ci]) {
					ok = false
				}
			}
			if ok {
				found = wi
				break
			}
		}
		if found < 0 {
			return fmt.Sprintf("%s image row %d (%v) is not a row the statement changed", which, ri, cols)
		}
		used[found] = true
		for ci := range t.Cols {
			name := strings.ToLower(t.Cols[ci].Name)
			v, present := cols[name]
			if wantCols != nil {
				if wantCols[name] && !present {
					return fmt.Sprintf("%s image row %d lacks column %s", which, ri, name)
				}
			} else if !present {
				return fmt.Sprintf("%s image row %d lacks column %s", which, ri, name)
			}
			if present && !valueEq(v, want[found][ci]) {
				return fmt.Sprintf("%s image row %d column %s = %#v, the database had %#v", which, ri, name, v, want[found][ci])
			}
		}
		for name := range cols {
			if t.ColIndexPublic(name) < 0 {
				return fmt.Sprintf("%s image row %d has unknown column %s", which, ri, name)
			}
		}
	}
	return ""
}

// updatedColumns extracts the assigned column names of an UPDATE / ON DUPLICATE KEY UPDATE from the SQL text (memdb's parser).
func updatedColumns(sql string) map[string]bool {
	cols := memdb.AssignedColumns(sql)
	out := map[string]bool{}
	for _, c := range cols {
		out[strings.ToLower(c)] = true
	}
	return out
}

// Check18 applies the image oracle; returns (clause, detail) or "".
func Check18(e *sys.Env, c Case, ob *Observed) (string, string) {
	s := gen.SchemaByID(c.Schema)
	t := e.Srv.TableDef(s.Table)
	if strings.HasSuffix(c.Stmt.Kind, "-pk") {
		// must be rejected and record nothing
		if ob.StmtErr == "" {
			return "pk-change-accepted", fmt.Sprintf("statement changing a primary key was executed (diff %d rows, %d undo logs)", len(ob.Diff), len(ob.Logs))
		}
		if len(ob.CommitWS) > 0 {
			return "rejected-but-committed", fmt.Sprintf("rejected with %q but %d rows were committed", ob.StmtErr, len(ob.CommitWS))
		}
		return "", ""
	}
	if ob.StmtErr != "" && os.Getenv("VERIF_REJECTS") != "" {
		fmt.Printf("REJECT %s | %s | %q\n", cause(ob), ob.StmtErr, c.Stmt.SQL)
	}
	if ob.StmtErr != "" {
		// a statement whose rows cannot be identified may be rejected - then nothing may be recorded or committed
		if len(ob.CommitWS) > 0 {
			return "rejected-but-committed", fmt.Sprintf("rejected with %q but %d rows were committed", ob.StmtErr, len(ob.CommitWS))
		}
		return "", ""
	}
	if ob.DecodeErr != "" {
		return "", "" // C08's matter
	}
	var before, after []memdb.Row
	for _, d := range ob.Diff {
		if d.Before != nil {
			before = append(before, d.Before)
		}
		if d.After != nil {
			after = append(after, d.After)
		}
	}
	// a multi-statement string may touch one row twice: the images then describe first-before / last-after per key
	before, after = collapse(t, ob.Diff)
	if len(ob.Diff) == 0 {
		// rows the statement matched without changing them may be recorded (before = after = table content); anything else is a phantom
		pre := ob.Obs.Pre[strings.ToLower(t.Name)]
		for _, l := range ob.Logs {
			for _, img := range []*types.RecordImage{l.BeforeImage, l.AfterImage} {
				if img == nil {
					continue
				}
				for _, row := range img.Rows {
					same := false
					for _, p := range pre {
						ok := true
						for _, col := range row.Columns {
							ci := t.ColIndexPublic(col.ColumnName)
							if ci < 0 || !valueEq(col.Value, p[ci]) {
								ok = false
							}
						}
						if ok {
							same = true
						}
					}
					if !same {
						return "phantom-rows", fmt.Sprintf("statement changed nothing but an image holds a row that is not in the table: %+v", row.Columns)
					}
				}
			}
		}
		return "", ""
	}
	if len(ob.Logs) == 0 {
		return "no-image", fmt.Sprintf("statement changed %d rows but no undo log was recorded", len(ob.Diff))
	}
	// gather image rows over all logs of the statement
	var bimg, aimg types.RecordImage
	for _, l := range ob.Logs {
		if l.BeforeImage != nil {
			bimg.Rows = append(bimg.Rows, l.BeforeImage.Rows...)
		}
		if l.AfterImage != nil {
			aimg.Rows = append(aimg.Rows, l.AfterImage.Rows...)
		}
	}
	var wantCols map[string]bool
	if c.OnlyCare && c.Stmt.Kind == "insert" {
		// "updated columns" of an INSERT are the columns it names
		if cols := memdb.InsertColumns(c.Stmt.SQL); len(cols) > 0 {
			wantCols = map[string]bool{}
			for _, cn := range cols {
				wantCols[strings.ToLower(cn)] = true
			}
			for _, ci := range t.PK {
				wantCols[strings.ToLower(t.Cols[ci].Name)] = true
			}
		}
	}
	if c.OnlyCare && (c.Stmt.Kind == "update" || c.Stmt.Kind == "multi-update") {
		wantCols = updatedColumns(c.Stmt.SQL)
		for _, ci := range t.PK {
			wantCols[strings.ToLower(t.Cols[ci].Name)] = true
		}
	}
	// rows matched but unchanged by an UPDATE may legitimately appear in both images: allow a superset only of such rows
	if d := imageMatchesLoose(t, &bimg, before, wantCols, "before", e, ob); d != "" {
		return "before-image", d
	}
	if d := imageMatchesLoose(t, &aimg, after, wantCols, "after", e, ob); d != "" {
		return "after-image", d
	}
	return "", ""
}

// collapse merges several changes of one key into first-before / last-after.
func collapse(t *memdb.Table, diff []memdb.RowChange) (before, after []memdb.Row) {
	type ba struct{ b, a memdb.Row }
	order := []string{}
	m := map[string]*ba{}
	for _, d := range diff {
		k := fmt.Sprint(d.PK)
		x, ok := m[k]
		if !ok {
			x = &ba{b: d.Before}
			m[k] = x
			order = append(order, k)
		}
		x.a = d.After
	}
	for _, k := range order {
		if m[k].b != nil {
			before = append(before, m[k].b)
		}
		if m[k].a != nil {
			after = append(after, m[k].a)
		}
	}
	return
}

// imageMatchesLoose: image rows must include every changed row with the right content; an additional image row is
// tolerated only if it is a row the statement matched without changing it (its content then equals the table's, before and after).
func imageMatchesLoose(t *memdb.Table, img *types.RecordImage, want []memdb.Row, wantCols map[string]bool, which string, e *sys.Env, ob *Observed) string {
	if len(img.Rows) > len(want) {
		// split image rows into changed / unchanged by comparing with the pre-state of the table
		pre := ob.Obs.Pre[strings.ToLower(t.Name)]
		var keep []types.RowImage
		for _, row := range img.Rows {
			cols := map[string]interface{}{}
			for _, c := range row.Columns {
				cols[strings.ToLower(c.ColumnName)] = c.Value
			}
			isWanted := false
			for _, w := range want {
				ok := true
				for _, ci := range t.PK {
					v, present := cols[strings.ToLower(t.Cols[ci].Name)]
					if !present || !valueEq(v, w[ci]) {
						ok = false
					}
				}
				if ok {
					isWanted = true
				}
			}
			if isWanted {
				keep = append(keep, row)
				continue
			}
			// unchanged row? must equal the committed pre-state row with that key on every image column
			same := false
			for _, p := range pre {
				ok := true
				for _, c := range row.Columns {
					ci := t.ColIndexPublic(c.ColumnName)
					if ci < 0 || !valueEq(c.Value, p[ci]) {
						ok = false
					}
				}
				if ok {
					same = true
				}
			}
			if !same {
				return fmt.Sprintf("%s image holds a row the statement did not touch and that does not equal any table row: %v", which, cols)
			}
		}
		cp := *img
		cp.Rows = keep
		img = &cp
	}
	return imageMatches(t, img, want, wantCols, which)
}

// Check03A applies the lock-key oracle: keys sent before the local commit cover every written row; returns key texts per row.
func Check03A(e *sys.Env, c Case, ob *Observed) (clause, detail string, texts map[string]string) {
	s := gen.SchemaByID(c.Schema)
	t := e.Srv.TableDef(s.Table)
	texts = map[string]string{}
	if len(ob.CommitWS) == 0 {
		return "", "", texts
	}
	keys := map[string]bool{}
	for _, req := range ob.Registers {
		for _, k := range faketc.ParseLockKey(req.LockKey) {
			keys[k] = true
		}
	}
	table := strings.ToLower(t.Name)
	for _, ch := range ob.CommitWS {
		var vals []string
		for _, v := range ch.PK {
			vals = append(vals, string(memdb.TextOf(v)))
		}
		cand := permutations(vals)
		hit := ""
		for _, p := range cand {
			k := table + ":" + strings.Join(p, "_")
			if keys[k] {
				hit = k
				break
			}
		}
		if hit == "" {
			var ks []string
			for k := range keys {
				ks = append(ks, k)
			}
			sort.Strings(ks)
			return "uncovered", fmt.Sprintf("committed write to %s pk %v is not named by the lock keys %v (registrations: %d)", table, ch.PK, ks, len(ob.Registers)), texts
		}
		texts[table+"|"+strings.Join(vals, "\x1f")] = hit
	}
	return "", "", texts
}

func permutations(v []string) [][]string {
	if len(v) <= 1 {
		return [][]string{v}
	}
	var out [][]string
	for i := range v {
		rest := append(append([]string{}, v[:i]...), v[i+1:]...)
		for _, p := range permutations(rest) {
			out = append(out, append([]string{v[i]}, p...))
		}
	}
	return out
}

func cause(ob *Observed) string {
	all := ob.StmtErr + " || " + strings.Join(ob.Errors, " || ")
	pats := []struct{ sub, name string }{
		{"pkIndex is not found", "insert-without-column-list"}, {"PK columnName size", "composite-pk-insert"}, {"Unknown column '_UTF8MB4", "string-literal-in-image-sql"},
		{"Incorrect arguments to EXECUTE", "image-sql-arguments"}, {"invalid insert or update sql", "upsert-without-key"}, {"nil pointer", "nil-deref"}, {"index out of range", "index-out-of-range"},
		{"You have an error in your SQL syntax", "image-sql-syntax"}, {"Before image size", "image-size-mismatch"},
	}
	for _, p := range pats {
		if strings.Contains(all, p.sub) {
			return p.name
		}
	}
	return "-"
}

func Run(r *rep.Run) { run(r, "C18") }

// Run03A is C03 part A over the same space.
func Run03A(r *rep.Run) { run(r, "C03") }

func run(r *rep.Run, prop string) {
	thorough := r.Tier == "thorough"
	if prop == "C18" {
		r.Rule = "statements generated from a grammar over schemas s1-s5 (WHERE: comparison, AND/OR, IN, BETWEEN, parentheses, NOT; ORDER BY/LIMIT; every placement of bound parameters for <=3 value slots, representative placements beyond; VALUES lists of 1-3 rows mixing literal, parameter, NULL, DEFAULT; auto-increment batches; upserts; multi-statement UPDATE/DELETE strings; key-assigning statements) plus the hand-written alphabets incl. the all-types table; x both settings of only-care-update-columns; " +
			"each runs alone in a committed global transaction; images are read back from the stored undo_log through the real decode chain and compared with memdb's row-level statement diff. Non-trivial = the statement changed at least one row."
	} else {
		r.Rule = "part A: the C18 statement space; for each local commit, the (table, pk) set of memdb's commit write set must be covered by the lock keys of the BranchRegister requests received before the COMMIT, and one row must always yield one key text. Non-trivial = commit write set not empty."
	}
	r.Assume = []string{"memdb assumptions A1-A7", "image values are compared loosely (numeric by value, text by content): encoding fidelity is C08's property"}
	shard, nshards, worker := rep.Shard()
	if !worker {
		if replay := os.Getenv("VERIF_REPLAY"); replay != "" {
			replayCase(r, prop, replay)
			return
		}
		total := Enumerate(thorough, func(int, Case) {})
		r.Extra["space_size"] = total
		rep.RunSharded(r, 16, 25*time.Minute)
		if prop == "C03" {
			mergeTexts(r)
		}
		return
	}
	e := atrun.EnvFor("c18", sys.Options{NoXA: true})
	texts := map[string]map[string]bool{}
	Enumerate(thorough, func(idx int, c Case) {
		if idx%nshards != shard {
			return
		}
		evalCase(r, prop, e, c, idx, texts)
	})
	if prop == "C03" {
		r.Extra["key_texts_"+strconv.Itoa(shard)] = flatten(texts)
	}
}

func flatten(t map[string]map[string]bool) map[string][]string {
	out := map[string][]string{}
	for k, m := range t {
		for x := range m {
			out[k] = append(out[k], x)
		}
		sort.Strings(out[k])
	}
	return out
}

// mergeTexts checks key-text consistency across all shards (one row -> one text).
func mergeTexts(r *rep.Run) {
	all := map[string]map[string]bool{}
	for k, v := range r.Extra {
		if !strings.HasPrefix(k, "key_texts_") {
			continue
		}
		if m, ok := v.(map[string]interface{}); ok {
			for row, xs := range m {
				if all[row] == nil {
					all[row] = map[string]bool{}
				}
				for _, x := range xs.([]interface{}) {
					all[row][fmt.Sprint(x)] = true
				}
			}
		}
		delete(r.Extra, k)
	}
	rows := 0
	for row, m := range all {
		rows++
		if len(m) > 1 {
			var xs []string
			for x := range m {
				xs = append(xs, x)
			}
			sort.Strings(xs)
			r.Violate("keytext/"+strings.SplitN(row, "|", 2)[0], "the same row always yields the same key text", row, fmt.Sprintf("row %q was locked under the texts %v", row, xs))
		}
	}
	r.Extra["rows_with_key_text"] = rows
}

func evalCase(r *rep.Run, prop string, e *sys.Env, c Case, idx int, texts map[string]map[string]bool) {
	ob, broken := RunStatement(e, c)
	if broken != "" {
		r.Broken = broken
		return
	}
	loc := Located{idx, r.Tier, c}
	care := "care"
	if !c.OnlyCare {
		care = "all"
	}
	name := c.Stmt.Name
	if strings.HasPrefix(name, "g") || strings.HasPrefix(name, "v") || strings.HasPrefix(name, "auto") {
		name = shapeOf(c.Stmt)
	}
	if os.Getenv("VERIF_TRACE") != "" {
		fmt.Printf("==== %d %s %q %v care=%v\n  stmtErr=%q decodeErr=%q diff=%v\n  commitWS=%v\n  errors=%v\n", idx, c.Stmt.Name, c.Stmt.SQL, c.Stmt.Args, c.OnlyCare, ob.StmtErr, ob.DecodeErr, ob.Diff, ob.CommitWS, ob.Errors)
		for _, l := range ob.Logs {
			b, _ := json.Marshal(l)
			fmt.Printf("  log %s\n", b)
		}
		for _, rq := range ob.Registers {
			fmt.Printf("  register lockKey=%q\n", rq.LockKey)
		}
		for _, j := range ob.Obs.Journal {
			fmt.Printf("  db c%d t%d %s %q %v err=%q\n", j.Conn, j.Txn, j.Kind, j.SQL, j.Args, j.Err)
		}
	}
	if prop == "C18" {
		r.Eval(len(ob.Diff) > 0)
		if ob.StmtErr != "" {
			r.Count("statements_rejected_by_proxy", 1)
		}
		if idx%499 == 0 {
			r.Sample(map[string]interface{}{"schema": c.Schema, "sql": c.Stmt.SQL, "args": fmt.Sprint(c.Stmt.Args), "only_care": c.OnlyCare, "rows_changed": len(ob.Diff), "undo_logs": len(ob.Logs), "error": ob.StmtErr})
		}
		if clause, detail := Check18(e, c, ob); clause != "" {
			r.Violate(fmt.Sprintf("%s/%s/%s/%s/%s/%s", clause, cause(ob), c.Schema, c.Stmt.Kind, name, care), "images equal the rows the statement changed; unidentifiable or key-changing statements are rejected and record nothing",
				loc, fmt.Sprintf("%s | sql=%q args=%v err=%q client errors: %s", detail, c.Stmt.SQL, c.Stmt.Args, ob.StmtErr, strings.Join(ob.Errors, " || ")))
		}
		return
	}
	// C03 part A
	r.Eval(len(ob.CommitWS) > 0)
	if idx%499 == 0 {
		var lk []string
		for _, rq := range ob.Registers {
			lk = append(lk, rq.LockKey)
		}
		r.Sample(map[string]interface{}{"schema": c.Schema, "sql": c.Stmt.SQL, "args": fmt.Sprint(c.Stmt.Args), "lock_keys": lk, "rows_committed": len(ob.CommitWS)})
	}
	clause, detail, tx := Check03A(e, c, ob)
	if clause != "" {
		r.Violate(fmt.Sprintf("%s/%s/%s/%s/%s", clause, cause(ob), c.Schema, c.Stmt.Kind, name), "lock keys name every row the local transaction wrote", loc,
			fmt.Sprintf("%s | sql=%q args=%v err=%q", detail, c.Stmt.SQL, c.Stmt.Args, ob.StmtErr))
	}
	// the registration must precede the local commit
	for k, v := range tx {
		if texts[k] == nil {
			texts[k] = map[string]bool{}
		}
		texts[k][v] = true
	}
}

// shapeOf abstracts a generated statement into its structural shape (for stable, coarse signatures).
func shapeOf(st gen.Stmt) string {
	q := st.SQL
	var feats []string
	for _, f := range []string{" OR ", " AND ", " IN (", " BETWEEN ", "NOT (", " ORDER BY ", " LIMIT ", "((", "DEFAULT", "NULL"} {
		if strings.Contains(q, f) {
			feats = append(feats, strings.ToLower(strings.Trim(f, " (")))
		}
	}
	if strings.Contains(q, "(") && strings.Contains(q, " WHERE (") || strings.Contains(q, " AND (") || strings.Contains(q, "(id = ") {
		feats = append(feats, "paren")
	}
	if strings.Count(q, "), (") > 0 {
		feats = append(feats, fmt.Sprintf("rows%d", strings.Count(q, "), (")+1))
	}
	switch {
	case len(st.Args) == 0:
		feats = append(feats, "literal")
	case strings.Count(q, "?") > 0 && !strings.ContainsAny(strings.SplitN(q, " WHERE ", 2)[0], "?"):
		feats = append(feats, "bound-where")
	case strings.Contains(q, " WHERE ") && !strings.Contains(strings.SplitN(q, " WHERE ", 2)[1], "?"):
		feats = append(feats, "bound-set")
	default:
		feats = append(feats, "bound-mixed")
	}
	return strings.Join(feats, ",")
}

func replayCase(r *rep.Run, prop, path string) {
	b, err := os.ReadFile(path)
	if err != nil {
		r.Broken = err.Error()
		return
	}
	var f struct {
		Case Located `json:"case"`
	}
	if err := json.Unmarshal(b, &f); err != nil {
		r.Broken = "replay file: " + err.Error()
		return
	}
	e := atrun.EnvFor("c18", sys.Options{NoXA: true})
	found := false
	Enumerate(f.Case.Tier == "thorough", func(idx int, c Case) {
		if idx == f.Case.Idx {
			found = true
			for i := 0; i < 3; i++ {
				evalCase(r, prop, e, c, idx, map[string]map[string]bool{})
			}
		}
	})
	if !found {
		r.Broken = "replay: case index not in the enumeration"
	}
}
