// Package c13: frame reader under every fragmentation (Mode B over the
// (consumed, received) graph of getty's receive loop).
package c13

import (
	"fmt"
	"reflect"
	"strings"
	"time"

	"seata.apache.org/seata-go/pkg/protocol/branch"
	"seata.apache.org/seata-go/pkg/protocol/codec"
	"seata.apache.org/seata-go/pkg/protocol/message"
	"seata.apache.org/seata-go/pkg/remoting/getty"

	"verifharness/rep"
	"verifharness/wire"
)

type frameSpec struct {
	Name string
	Msg  message.RpcMessage
}

func catalogue() []frameSpec {
	seata := byte(codec.CodecTypeSeata)
	mk := func(name string, id int32, typ message.GettyRequestType, hm map[string]string, body interface{}) frameSpec {
		return frameSpec{name, message.RpcMessage{ID: id, Type: typ, Codec: seata, Compressor: 0, HeadMap: hm, Body: body}}
	}
	beginReq := message.GlobalBeginRequest{Timeout: 60 * time.Second, TransactionName: "tx"}
	breg := message.BranchRegisterRequest{Xid: "10.0.0.1:8091:77", BranchType: branch.BranchTypeAT, ResourceId: "jdbc:mysql://h/db",
		LockKey: "t:" + strings.Repeat("1,", 120) + "2", ApplicationData: []byte(`{"k":1}`)}
	bcr := message.BranchCommitRequest{AbstractBranchEndRequest: message.AbstractBranchEndRequest{Xid: "x:1:2", BranchId: 1 << 40, BranchType: branch.BranchTypeTCC, ResourceId: "res", ApplicationData: []byte("data")}}
	gbrOK := message.GlobalBeginResponse{AbstractTransactionResponse: message.AbstractTransactionResponse{AbstractResultMessage: message.AbstractResultMessage{ResultCode: message.ResultCodeSuccess}}, Xid: "1.2.3.4:8091:9"}
	gbrFail := message.GlobalBeginResponse{AbstractTransactionResponse: message.AbstractTransactionResponse{AbstractResultMessage: message.AbstractResultMessage{ResultCode: message.ResultCodeFailed, Msg: "boom"}, TransactionErrorCode: 1}}
	regRM := message.RegisterRMRequest{AbstractIdentifyRequest: message.AbstractIdentifyRequest{Version: "1.1.0", ApplicationId: "app", TransactionServiceGroup: "grp"}, ResourceIds: "a,b"}
	return []frameSpec{
		mk("ping", 1, message.GettyRequestTypeHeartbeatRequest, nil, message.HeartBeatMessagePing),
		mk("pong", 2, message.GettyRequestTypeHeartbeatResponse, nil, message.HeartBeatMessagePong),
		mk("begin", 3, message.GettyRequestTypeRequestSync, nil, beginReq),
		mk("begin+hm", 4, message.GettyRequestTypeRequestSync, map[string]string{"a": "b"}, beginReq),
		mk("begin+emptykey", 5, message.GettyRequestTypeRequestSync, map[string]string{"": "v"}, beginReq),
		mk("begin+emptyval", 6, message.GettyRequestTypeRequestSync, map[string]string{"k": ""}, beginReq),
		mk("begin+emptyboth", 7, message.GettyRequestTypeRequestSync, map[string]string{"": ""}, beginReq),
		mk("breg+hm2", 8, message.GettyRequestTypeRequestOneway, map[string]string{"name": " Jack", "k2": "世界"}, breg),
		mk("bcommit", 0x7fffffff, message.GettyRequestTypeRequestSync, nil, bcr),
		mk("beginresp", 9, message.GettyRequestTypeResponse, nil, gbrOK),
		mk("beginfail", -5, message.GettyRequestTypeResponse, map[string]string{"k": "v"}, gbrFail),
		mk("regrm", 10, message.GettyRequestTypeRequestSync, nil, regRM),
		mk("ping+hm", 11, message.GettyRequestTypeHeartbeatRequest, map[string]string{"h": "b"}, message.HeartBeatMessagePing),
		mk("pong+emptyval", 12, message.GettyRequestTypeHeartbeatResponse, map[string]string{"hk": ""}, message.HeartBeatMessagePong),
		// frames around and beyond 64 KiB (legal: the default max message length is 102400)
		mk("breg-65535", 13, message.GettyRequestTypeRequestSync, nil, bigReg(65535)),
		mk("breg-65536", 14, message.GettyRequestTypeRequestSync, nil, bigReg(65536)),
		mk("breg-65540", 15, message.GettyRequestTypeRequestSync, map[string]string{"k": "v"}, bigReg(65540)),
		mk("breg-70107", 16, message.GettyRequestTypeRequestSync, nil, bigReg(70107)),
	}
}

// bigReg is a BranchRegisterRequest whose frame (without head map) is exactly total bytes long.
func bigReg(total int) message.BranchRegisterRequest {
	// 16 header + 2 type code + xid(2+3) + 1 + resource(2+1) + lockKey(4+n) + appdata(4+2)
	n := total - (16 + 2 + 5 + 1 + 3 + 4 + 6)
	key := make([]byte, n)
	for i := range key {
		key[i] = "0123456789,;:_abcdef"[i%20]
	}
	return message.BranchRegisterRequest{Xid: "x:1", BranchType: branch.BranchTypeAT, ResourceId: "r", LockKey: string(key), ApplicationData: []byte("ad")}
}

type readRes struct {
	pkg  interface{}
	n    int
	err  error
	pnc  string
	slow bool
}

// hung counts Read calls that never returned; each leaves a spinning goroutine
// behind, so exploration of the class that produced it stops after the first.
var hung = map[string]bool{}

func callRead(h *getty.RpcPackageHandler, data []byte) (res readRes) {
	// Read must not retain/alter the slice; hand it a private copy so that aliasing cannot leak between calls
	buf := append([]byte(nil), data...)
	done := make(chan readRes, 1)
	go func() {
		var rr readRes
		defer func() {
			if r := recover(); r != nil {
				rr.pnc = fmt.Sprintf("panic: %v", r)
			}
			done <- rr
		}()
		rr.pkg, rr.n, rr.err = h.Read(nil, buf)
	}()
	select {
	case res = <-done:
		return res
	case <-time.After(20 * time.Second):
		// a sub-kilobyte parse that has not returned in 20 s of CPU is an endless loop inside Read
		return readRes{slow: true}
	}
}

func normMsg(m message.RpcMessage) message.RpcMessage {
	if len(m.HeadMap) == 0 {
		m.HeadMap = nil
	}
	m.Body = wire.Norm(m.Body)
	return m
}

type streamCase struct {
	Frames []string `json:"frames"`
	Bytes  int      `json:"bytes"`
}

func Run(r *rep.Run) {
	thorough := r.Tier == "thorough"
	codec.Init()
	h := &getty.RpcPackageHandler{}
	cat := catalogue()
	r.Rule = "streams = every sequence of 1..k catalogue frames (k=2 quick over a reduced pair set, 3 thorough), built by the real Write; " +
		"states = every reachable (consumed, received) pair of getty's receive loop, transitions = 'receive j more bytes' for every j, each followed by the loop's parse-until-nil; " +
		"non-trivial = state with an incomplete frame pending. Garbage: every byte string of length <= 2 and header-field boundary sweeps."
	r.Assume = []string{"the driver reproduces dubbo-getty v1.5.0 session.handleTCPPackage: Read is always called on stream[consumed:received]",
		"garbage bodies with absurd length prefixes (multi-GiB allocations) are not in the alphabet"}

	// encode each catalogue frame once
	enc := make([][]byte, len(cat))
	for i, f := range cat {
		b, err := h.Write(nil, f.Msg)
		if err != nil {
			r.Broken = "Write failed on catalogue frame " + f.Name
			return
		}
		enc[i] = b
		// head-map round trip on the whole frame
		res := callRead(h, b)
		r.Eval(true)
		if res.pnc != "" {
			r.Violate("whole/"+f.Name+"/panic", "no panic", f.Name, res.pnc)
			continue
		}
		got, ok := res.pkg.(message.RpcMessage)
		if !ok || res.err != nil || res.n != len(b) {
			r.Violate("whole/"+f.Name+"/read", "complete frame is delivered with its length", f.Name, fmt.Sprintf("pkg=%T n=%d want %d err=%v", res.pkg, res.n, len(b), res.err))
			continue
		}
		if !reflect.DeepEqual(normMsg(got), normMsg(f.Msg)) {
			sig := "whole/" + f.Name + "/roundtrip"
			if !reflect.DeepEqual(normMsg(got).HeadMap, normMsg(f.Msg).HeadMap) {
				sig = "headmap/" + hmShape(f.Msg.HeadMap)
			}
			r.Violate(sig, "write/read round trip (head map incl. empty keys/values)", f.Name, fmt.Sprintf("got %+v want %+v", got, f.Msg))
		}
	}

	// stream list
	var streams [][]int
	for i := range cat[:14] {
		streams = append(streams, []int{i})
	}
	pairSet := []int{0, 2, 3, 6, 8, 10}
	if thorough {
		pairSet = nil
		for i := range cat[:14] {
			pairSet = append(pairSet, i)
		}
	}
	for _, a := range pairSet {
		for _, b := range pairSet {
			streams = append(streams, []int{a, b})
		}
	}
	tripleSet := []int{0, 3}
	if thorough {
		tripleSet = []int{0, 2, 3, 6, 10}
	}
	for _, a := range tripleSet {
		for _, b := range tripleSet {
			for _, c := range tripleSet {
				streams = append(streams, []int{a, b, c})
			}
		}
	}

	nSmall := len(streams)
	for _, bi := range []int{14, 15, 16, 17} {
		streams = append(streams, []int{bi}, []int{3, bi, 3})
	}
	var states, transitions int64
	for si, st := range streams {
		var stream []byte
		var bounds []int // frame start offsets, plus end
		var names []string
		for _, fi := range st {
			bounds = append(bounds, len(stream))
			stream = append(stream, enc[fi]...)
			names = append(names, cat[fi].Name)
		}
		bounds = append(bounds, len(stream))
		n := len(stream)
		// received positions: all of them for short streams; for >64 KiB streams every position within 40 bytes of a
		// frame boundary, of a 64 KiB multiple and of the stream ends, plus a stride (stated, not claimed exhaustive)
		var recvPos []int
		if si < nSmall {
			for p := 1; p <= n; p++ {
				recvPos = append(recvPos, p)
			}
		} else {
			mark := map[int]bool{}
			around := func(c int) {
				for p := c - 40; p <= c+40; p++ {
					if p >= 1 && p <= n {
						mark[p] = true
					}
				}
			}
			for _, bnd := range bounds {
				around(bnd)
				around(bnd + 65536)
				around(bnd + 65535 - 16)
				around(bnd + 32768)
			}
			around(65536)
			for p := 997; p <= n; p += 997 {
				mark[p] = true
			}
			for p := 1; p <= n; p++ {
				if mark[p] {
					recvPos = append(recvPos, p)
				}
			}
		}
		frameAt := map[int]int{} // start offset -> index in st
		for i := range st {
			frameAt[bounds[i]] = i
		}
		label := strings.Join(names, ",")
		r.Sample(streamCase{names, n})

		// BFS over (consumed, received)
		type state struct{ c, r int }
		memo := map[state]readRes{} // Read is a function of stream[c:r2]; evaluate each slice once
		seen := map[state]bool{{0, 0}: true}
		frontier := []state{{0, 0}}
		bad := false
		for len(frontier) > 0 && !bad {
			s := frontier[0]
			frontier = frontier[1:]
			states++
			for _, r2 := range recvPos {
				if r2 <= s.r || bad {
					continue
				}
				transitions++
				// the inner loop of handleTCPPackage
				c := s.c
				iter := 0
				for c < r2 {
					iter++
					res, dup := memo[state{c, r2}]
					if !dup {
						res = callRead(h, stream[c:r2])
						memo[state{c, r2}] = res
					}
					fi, isBoundary := frameAt[c]
					if !isBoundary {
						// cannot happen unless an earlier clause already failed
						bad = true
						break
					}
					L := bounds[fi+1] - bounds[fi]
					avail := r2 - c
					cut := cutRegion(avail, enc[st[fi]])
					if !dup {
						r.Eval(avail < L)
					}
					cs := map[string]interface{}{"frames": names, "consumed": c, "received": r2, "frame": names[fi], "frame_len": L, "available": avail}
					if res.slow {
						r.Violate(fmt.Sprintf("partial/%s/hang", cut), "Read returns (no endless loop in the transport goroutine)", cs, "Read did not return within 20 s")
						bad = true
						break
					}
					if res.pnc != "" {
						r.Violate(fmt.Sprintf("partial/%s/panic", cut), "no panic", cs, res.pnc)
						bad = true
						break
					}
					if avail < L {
						if res.err != nil {
							r.Violate(fmt.Sprintf("partial/%s/error", cut), "incomplete frame => need more data, not an error", cs, res.err.Error())
							bad = true
							break
						}
						if res.pkg != nil {
							sig := fmt.Sprintf("partial/%s/fabricated", cut)
							if res.n == 0 {
								sig = fmt.Sprintf("partial/%s/spin", cut)
							}
							r.Violate(sig, "incomplete frame => nothing fabricated, nothing consumed (a non-nil package of length 0 makes the loop spin)", cs, fmt.Sprintf("pkg=%+v n=%d", res.pkg, res.n))
							bad = true
							break
						}
						break // wait for more bytes
					}
					got, ok := res.pkg.(message.RpcMessage)
					if res.err != nil || !ok {
						r.Violate("complete/"+names[fi]+"/notdelivered", "complete frame is delivered", cs, fmt.Sprintf("pkg=%T err=%v", res.pkg, res.err))
						bad = true
						break
					}
					if res.n != L {
						r.Violate("complete/"+names[fi]+"/length", "consumed length = frame length", cs, fmt.Sprintf("n=%d", res.n))
						bad = true
						break
					}
					if !reflect.DeepEqual(normMsg(got), normMsg(cat[st[fi]].Msg)) {
						if reflect.DeepEqual(normMsg(got).HeadMap, normMsg(cat[st[fi]].Msg).HeadMap) {
							r.Violate("complete/"+names[fi]+"/content", "delivered message = original", cs, fmt.Sprintf("got %+v", got))
						}
						// head-map differences are reported once by the whole-frame clause above
					}
					c += res.n
					if iter > len(st)+1 {
						r.Violate("loop/spin", "receive loop terminates", cs, "too many iterations")
						bad = true
						break
					}
				}
				if bad {
					break
				}
				ns := state{c, r2}
				if !seen[ns] {
					seen[ns] = true
					frontier = append(frontier, ns)
				}
			}
		}
		_ = label
	}
	r.Extra["states"] = states
	r.Extra["transitions"] = transitions
	r.Extra["traces_validated_against_impl"] = transitions
	r.Extra["streams"] = len(streams)

	// garbage
	garbage := func(name string, data []byte) {
		if hung[name] {
			return
		}
		r.Eval(len(data) >= 2 && data[0] == 0xda && data[1] == 0xda)
		res := callRead(h, data)
		cs := map[string]interface{}{"garbage": name, "bytes": fmt.Sprintf("% x", head(data, 24))}
		if res.slow {
			hung[name] = true
			r.Violate("garbage/"+name+"/hang", "no spin on non-frame bytes (Read must return)", cs, "Read did not return within 20 s; remaining cases of this class skipped")
			return
		}
		if res.pnc != "" {
			r.Violate("garbage/"+name+"/panic", "no panic on non-frame bytes", cs, res.pnc)
			return
		}
		if res.err == nil && res.pkg != nil && res.n <= 0 {
			r.Violate("garbage/"+name+"/spin", "no spin on non-frame bytes", cs, fmt.Sprintf("pkg=%+v n=%d", res.pkg, res.n))
		}
		if res.err == nil && res.pkg != nil && res.n > len(data) {
			r.Violate("garbage/"+name+"/overrun", "consumed length within the data", cs, fmt.Sprintf("n=%d len=%d", res.n, len(data)))
		}
	}
	for a := 0; a < 256; a++ {
		garbage("len1", []byte{byte(a)})
	}
	for a := 0; a < 256; a++ {
		for b := 0; b < 256; b++ {
			garbage("len2", []byte{byte(a), byte(b)})
		}
	}
	garbage("len0", []byte{})
	// header sweeps: start from a valid frame, set one header field to boundary values
	base := enc[3]
	sweep32 := []uint32{0, 1, 15, 16, 17, uint32(len(base)) - 1, uint32(len(base)), uint32(len(base)) + 1, 0xffff, 0x10000, 0x7fffffff, 0x80000000, 0xffffffff}
	sweep16 := []uint16{0, 1, 15, 16, 17, 20, 21, 22, uint16(len(base)) - 1, uint16(len(base)), uint16(len(base)) + 1, 0x7fff, 0x8000, 0xffff}
	for _, tl := range sweep32 {
		for _, hl := range sweep16 {
			for _, avail := range []int{16, 17, len(base) - 1, len(base)} {
				d := append([]byte(nil), base[:avail]...)
				d[3], d[4], d[5], d[6] = byte(tl>>24), byte(tl>>16), byte(tl>>8), byte(tl)
				d[7], d[8] = byte(hl>>8), byte(hl)
				garbage("hdr-lengths", d)
			}
		}
	}
	// garbage inside the head map of an otherwise well-formed frame: key/value length fields swept
	hm := enc[7]
	for _, kl := range sweep16 {
		for _, vl := range sweep16 {
			d := append([]byte(nil), hm...)
			d[16], d[17] = byte(kl>>8), byte(kl)
			garbage("headmap-keylen", d)
			d = append([]byte(nil), hm...)
			d[16], d[17] = 0, 1
			d[19], d[20] = byte(vl>>8), byte(vl)
			garbage("headmap-vallen", d)
			d = append([]byte(nil), hm...)
			d[16], d[17] = byte(kl>>8), byte(kl)
			d[18], d[19] = byte(vl>>8), byte(vl)
			garbage("headmap-lens", d)
		}
	}
	for t := 0; t < 256; t++ {
		d := append([]byte(nil), base...)
		d[9] = byte(t)
		garbage("hdr-msgtype", d)
		d = append([]byte(nil), base...)
		d[10] = byte(t)
		garbage("hdr-codec", d)
		d = append([]byte(nil), base...)
		d[2] = byte(t)
		garbage("hdr-version", d)
		d = append([]byte(nil), enc[2]...)
		d[16], d[17] = byte(t), byte(t) // unknown body type codes
		garbage("body-typecode", d)
	}
}

func head(b []byte, n int) []byte {
	if len(b) < n {
		return b
	}
	return b[:n]
}

// cutRegion names where an incomplete frame was cut, for violation signatures.
func cutRegion(avail int, frame []byte) string {
	headLen := int(frame[7])<<8 | int(frame[8])
	switch {
	case avail < 2:
		return "in-magic"
	case avail < 16:
		return "in-header"
	case avail < headLen:
		return "in-headmap"
	default:
		return "in-body"
	}
}

func hmShape(m map[string]string) string {
	var parts []string
	for k, v := range m {
		s := ""
		if k == "" {
			s += "emptykey"
		} else {
			s += "key"
		}
		if v == "" {
			s += "+emptyval"
		} else {
			s += "+val"
		}
		parts = append(parts, s)
	}
	if len(parts) == 1 {
		return parts[0]
	}
	return fmt.Sprintf("%d-entries", len(parts))
}
