// Package c10: branch rollback is idempotent and blocks a late phase one (Mode F; sequential placement of the
// racing rollback delivery at every step boundary of phase one).
package c10

import (
	"context"
	"database/sql/driver"
	"encoding/json"
	"fmt"
	"os"
	"strings"
	"time"

	"github.com/go-sql-driver/mysql"

	"seata.apache.org/seata-go/pkg/protocol/branch"
	"seata.apache.org/seata-go/pkg/protocol/message"
	"seata.apache.org/seata-go/pkg/tm"

	"verifharness/atrun"
	"verifharness/faketc"
	"verifharness/gen"
	"verifharness/memdb"
	"verifharness/quiet"
	"verifharness/rep"
	"verifharness/sys"
)

type Case struct {
	Schema string   `json:"schema"`
	Stmt   gen.Stmt `json:"stmt"`
	Mode   string   `json:"mode"` // repeat | fault | late-phase-one
	N      int      `json:"n"`    // repeat: deliveries; fault: failing step; late-phase-one: position of the rollback delivery
	Kind   string   `json:"kind"` // fault: db-error | db-badconn
}

type Located struct {
	Idx  int    `json:"idx"`
	Tier string `json:"tier"`
	Case Case   `json:"case"`
}

func branches() []struct {
	s  *gen.Schema
	st gen.Stmt
} {
	var out []struct {
		s  *gen.Schema
		st gen.Stmt
	}
	add := func(s *gen.Schema, names ...string) {
		for _, n := range names {
			for _, st := range s.Alphabet(true) {
				if st.Name == n {
					out = append(out, struct {
						s  *gen.Schema
						st gen.Stmt
					}{s, st})
				}
			}
		}
	}
	add(&gen.S1, "ins-bound", "ins-2rows-lit", "upd-key-bound", "upd-in", "del-key-bound", "del-in", "ups-update", "ups-insert")
	add(&gen.S2, "ins-auto", "ins-auto-2rows", "upd-many", "del-many")
	add(&gen.S3, "ins-bound", "upd-partial-key", "del-partial")
	return out
}

// phaseOne runs the statement in a global transaction whose business fails, and returns the xid and its branches without driving phase two.
func phaseOne(e *sys.Env, s *gen.Schema, st gen.Stmt, hook func(ctx context.Context)) (xid string, brs []*faketc.Branch, bizErr string) {
	tm.WithGlobalTx(context.Background(), &tm.GtxConfig{Name: "c10"}, func(ctx context.Context) error {
		xid = tm.GetXID(ctx)
		if hook != nil {
			hook(ctx)
		}
		if _, err := e.AT.ExecContext(ctx, st.SQL, st.Args...); err != nil {
			bizErr = err.Error()
			return err
		}
		return fmt.Errorf("business decides to roll back")
	})
	if g := e.TC.Global(xid); g != nil {
		brs = g.Branches
	}
	return
}

func status(r message.BranchRollbackResponse, ok bool) int {
	if !ok {
		return -1
	}
	return int(r.BranchStatus)
}

const rollbacked = int(branch.BranchStatusPhasetwoRollbacked)

func biz(s memdb.Snapshot) string { return atrun.BusinessTables(s).String() }

// undoNoMarkers renders undo_log without global-finished marker rows.
func undoNoMarkers(s memdb.Snapshot) string {
	var rows []memdb.Row
	for _, r := range s["undo_log"] {
		if fmt.Sprint(r[5]) == "0" {
			rows = append(rows, r)
		}
	}
	return memdb.Snapshot{"undo_log": rows}.String()
}

func evalCase(r *rep.Run, e *sys.Env, c Case, idx int) {
	s := gen.SchemaByID(c.Schema)
	if err := atrun.Reset(e, s, []int{0, 1, 2}); err != nil {
		r.Broken = err.Error()
		return
	}
	pre := e.Srv.Snapshot()
	loc := Located{idx, r.Tier, c}
	viol := func(clause, detail string) {
		errs := strings.Join(sys.TakeErrors(), " || ")
		r.Violate(fmt.Sprintf("%s/%s/%s/%s", clause, c.Mode, c.Schema, c.Stmt.Name), "a repeated rollback ends in the state of one successful rollback and keeps answering rollbacked; a failed attempt leaves no partial compensation; a rollback before the undo log exists blocks the late phase one",
			loc, fmt.Sprintf("%s | case=%+v | client errors: %s", detail, c, errs))
	}
	sys.TakeErrors()
	switch c.Mode {
	case "repeat":
		xid, brs, bizErr := phaseOne(e, s, c.Stmt, nil)
		r.Eval(len(brs) > 0)
		if bizErr != "" || len(brs) == 0 {
			return
		}
		var final string
		for i := 1; i <= c.N; i++ {
			for k := len(brs) - 1; k >= 0; k-- {
				resp, ok := e.TC.BranchRollback(xid, brs[k])
				if st := status(resp, ok); st != rollbacked {
					viol("repeat-status", fmt.Sprintf("delivery %d answered %d", i, st))
					return
				}
			}
			now := e.Srv.Snapshot()
			if i == 1 {
				final = biz(now)
				if final != biz(pre) {
					return // C01's matter
				}
			} else if biz(now) != final || undoNoMarkers(now) != undoNoMarkers(pre) {
				viol("repeat-state", fmt.Sprintf("state after delivery %d differs from the state after the first: %s vs %s", i, biz(now), final))
				return
			}
		}
		if e.Srv.OpenTxCount() != 0 || e.Srv.HeldLocks() != 0 {
			viol("repeat-leak", fmt.Sprintf("open transactions %d, row locks %d after the deliveries", e.Srv.OpenTxCount(), e.Srv.HeldLocks()))
		}
	case "fault":
		xid, brs, bizErr := phaseOne(e, s, c.Stmt, nil)
		if bizErr != "" || len(brs) == 0 {
			r.Eval(false)
			return
		}
		before := e.Srv.Snapshot()
		n := 0
		hit := false
		quiet.Spin(nil, 2) // nothing left over from the previous case is still running
		e.Srv.WantGID = true
		var owner int64 // the thread that runs the rollback transaction: the first one to touch the database after the delivery
		e.Srv.Fault = func(op memdb.Op) error {
			if op.Kind == "connect" {
				return nil
			}
			if owner == 0 {
				owner = op.GID
			}
			if op.GID != owner {
				return nil
			}
			k := n
			n++
			if k == c.N {
				hit = true
				if c.Kind == "db-badconn" {
					return driver.ErrBadConn
				}
				return &mysql.MySQLError{Number: 1205, Message: "Lock wait timeout exceeded (injected)"}
			}
			return nil
		}
		hungBefore := faketc.Hung
		poolInUse := func() int {
			n := e.AT.Stats().InUse
			if rdb := e.ResourceDB(); rdb != nil {
				n += rdb.Stats().InUse
			}
			return n
		}
		inUseBefore := poolInUse() // (a handler that hung in an earlier case of this closed system keeps its connection: known finding)
		resp, ok := e.TC.BranchRollback(xid, brs[0])
		e.Srv.Fault = nil
		r.Eval(hit)
		if faketc.Hung > hungBefore {
			viol("rollback-hangs/"+c.Kind, fmt.Sprintf("the branch rollback never returned after %s at step %d of its transaction (every goroutine of the process is blocked)", c.Kind, c.N))
			envDirty = true
			return
		}
		if !hit {
			return
		}
		st := status(resp, ok)
		after := e.Srv.Snapshot()
		if st == rollbacked && c.Kind == "db-error" {
			// a rollback transaction in which a statement failed cannot have succeeded ... unless the failing step was after the commit
			if biz(after) != biz(pre) || undoNoMarkers(after) != undoNoMarkers(pre) {
				viol("fault-reported-rollbacked", fmt.Sprintf("step %d failed, the attempt answered rollbacked, but the state is not the rolled-back one", c.N))
				return
			}
		}
		if st != rollbacked {
			if biz(after) != biz(before) || undoNoMarkers(after) != undoNoMarkers(before) {
				viol("fault-partial", fmt.Sprintf("failed attempt (step %d, status %d) changed the committed state: %s -> %s", c.N, st, biz(before), biz(after)))
				return
			}
		}
		if e.Srv.OpenTxCount() != 0 || e.Srv.HeldLocks() != 0 {
			viol("fault-leak", fmt.Sprintf("after the failed attempt (step %d): open transactions %d, row locks %d", c.N, e.Srv.OpenTxCount(), e.Srv.HeldLocks()))
			return
		}
		// the failed attempt gave its connection back: one that stays checked out exhausts a bounded pool after a few failures
		// and every later delivery waits for a connection for ever
		if c.Kind == "db-error" {
			quiet.Spin(nil, 3) // database/sql gives a connection back from a goroutine of its own when a context ends
			in := poolInUse() - inUseBefore
			if in > 0 {
				viol("fault-connection-kept", fmt.Sprintf("after the failed attempt (step %d) %d connection(s) of the pool are still checked out", c.N, in))
				return
			}
		}
		// clean redelivery
		resp, ok = e.TC.BranchRollback(xid, brs[0])
		if st2 := status(resp, ok); st2 != rollbacked {
			viol("fault-retry-status", fmt.Sprintf("clean redelivery after a failure at step %d answered %d", c.N, st2))
			return
		}
		final := e.Srv.Snapshot()
		if biz(final) != biz(pre) {
			if c.Stmt.Name != "" {
				// only a violation if a clean single rollback restores this branch at all (C01's matter otherwise)
				if restoresCleanly(e, s, c.Stmt) {
					viol("fault-retry-state", fmt.Sprintf("after failure at step %d and a clean retry the state is %s, expected %s", c.N, biz(final), biz(pre)))
				}
			}
		}
	case "late-phase-one":
		// the rollback for (xid, branch) is delivered at position N among the database operations of phase one that follow the registration
		var xid string
		n := 0
		delivered := false
		var rbStatus int
		e.TC.Script = nil
		armed := false
		self := memdb.GoroutineID()
		e.Srv.Sched = pointHook(func(desc string) {
			if !armed || delivered || memdb.GoroutineID() != self {
				return // positions are counted among the business thread's own database operations
			}
			k := n
			n++
			if k == c.N {
				delivered = true
				g := e.TC.Global(xid)
				if g == nil || len(g.Branches) == 0 {
					return
				}
				resp, ok := e.TC.BranchRollback(xid, g.Branches[0])
				rbStatus = status(resp, ok)
				if c.Kind == "twice" {
					// the coordinator delivers the rollback a second time before the branch's phase one goes on
					resp, ok = e.TC.BranchRollback(xid, g.Branches[0])
					if st := status(resp, ok); st != rollbacked {
						rbStatus = st
					}
				}
			}
		})
		e.TC.Script = func(tc *faketc.TC, req message.RpcMessage) faketc.Answer {
			if _, ok := req.Body.(message.BranchRegisterRequest); ok {
				armed = true // from the registration reply on, the coordinator may decide to roll back
			}
			if _, ok := req.Body.(message.BranchReportRequest); ok && c.Kind == "report-fails" {
				return faketc.Answer{Kind: "transport"}
			}
			return faketc.Answer{}
		}
		var bizErr string
		var brs []*faketc.Branch
		xidp, brs, bizErr := phaseOneCommit(e, s, c.Stmt, &xid)
		_ = xidp
		e.Srv.Sched = nil
		e.TC.Script = nil
		r.Eval(delivered)
		if !delivered || len(brs) == 0 {
			return
		}
		after := e.Srv.Snapshot()
		if rbStatus == rollbacked {
			// the branch was answered "rollbacked" before its local commit: that commit must fail and commit nothing
			if bizErr == "" {
				viol("late-commit-succeeded", fmt.Sprintf("rollback delivered at position %d answered rollbacked, yet the late local commit succeeded", c.N))
				return
			}
			if biz(after) != biz(pre) {
				viol("late-commit-state", fmt.Sprintf("rollback delivered at position %d answered rollbacked, the late phase one left %s, expected %s", c.N, biz(after), biz(pre)))
				return
			}
		}
		// whatever happened, once the coordinator redelivers the rollback the business state is the pre-state
		if g := e.TC.Global(xid); g != nil && len(g.Branches) > 0 {
			resp, ok := e.TC.BranchRollback(xid, g.Branches[0])
			final := e.Srv.Snapshot()
			if st := status(resp, ok); st == rollbacked && biz(final) != biz(pre) && restoresCleanly(e, s, c.Stmt) {
				viol("late-final-state", fmt.Sprintf("position %d: first delivery %d, redelivery rollbacked, but the final state is %s, expected %s", c.N, rbStatus, biz(final), biz(pre)))
			}
		}
		quiet.Spin(nil, 2) // connections are handed back on their own time
		if e.Srv.OpenTxCount() != 0 || e.Srv.HeldLocks() != 0 {
			viol("late-leak", fmt.Sprintf("position %d: open transactions %d, row locks %d", c.N, e.Srv.OpenTxCount(), e.Srv.HeldLocks()))
		}
	}
}

// envDirty: a handler is stuck inside the current closed system; the next case gets a fresh one.
var envDirty bool

type pointHook func(desc string)

func (h pointHook) Point(desc string) { h(desc) }

// phaseOneCommit runs the statement in a global transaction whose business succeeds (the coordinator decides the rollback on its own).
func phaseOneCommit(e *sys.Env, s *gen.Schema, st gen.Stmt, xidOut *string) (string, []*faketc.Branch, string) {
	var bizErr string
	tm.WithGlobalTx(context.Background(), &tm.GtxConfig{Name: "c10"}, func(ctx context.Context) error {
		*xidOut = tm.GetXID(ctx)
		if _, err := e.AT.ExecContext(ctx, st.SQL, st.Args...); err != nil {
			bizErr = err.Error()
			return err
		}
		return nil
	})
	var brs []*faketc.Branch
	if g := e.TC.Global(*xidOut); g != nil {
		brs = g.Branches
	}
	return *xidOut, brs, bizErr
}

var cleanCache = map[string]bool{}

// restoresCleanly: does one fault-free rollback of this branch restore the pre-state? (If not it is C01's finding, not C10's.)
func restoresCleanly(e *sys.Env, s *gen.Schema, st gen.Stmt) bool {
	k := s.ID + "/" + st.Name
	if v, ok := cleanCache[k]; ok {
		return v
	}
	atrun.Reset(e, s, []int{0, 1, 2})
	pre := e.Srv.Snapshot()
	xid, brs, bizErr := phaseOne(e, s, st, nil)
	ok := bizErr == "" && len(brs) > 0
	if ok {
		for k := len(brs) - 1; k >= 0; k-- {
			resp, got := e.TC.BranchRollback(xid, brs[k])
			if status(resp, got) != rollbacked {
				ok = false
			}
		}
		if biz(e.Srv.Snapshot()) != biz(pre) {
			ok = false
		}
	}
	cleanCache[k] = ok
	return ok
}

func Enumerate(getEnv func() *sys.Env, thorough bool, yield func(idx int, c Case)) int {
	idx := 0
	for _, b := range branches() {
		for n := 1; n <= 3; n++ {
			yield(idx, Case{b.s.ID, b.st, "repeat", n, ""})
			idx++
		}
		// the enumeration must not depend on run-time state (every worker walks the same index space): positions
		// beyond the real number of operations of the rollback transaction simply never fire
		const steps = 14
		for k := 0; k < steps; k++ {
			yield(idx, Case{b.s.ID, b.st, "fault", k, "db-error"})
			idx++
			yield(idx, Case{b.s.ID, b.st, "fault", k, "db-badconn"})
			idx++
		}
		for k := 0; k < 12; k++ {
			yield(idx, Case{b.s.ID, b.st, "late-phase-one", k, ""})
			idx++
		}
		// ... and the same while the branch's phase-one-failed report can never be delivered (the coordinator has already
		// forgotten the rolled-back global transaction)
		for k := 0; k < 6; k++ {
			yield(idx, Case{b.s.ID, b.st, "late-phase-one", k, "report-fails"})
			idx++
		}
		// ... and with the rollback delivered twice in a row at that position (an even number of early deliveries)
		for k := 0; k < 6; k++ {
			yield(idx, Case{b.s.ID, b.st, "late-phase-one", k, "twice"})
			idx++
		}
	}
	return idx
}

func Run(r *rep.Run) {
	thorough := r.Tier == "thorough"
	r.Rule = "15 branch kinds (insert/update/delete/upsert, 1 and several rows, single/auto-increment/composite keys): 1..3 repeated deliveries of the branch rollback; a database error and a connection loss at every operation of the rollback transaction followed by a clean redelivery; the coordinator's rollback delivered at every position among the database operations of phase one that follow the registration reply (incl. before the undo-log insert, where only the global-finished marker can block the late commit). Non-trivial = the fault / racing delivery actually took place."
	r.Assume = []string{"memdb assumptions A1-A7", "the racing rollback delivery runs to completion at a step boundary of phase one (lock conflicts between the two transactions end as lock-wait timeouts); finer interleavings are explored by the scheduler-based part when present",
		"undo_log states are compared modulo global-finished marker rows"}
	shard, nshards, worker := rep.Shard()
	if !worker {
		if replay := os.Getenv("VERIF_REPLAY"); replay != "" {
			b, err := os.ReadFile(replay)
			if err != nil {
				r.Broken = err.Error()
				return
			}
			var f struct {
				Case Located `json:"case"`
			}
			json.Unmarshal(b, &f)
			e := atrun.EnvFor("c10", sys.Options{NoXA: true})
			for i := 0; i < 3; i++ {
				evalCase(r, e, f.Case.Case, f.Case.Idx)
			}
			return
		}
		rep.RunSharded(r, 16, 25*time.Minute)
		return
	}
	e := atrun.EnvFor("c10", sys.Options{NoXA: true})
	Enumerate(func() *sys.Env {
		if envDirty {
			atrun.DropEnv("c10")
			e = atrun.EnvFor("c10", sys.Options{NoXA: true})
			envDirty = false
		}
		return e
	}, thorough, func(idx int, c Case) {
		if idx%nshards != shard {
			return
		}
		if envDirty {
			atrun.DropEnv("c10")
			e = atrun.EnvFor("c10", sys.Options{NoXA: true})
			envDirty = false
		}
		evalCase(r, e, c, idx)
		if idx%37 == 0 {
			r.Sample(c)
		}
	})
}
