// Package c16: the proxy drivers are transparent apart from their transactional duties (Mode S, differential).
package c16

import (
	"context"
	"database/sql"
	"encoding/json"
	"fmt"
	"github.com/go-sql-driver/mysql"
	"math"
	"os"
	"seata.apache.org/seata-go/pkg/util/vshim/vtime"
	"strings"
	"time"

	"seata.apache.org/seata-go/pkg/protocol/message"
	"seata.apache.org/seata-go/pkg/tm"

	"verifharness/atrun"
	"verifharness/gen"
	"verifharness/memdb"
	"verifharness/rep"
	"verifharness/sys"
)

// Op is one client operation.
type Op struct {
	Name string        `json:"name"`
	Kind string        `json:"kind"` // exec, query, prep-exec, prep-query
	SQL  string        `json:"sql"`
	Args []interface{} `json:"args,omitempty"`
	// Args2: a prepared statement is executed a second time with these arguments before it is closed
	Args2 []interface{} `json:"args2,omitempty"`
}

// Unit is an op in autocommit, or a list of ops in an explicit transaction ended by commit or rollback.
type Unit struct {
	Ops []Op   `json:"ops"`
	Tx  string `json:"tx"`            // "", "commit", "rollback"
	Opt string `json:"opt,omitempty"` // transaction options: "", "serializable", "readonly", "serializable-readonly"
	Ctx string `json:"ctx,omitempty"` // mixed mode: "G" inside the global transaction, "P" plain, "GP" prepared inside / executed after
}

func (u Unit) Name() string {
	var n []string
	for _, o := range u.Ops {
		n = append(n, o.Name)
	}
	pre := ""
	if u.Ctx != "" {
		pre = u.Ctx + ":"
	}
	if u.Tx == "" {
		return pre + strings.Join(n, ",")
	}
	opt := ""
	if u.Opt != "" {
		opt = "{" + u.Opt + "}"
	}
	return pre + "tx" + opt + "[" + strings.Join(n, ",") + "]" + u.Tx
}

type Case struct {
	Units  []Unit `json:"units"`
	Mode   string `json:"mode"`   // outside | inside (a global transaction) | mixed (global and plain work on one handle)
	Params string `json:"params"` // ip | noip (interpolateParams)
	Pinned bool   `json:"pinned,omitempty"`
	// Fault k > 0: the k-th database operation of the program (1-based, connection set-up not counted) fails with an injected
	// error, on the bare side and on the proxy side alike (outside a global transaction the two see the same operations)
	Fault int `json:"fault,omitempty"`
}

type Located struct {
	Idx  int    `json:"idx"`
	Tier string `json:"tier"`
	Case Case   `json:"case"`
}

var t0 = time.Date(2024, 5, 6, 7, 8, 9, 0, time.UTC)

func ops() []Op {
	return []Op{
		{"q-all", "query", "SELECT id, name, cnt FROM t_s1 ORDER BY id", nil, nil},
		{"q-bound", "query", "SELECT name, cnt FROM t_s1 WHERE id = ?", []interface{}{int64(1)}, nil},
		{"q-none", "query", "SELECT * FROM t_s1 WHERE id = 404", nil, nil},
		{"q-forupdate", "query", "SELECT cnt FROM t_s1 WHERE id = 1 FOR UPDATE", nil, nil},
		{"q-forupdate-bound", "query", "SELECT cnt FROM t_s1 WHERE id = ? FOR UPDATE", []interface{}{int64(2)}, nil},
		{"ins-lit", "exec", "INSERT INTO t_s1 (id, name, cnt) VALUES (5, 'e', 50)", nil, nil},
		{"ins-bound", "exec", "INSERT INTO t_s1 (id, name, cnt) VALUES (?, ?, ?)", []interface{}{int64(6), "f", 60}, nil},
		{"ins-auto", "exec", "INSERT INTO t_s2 (name, cnt) VALUES ('e', 50)", nil, nil},
		{"ins-auto-2", "exec", "INSERT INTO t_s2 (name, cnt) VALUES (?, ?), (?, ?)", []interface{}{"e", 50, "f", 60}, nil},
		{"ins-dup", "exec", "INSERT INTO t_s1 (id, name, cnt) VALUES (1, 'dup', 0)", nil, nil},
		{"ins-extremes", "exec", "INSERT INTO t_s5 (id, email, score, memo) VALUES (?, ?, ?, ?)", []interface{}{int64(math.MaxInt64), nil, 1.5, []byte("by\x00tes")}, nil},
		{"ins-time", "exec", "INSERT INTO t_s6 (id, c_dt, c_big) VALUES (?, ?, ?)", []interface{}{int64(9), t0, uint64(1) << 62}, nil},
		{"upd-bound", "exec", "UPDATE t_s1 SET cnt = cnt + ? WHERE id = ?", []interface{}{5, int64(1)}, nil},
		{"upd-lit-string", "exec", "UPDATE t_s1 SET name = 'x' WHERE name = 'b'", nil, nil},
		{"upd-none", "exec", "UPDATE t_s1 SET cnt = 1 WHERE id = 404", nil, nil},
		{"upd-many", "exec", "UPDATE t_s1 SET cnt = cnt + 1 WHERE cnt >= 20", nil, nil},
		{"del-bound", "exec", "DELETE FROM t_s1 WHERE id = ?", []interface{}{int64(2)}, nil},
		{"del-lit", "exec", "DELETE FROM t_s1 WHERE cnt > 15", nil, nil},
		{"ups", "exec", "INSERT INTO t_s1 (id, name, cnt) VALUES (1, 'z', 9) ON DUPLICATE KEY UPDATE cnt = cnt + 1", nil, nil},
		{"syntax", "exec", "UPDAT t_s1 SET cnt = 1", nil, nil},
		{"no-table", "query", "SELECT * FROM t_missing", nil, nil},
		{"ddl-create", "exec", "CREATE TABLE t_tmp (id INT NOT NULL, PRIMARY KEY (id))", nil, nil},
		{"ddl-drop", "exec", "DROP TABLE IF EXISTS t_tmp", nil, nil},
		{"set", "exec", "SET NAMES utf8mb4", nil, nil},
		{"show", "query", "SHOW VARIABLES LIKE 'auto_increment_increment'", nil, nil},
		{"multi-upd", "exec", "UPDATE t_s1 SET cnt = 1 WHERE id = 1; UPDATE t_s1 SET cnt = 2 WHERE id = 2", nil, nil},
		{"multi-mixed", "exec", "INSERT INTO t_s1 (id, name, cnt) VALUES (7, 'g', 70); DELETE FROM t_s1 WHERE id = 3", nil, nil},
		{"prep-upd", "prep-exec", "UPDATE t_s1 SET name = ? WHERE id = ?", []interface{}{"pp", int64(3)}, nil},
		{"prep-ins", "prep-exec", "INSERT INTO t_s1 (id, name, cnt) VALUES (?, ?, ?)", []interface{}{int64(8), "h", 80}, nil},
		{"prep-q", "prep-query", "SELECT id, cnt FROM t_s1 WHERE cnt >= ? ORDER BY id", []interface{}{20}, nil},
		{"prep-upd-twice", "prep-exec", "UPDATE t_s1 SET name = ? WHERE id = ?", []interface{}{"pp", int64(3)}, []interface{}{"qq", int64(1)}},
		{"prep-ins-twice", "prep-exec", "INSERT INTO t_s1 (id, name, cnt) VALUES (?, ?, ?)", []interface{}{int64(8), "h", 80}, []interface{}{int64(9), "i", 90}},
		{"prep-q-forupdate", "prep-query", "SELECT cnt FROM t_s1 WHERE id = ? FOR UPDATE", []interface{}{int64(1)}, nil},
		{"prep-q-twice", "prep-query", "SELECT id, cnt FROM t_s1 WHERE cnt >= ? ORDER BY id", []interface{}{20}, []interface{}{30}},
	}
}

func txOnly() []Op {
	return []Op{
		{"savepoint", "exec", "SAVEPOINT sp1", nil, nil},
		{"rollback-to", "exec", "ROLLBACK TO sp1", nil, nil},
	}
}

func units(thorough bool) []Unit {
	var out []Unit
	all := ops()
	for _, o := range all {
		out = append(out, Unit{Ops: []Op{o}})
	}
	for _, o := range all {
		for _, end := range []string{"commit", "rollback"} {
			out = append(out, Unit{Ops: []Op{o}, Tx: end})
		}
	}
	pick := func(names ...string) []Op {
		var r []Op
		for _, n := range names {
			for _, o := range append(all, txOnly()...) {
				if o.Name == n {
					r = append(r, o)
				}
			}
		}
		return r
	}
	for _, end := range []string{"commit", "rollback"} {
		out = append(out,
			Unit{Ops: pick("ins-bound", "upd-bound"), Tx: end},
			Unit{Ops: pick("upd-bound", "q-all"), Tx: end},
			Unit{Ops: pick("q-forupdate", "upd-bound"), Tx: end},
			Unit{Ops: pick("savepoint", "upd-bound", "rollback-to"), Tx: end},
			Unit{Ops: pick("ins-dup", "upd-bound"), Tx: end},
			Unit{Ops: pick("prep-upd", "prep-q"), Tx: end},
			Unit{Ops: pick("del-bound", "ins-auto"), Tx: end},
			Unit{Ops: pick("prep-upd-twice", "prep-q-twice"), Tx: end},
		)
	}
	// explicit transactions opened with options: the database must see the same options
	for _, opt := range []string{"serializable", "readonly", "serializable-readonly"} {
		out = append(out,
			Unit{Ops: pick("q-all"), Tx: "commit", Opt: opt},
			Unit{Ops: pick("upd-bound"), Tx: "commit", Opt: opt},
			Unit{Ops: pick("upd-bound", "q-all"), Tx: "rollback", Opt: opt},
		)
	}
	return out
}

func Enumerate(thorough bool, yield func(idx int, c Case)) int {
	idx := 0
	us := units(thorough)
	var second []Unit
	if thorough {
		second = us
	} else {
		// quick: every unit once as the first, followed by a representative second unit
		for _, u := range us {
			if len(u.Ops) == 1 && (u.Tx == "" || u.Tx == "commit") {
				switch u.Ops[0].Name {
				case "q-all", "upd-bound", "ins-auto", "q-forupdate", "prep-upd", "ins-dup", "multi-upd", "del-bound":
					second = append(second, u)
				}
			}
		}
	}
	for _, mode := range []string{"outside", "inside"} {
		for _, params := range []string{"ip", "noip"} {
			if mode == "inside" && params == "noip" {
				continue // A6: AT mode requires interpolateParams
			}
			for _, u := range us {
				yield(idx, Case{Units: []Unit{u}, Mode: mode, Params: params, Pinned: false})
				idx++
			}
			for _, a := range us {
				for _, b := range second {
					yield(idx, Case{Units: []Unit{a, b}, Mode: mode, Params: params, Pinned: false})
					idx++
				}
			}
			if thorough {
				small := second
				if len(small) > 12 {
					small = nil
					for _, u := range us {
						if len(u.Ops) == 1 && u.Tx == "" {
							switch u.Ops[0].Name {
							case "q-all", "upd-bound", "ins-auto", "q-forupdate", "prep-upd", "ins-dup":
								small = append(small, u)
							}
						}
					}
				}
				for _, a := range small {
					for _, b := range small {
						for _, c := range small {
							yield(idx, Case{Units: []Unit{a, b, c}, Mode: mode, Params: params, Pinned: false})
							idx++
						}
					}
				}
			}
		}
	}
	// the pooled connection dies while idle between two units (outside any global transaction)
	{
		kill := Unit{Ops: []Op{{Name: "kill-connections", Kind: "kill"}}}
		var ab []Unit
		for _, u := range us {
			if len(u.Ops) == 1 && u.Opt == "" && (u.Tx == "" || u.Tx == "commit") {
				switch u.Ops[0].Name {
				case "q-all", "upd-bound", "ins-auto", "prep-upd":
					ab = append(ab, u)
				}
			}
		}
		for _, params := range []string{"ip", "noip"} {
			for _, a := range ab {
				for _, b := range ab {
					yield(idx, Case{Units: []Unit{a, kill, b}, Mode: "outside", Params: params})
					idx++
				}
			}
		}
	}
	// mixed: global and plain work alternate on one handle (pool or pinned connection)
	pick := func(name string) Op {
		for _, o := range ops() {
			if o.Name == name {
				return o
			}
		}
		panic(name)
	}
	gUnits := []Unit{
		{Ops: []Op{pick("upd-bound")}, Ctx: "G"}, {Ops: []Op{pick("ins-bound")}, Ctx: "G"}, {Ops: []Op{pick("del-bound")}, Ctx: "G"},
		{Ops: []Op{pick("upd-bound")}, Tx: "commit", Ctx: "G"}, {Ops: []Op{pick("ins-lit"), pick("upd-bound")}, Tx: "commit", Ctx: "G"}, {Ops: []Op{pick("upd-bound")}, Tx: "rollback", Ctx: "G"},
		{Ops: []Op{pick("q-forupdate")}, Ctx: "G"}, {Ops: []Op{pick("prep-upd")}, Ctx: "GP"}, {Ops: []Op{pick("prep-q")}, Ctx: "GP"},
	}
	pUnits := []Unit{
		{Ops: []Op{pick("upd-bound")}, Ctx: "P"}, {Ops: []Op{pick("upd-many")}, Ctx: "P"}, {Ops: []Op{pick("ins-bound")}, Ctx: "P"}, {Ops: []Op{pick("q-all")}, Ctx: "P"},
		{Ops: []Op{pick("upd-bound")}, Tx: "commit", Ctx: "P"}, {Ops: []Op{pick("prep-upd")}, Ctx: "P"}, {Ops: []Op{pick("del-lit")}, Ctx: "P"},
	}
	for _, params := range []string{"ip", "noip"} {
		for _, pinned := range []bool{false, true} {
			for _, g := range gUnits {
				for _, p := range pUnits {
					yield(idx, Case{Units: []Unit{g, p}, Mode: "mixed", Params: params, Pinned: pinned})
					idx++
					yield(idx, Case{Units: []Unit{p, g, p}, Mode: "mixed", Params: params, Pinned: pinned})
					idx++
				}
			}
		}
	}
	return idx
}

// ---- execution ---------------------------------------------------------------

type OpResult struct {
	Err      string     `json:"err,omitempty"`
	Affected int64      `json:"affected"`
	LastID   int64      `json:"last_id"`
	Cols     []string   `json:"cols,omitempty"`
	Rows     [][]string `json:"rows,omitempty"`
	Panic    string     `json:"panic,omitempty"`
	More     []OpResult `json:"more,omitempty"` // second execution of a prepared statement
}

type runner interface {
	ExecContext(ctx context.Context, q string, args ...interface{}) (sql.Result, error)
	QueryContext(ctx context.Context, q string, args ...interface{}) (*sql.Rows, error)
	PrepareContext(ctx context.Context, q string) (*sql.Stmt, error)
}

func readRows(rows *sql.Rows) ([]string, [][]string, error) {
	defer rows.Close()
	cols, err := rows.Columns()
	if err != nil {
		return nil, nil, err
	}
	var out [][]string
	for rows.Next() {
		vals := make([]interface{}, len(cols))
		ptrs := make([]interface{}, len(cols))
		for i := range vals {
			ptrs[i] = &vals[i]
		}
		if err := rows.Scan(ptrs...); err != nil {
			return cols, out, err
		}
		row := make([]string, len(cols))
		for i, v := range vals {
			switch x := v.(type) {
			case nil:
				row[i] = "NULL"
			case []byte:
				row[i] = fmt.Sprintf("%T:%q", x, string(x))
			default:
				row[i] = fmt.Sprintf("%T:%v", v, v)
			}
		}
		out = append(out, row)
	}
	return cols, out, rows.Err()
}

func runOp(ctx context.Context, r runner, o Op) (res OpResult) {
	defer func() {
		if p := recover(); p != nil {
			res.Panic = fmt.Sprint(p)
			res.Err = "panic"
		}
	}()
	setErr := func(err error) {
		if err != nil {
			res.Err = err.Error()
		}
	}
	switch o.Kind {
	case "kill":
		// every server-side connection dies while the handle is idle (a restart, an idle timeout): the next statement must be
		// served on a fresh connection, as with the bare driver
		if curSrv != nil {
			// as with the real driver, a statement written to a connection the server dropped silently is not retried
			// ('invalid connection'); only the session reset database/sql does before reusing a pooled connection notices
			curSrv.DeadConnErr = mysql.ErrInvalidConn
			curSrv.Crash()
		}
	case "exec":
		rs, err := r.ExecContext(ctx, o.SQL, o.Args...)
		setErr(err)
		if err == nil {
			res.Affected, _ = rs.RowsAffected()
			res.LastID, _ = rs.LastInsertId()
		}
	case "query":
		rows, err := r.QueryContext(ctx, o.SQL, o.Args...)
		setErr(err)
		if err == nil {
			var e2 error
			res.Cols, res.Rows, e2 = readRows(rows)
			setErr(e2)
		}
	case "prep-exec":
		st, err := r.PrepareContext(ctx, o.SQL)
		setErr(err)
		if err == nil {
			rs, err := st.ExecContext(ctx, o.Args...)
			setErr(err)
			if err == nil {
				res.Affected, _ = rs.RowsAffected()
				res.LastID, _ = rs.LastInsertId()
			}
			if o.Args2 != nil {
				var m OpResult
				if rs, err := st.ExecContext(ctx, o.Args2...); err != nil {
					m.Err = err.Error()
				} else {
					m.Affected, _ = rs.RowsAffected()
					m.LastID, _ = rs.LastInsertId()
				}
				res.More = append(res.More, m)
			}
			st.Close()
		}
	case "prep-query":
		st, err := r.PrepareContext(ctx, o.SQL)
		setErr(err)
		if err == nil {
			rows, err := st.QueryContext(ctx, o.Args...)
			setErr(err)
			if err == nil {
				var e2 error
				res.Cols, res.Rows, e2 = readRows(rows)
				setErr(e2)
			}
			if o.Args2 != nil {
				var m OpResult
				if rows, err := st.QueryContext(ctx, o.Args2...); err != nil {
					m.Err = err.Error()
				} else {
					var e2 error
					if m.Cols, m.Rows, e2 = readRows(rows); e2 != nil {
						m.Err = e2.Error()
					}
				}
				res.More = append(res.More, m)
			}
			st.Close()
		}
	}
	return res
}

// curSrv is the database of the side being run (for the "kill" operation).
var curSrv *memdb.Server

type handle interface {
	runner
	BeginTx(ctx context.Context, opts *sql.TxOptions) (*sql.Tx, error)
}

func runUnit(ctx context.Context, db handle, u Unit) []OpResult {
	var out []OpResult
	if u.Tx == "" {
		for _, o := range u.Ops {
			out = append(out, runOp(ctx, db, o))
		}
		return out
	}
	var topt *sql.TxOptions
	switch u.Opt {
	case "serializable":
		topt = &sql.TxOptions{Isolation: sql.LevelSerializable}
	case "readonly":
		topt = &sql.TxOptions{ReadOnly: true}
	case "serializable-readonly":
		topt = &sql.TxOptions{Isolation: sql.LevelSerializable, ReadOnly: true}
	}
	tx, err := db.BeginTx(ctx, topt)
	if err != nil {
		return append(out, OpResult{Err: "begin: " + err.Error()})
	}
	for _, o := range u.Ops {
		res := runOp(ctx, tx, o)
		out = append(out, res)
		if res.Panic != "" && strings.Contains(o.Kind, "query") {
			// a panic that escapes the driver's query path leaves database/sql's transaction read-locked for good: ending it
			// would block for ever. The program gives up; the server side of the connection is dropped.
			if curSrv != nil {
				curSrv.Crash()
			}
			return append(out, OpResult{Err: u.Tx + ": not attempted after a panic in a query"})
		}
	}
	var e2 error
	if u.Tx == "commit" {
		e2 = tx.Commit()
	} else {
		e2 = tx.Rollback()
	}
	r := OpResult{}
	if e2 != nil {
		r.Err = u.Tx + ": " + e2.Error()
	}
	return append(out, r)
}

func runUnits(ctx context.Context, db handle, us []Unit) []OpResult {
	var out []OpResult
	for _, u := range us {
		out = append(out, runUnit(ctx, db, u)...)
	}
	return out
}

// runMixed runs G units inside one global transaction each (proxy side) and P units plainly; a GP unit prepares its
// statement under the global context and executes it after the global transaction has ended.
func runMixed(db handle, us []Unit, proxied bool, marks *[]int, jlen func() int) []OpResult {
	var out []OpResult
	plain := context.Background()
	for _, u := range us {
		*marks = append(*marks, jlen())
		switch {
		case u.Ctx == "GP":
			o := u.Ops[0]
			var st *sql.Stmt
			var perr error
			prep := func(ctx context.Context) error {
				st, perr = db.PrepareContext(ctx, o.SQL)
				return nil
			}
			if proxied {
				tm.WithGlobalTx(plain, &tm.GtxConfig{Name: "c16-mixed"}, prep)
			} else {
				prep(plain)
			}
			res := OpResult{}
			if perr != nil {
				res.Err = perr.Error()
			} else {
				func() {
					defer func() {
						if p := recover(); p != nil {
							res.Panic, res.Err = fmt.Sprint(p), "panic"
						}
					}()
					if o.Kind == "prep-query" {
						rows, err := st.QueryContext(plain, o.Args...)
						if err != nil {
							res.Err = err.Error()
						} else {
							var e2 error
							res.Cols, res.Rows, e2 = readRows(rows)
							if e2 != nil {
								res.Err = e2.Error()
							}
						}
					} else {
						rs, err := st.ExecContext(plain, o.Args...)
						if err != nil {
							res.Err = err.Error()
						} else {
							res.Affected, _ = rs.RowsAffected()
							res.LastID, _ = rs.LastInsertId()
						}
					}
					st.Close()
				}()
			}
			out = append(out, res)
		case u.Ctx == "G" && proxied:
			tm.WithGlobalTx(plain, &tm.GtxConfig{Name: "c16-mixed"}, func(ctx context.Context) error {
				out = append(out, runUnit(ctx, db, u)...)
				return nil
			})
		default:
			out = append(out, runUnit(plain, db, u)...)
		}
	}
	*marks = append(*marks, jlen())
	return out
}

type journalLine struct {
	Kind string
	SQL  string
	Args string
	Err  string
}

func lines(j []memdb.Entry) []journalLine {
	var out []journalLine
	for _, e := range j {
		switch e.Kind {
		case "connect", "close":
			continue
		}
		if e.Kind == "commit" && e.SQL == "(autocommit)" {
			continue
		}
		out = append(out, journalLine{e.Kind, strings.TrimSpace(e.SQL), fmt.Sprint(e.Args), e.Err})
	}
	return out
}

func initAll(e *sys.Env) error {
	e.Srv.Fault = nil
	e.Srv.Restore(memdb.Snapshot{})
	e.TC.ResetState()
	e.Bare.Exec("DROP TABLE IF EXISTS t_tmp")
	for _, s := range []*gen.Schema{&gen.S1, &gen.S2, &gen.S5} {
		if _, err := e.Bare.Exec(s.InsertSQL([]int{0, 1, 2})); err != nil {
			return err
		}
	}
	e.Srv.ClearJournal()
	return nil
}

type sideRun struct {
	marks   []int // mixed mode: journal length at each unit boundary
	openTx  int
	locks   int
	res     []OpResult
	journal []journalLine
	raw     []memdb.Entry
	state   string
	tcReqs  int
	// faultHit: the injected failure was reached
	faultHit bool
}

func runSide(e *sys.Env, db *sql.DB, c Case, global bool) (sideRun, error) {
	var sr sideRun
	if err := initAll(e); err != nil {
		return sr, err
	}
	curSrv = e.Srv
	e.Srv.DeadConnErr = nil
	defer func() { e.Srv.DeadConnErr = nil }()
	var h handle = db
	var conn *sql.Conn
	if c.Pinned {
		cn, err := db.Conn(context.Background())
		if err != nil {
			return sr, err
		}
		conn, h = cn, cn
	}
	jlen := func() int { return len(lines(e.Srv.Journal())) }
	if c.Fault > 0 {
		n := 0
		e.Srv.Fault = func(o memdb.Op) error {
			if o.Kind == "connect" {
				return nil
			}
			n++
			if n == c.Fault {
				sr.faultHit = true
				return &mysql.MySQLError{Number: 1205, Message: "Lock wait timeout exceeded (injected)"}
			}
			return nil
		}
		defer func() { e.Srv.Fault = nil }()
	}
	switch {
	case c.Mode == "mixed":
		sr.res = runMixed(h, c.Units, db != e.Bare, &sr.marks, jlen)
	case global:
		tm.WithGlobalTx(context.Background(), &tm.GtxConfig{Name: "c16"}, func(ctx context.Context) error {
			sr.res = runUnits(ctx, h, c.Units)
			return nil
		})
	default:
		sr.res = runUnits(context.Background(), h, c.Units)
	}
	if conn != nil {
		conn.Close()
	}
	sr.raw = e.Srv.Journal()
	sr.journal = lines(sr.raw)
	sr.openTx = e.Srv.OpenTxCount()
	sr.locks = e.Srv.HeldLocks()
	snap := atrun.BusinessTables(e.Srv.Snapshot())
	sr.state = snap.String()
	for _, ev := range e.TC.Events() {
		if _, isReg := ev.Msg.Body.(message.RegisterTMRequest); ev.Dir == "c2s" && !isReg {
			// (the client announces itself as TM asynchronously when the session opens; that is not statement traffic)
			sr.tcReqs++
		}
	}
	return sr, nil
}

func resText(r OpResult) string {
	b, _ := json.Marshal(r)
	return string(b)
}

func unitsSig(us []Unit) string {
	var n []string
	for _, u := range us {
		n = append(n, u.Name())
	}
	return strings.Join(n, ";")
}

// allowedExtra says whether a journal line the proxy added inside a global transaction is one of its duties.
func allowedExtra(l journalLine) bool {
	q := strings.ToUpper(l.SQL)
	switch {
	case l.Kind == "begin", l.Kind == "commit", l.Kind == "rollback":
		return true
	case strings.Contains(q, "INFORMATION_SCHEMA"):
		return true
	case strings.Contains(q, "UNDO_LOG"):
		return true
	case strings.HasPrefix(q, "SELECT") && l.Kind != "exec":
		return true // image / lock-check queries
	case l.Kind == "prepare" && (strings.HasPrefix(q, "SELECT") || strings.HasPrefix(q, "SAVEPOINT") || strings.HasPrefix(q, "ROLLBACK TO") || strings.HasPrefix(q, "SHOW VARIABLES")):
		return true
	case strings.HasPrefix(q, "SAVEPOINT"), strings.HasPrefix(q, "ROLLBACK TO"), strings.HasPrefix(q, "RELEASE SAVEPOINT"):
		return true
	case strings.HasPrefix(q, "SHOW VARIABLES LIKE 'AUTO_INCREMENT"):
		return true
	}
	return false
}

// journalSame: per proxy side, whether the fault-free run of the current case issued exactly the bare driver's operations.
var journalSame = map[string]bool{}

func evalCase(r *rep.Run, envs map[string]*sys.Env, c Case, idx int) {
	// retry waits of the proxy (lock retries) elapse at once
	if !vtime.IsVirtual() {
		vtime.SetVirtual(func(d time.Duration) bool { return d != 20*time.Second }) // (only the 20 s RPC timeout stays pending)
		defer vtime.SetPassThrough()
	}
	e := envs[c.Params]
	sys.TakeErrors()
	bare, err := runSide(e, e.Bare, c, false)
	if err != nil {
		r.Broken = err.Error()
		return
	}
	if c.Fault > 0 && !bare.faultHit {
		return // the program has fewer operations
	}
	mode := c.Mode
	if c.Fault > 0 {
		mode += "+dbfault"
		r.Count("db_fault_cases", 1)
		if bare.openTx != 0 || bare.locks != 0 {
			e.Srv.Crash() // a failed ROLLBACK leaves the transaction to the server, on both sides
		}
	} else if c.Mode == "outside" && c.Params == "ip" && len(c.Units) == 1 {
		// every database operation of the program fails in turn; the proxy must hand back what the bare driver hands back
		defer func() {
			for k := 1; k <= 24; k++ {
				c2 := c
				c2.Fault = k
				n := r.Counters["db_fault_cases"]
				evalCase(r, envs, c2, idx)
				if r.Counters["db_fault_cases"] == n {
					break
				}
			}
		}()
	}
	nontrivial := false
	for _, l := range bare.journal {
		if l.Kind == "exec" || l.Kind == "query" {
			nontrivial = true
		}
	}
	r.Eval(nontrivial)
	loc := Located{idx, r.Tier, c}
	if idx%397 == 0 {
		r.Sample(map[string]interface{}{"units": unitsSig(c.Units), "mode": c.Mode, "interpolateParams": c.Params == "ip", "bare_journal_lines": len(bare.journal)})
	}
	type side struct {
		name string
		db   *sql.DB
	}
	sides := []side{{"at", e.AT}}
	if c.Mode == "outside" || c.Mode == "mixed" {
		sides = append(sides, side{"xa", e.XA})
	}
	for _, sd := range sides {
		if c.Fault > 0 && !journalSame[sd.name] {
			continue // position k names the same operation on both sides only when the fault-free journals are identical
		}
		if c.Fault == 0 {
			journalSame[sd.name] = false
		}
		if c.Mode == "mixed" && sd.name == "xa" {
			hasG := false
			for _, u := range c.Units {
				if u.Ctx == "G" {
					hasG = true // XA inside a global transaction is C17's subject
				}
			}
			if hasG {
				continue
			}
		}
		got, err := runSide(e, sd.db, c, c.Mode == "inside")
		if err != nil {
			r.Broken = err.Error()
			return
		}
		clientErrs := strings.Join(sys.TakeErrors(), " || ")
		trace := func() string {
			var sb strings.Builder
			fmt.Fprintf(&sb, "units=%s mode=%s params=%s side=%s\n bare journal:\n", unitsSig(c.Units), c.Mode, c.Params, sd.name)
			for _, l := range bare.journal {
				fmt.Fprintf(&sb, "   %s %q %s err=%q\n", l.Kind, l.SQL, l.Args, l.Err)
			}
			fmt.Fprintf(&sb, " proxy journal:\n")
			for _, l := range got.journal {
				fmt.Fprintf(&sb, "   %s %q %s err=%q\n", l.Kind, l.SQL, l.Args, l.Err)
			}
			fmt.Fprintf(&sb, " client errors: %s", clientErrs)
			return sb.String()
		}
		if os.Getenv("VERIF_TRACE") != "" {
			fmt.Println("====", idx, trace())
			for i := range bare.res {
				fmt.Printf("  res[%d] bare=%s\n         prox=%s\n", i, resText(bare.res[i]), resText(got.res[i]))
			}
		}
		// A6: AT mode needs interpolateParams=true; without it only the plain units of a mixed program are compared
		lax := c.Mode == "mixed" && c.Params == "noip"
		// results
		for i := range bare.res {
			if i >= len(got.res) {
				break
			}
			if lax {
				break // results depend on what the (unsupported) global units did; only hygiene and the plain units' statements are compared
			}
			if resText(bare.res[i]) != resText(got.res[i]) {
				opn := opNameAt(c.Units, i)
				cl := "result"
				if got.res[i].Panic != "" {
					cl = "panic"
				} else if bare.res[i].Err != got.res[i].Err {
					cl = "error"
				}
				r.Violate(fmt.Sprintf("%s/%s/%s/%s/%s/%s", cl, mode, sd.name, c.Params, opn, errClass(got.res[i].Err+got.res[i].Panic+" "+clientErrs)), "each statement returns what the bare driver returns", loc,
					fmt.Sprintf("op #%d (%s): bare=%s proxy=%s\n%s", i, opn, resText(bare.res[i]), resText(got.res[i]), trace()))
				break
			}
		}
		if bare.state != got.state && !lax {
			r.Violate(fmt.Sprintf("state/%s/%s/%s/%s", mode, sd.name, c.Params, firstDiffOp(c.Units, bare, got)), "the same committed data as the plain driver", loc, fmt.Sprintf("bare: %s\nproxy: %s\n%s", bare.state, got.state, trace()))
		}
		if got.openTx != bare.openTx || got.locks != bare.locks {
			r.Violate(fmt.Sprintf("hygiene/%s/%s/%s/%s", mode, sd.name, c.Params, firstDiffOp(c.Units, bare, got)), "when the program is over no connection sits in an open transaction or holds row locks (as with the bare driver)", loc,
				fmt.Sprintf("open transactions: proxy %d bare %d; row locks: proxy %d bare %d\n%s", got.openTx, bare.openTx, got.locks, bare.locks, trace()))
		}
		if c.Mode == "mixed" && (lax || sameResults(bare.res, got.res)) && len(bare.marks) == len(got.marks) {
			// plain units must reach the database exactly as on the bare driver
			for ui, u := range c.Units {
				if u.Ctx != "P" {
					continue
				}
				bs, gs := bare.journal[bare.marks[ui]:bare.marks[ui+1]], got.journal[got.marks[ui]:got.marks[ui+1]]
				same := len(bs) == len(gs)
				for i := 0; same && i < len(bs); i++ {
					same = bs[i] == gs[i]
				}
				if !same {
					r.Violate(fmt.Sprintf("journal/mixed/%s/%s/%s/%s", sd.name, c.Params, u.Name(), firstJournalDiff(bs, gs)), "outside a global transaction the same statements reach the database in the same order with the same arguments", loc, trace())
					break
				}
			}
		}
		if c.Mode == "outside" {
			if got.tcReqs != 0 {
				r.Violate(fmt.Sprintf("tc-traffic/%s/%s", sd.name, c.Params), "no coordinator traffic outside a global transaction", loc, trace())
			}
			// identical journals
			if c.Fault == 0 && len(bare.journal) == len(got.journal) {
				same := true
				for i := range bare.journal {
					same = same && bare.journal[i] == got.journal[i]
				}
				journalSame[sd.name] = same
			}
			if len(bare.journal) != len(got.journal) {
				r.Violate(fmt.Sprintf("journal/%s/%s/%s/%s", mode, sd.name, c.Params, firstJournalDiff(bare.journal, got.journal)), "the same statements reach the database in the same order with the same arguments", loc, trace())
			} else {
				for i := range bare.journal {
					if bare.journal[i] != got.journal[i] {
						r.Violate(fmt.Sprintf("journal/%s/%s/%s/%s", mode, sd.name, c.Params, firstJournalDiff(bare.journal, got.journal)), "the same statements reach the database in the same order with the same arguments", loc, trace())
						break
					}
				}
			}
		} else if c.Mode == "inside" && sameResults(bare.res, got.res) {
			// inside: the bare journal must be a subsequence of the proxy journal; every extra line is a proxy duty
			bi := 0
			for _, l := range got.journal {
				if bi < len(bare.journal) && l == bare.journal[bi] {
					bi++
					continue
				}
				if !allowedExtra(l) {
					r.Violate(fmt.Sprintf("extra-statement/%s/%s", sd.name, kindOfSQL(l.SQL)), "the only additional effects are image queries, the undo-log row and transaction control", loc, fmt.Sprintf("extra line: %s %q %s\n%s", l.Kind, l.SQL, l.Args, trace()))
					break
				}
			}
			if bi < len(bare.journal) && sameResults(bare.res, got.res) {
				r.Violate(fmt.Sprintf("missing-statement/%s/%s", sd.name, kindOfSQL(bare.journal[bi].SQL)), "the business statements reach the database", loc, fmt.Sprintf("bare line %d never issued by the proxy: %+v\n%s", bi, bare.journal[bi], trace()))
			}
		}
	}
}

func sameResults(a, b []OpResult) bool {
	if len(a) != len(b) {
		return false
	}
	for i := range a {
		if resText(a[i]) != resText(b[i]) {
			return false
		}
	}
	return true
}

func errClass(s string) string {
	pats := []struct{ sub, name string }{
		{"_UTF8MB4", "string-literal-in-image-sql"}, {"pkIndex is not found", "insert-without-column-list"}, {"PK columnName size", "composite-pk-insert"},
		{"nil pointer", "nil-deref"}, {"index out of range", "index-out-of-range"}, {"not support", "not-supported"}, {"invalid insert or update", "upsert-key"},
		{"Unknown column", "unknown-column"}, {"syntax", "syntax"}, {"driver: skip", "errskip"}, {"Incorrect arguments", "arguments"}, {"XAER", "xa-state"},
	}
	for _, p := range pats {
		if strings.Contains(s, p.sub) {
			return p.name
		}
	}
	return "-"
}

func kindOfSQL(q string) string {
	f := strings.Fields(strings.ToUpper(q))
	if len(f) == 0 {
		return "empty"
	}
	return f[0]
}

func opNameAt(us []Unit, i int) string {
	k := 0
	for _, u := range us {
		for _, o := range u.Ops {
			if k == i {
				if u.Tx != "" {
					return "tx:" + o.Name
				}
				return o.Name
			}
			k++
		}
		if u.Tx != "" {
			if k == i {
				return "tx-end:" + u.Tx + ":" + u.Name()
			}
			k++
		}
	}
	return "?"
}

// unitCtxAt returns the context tag of the unit that produced result i.
func unitCtxAt(us []Unit, i int) string {
	k := 0
	for _, u := range us {
		n := len(u.Ops)
		if u.Tx != "" {
			n++
		}
		if i < k+n {
			return u.Ctx
		}
		k += n
	}
	return ""
}

func firstDiffOp(us []Unit, a, b sideRun) string {
	for i := range a.res {
		if i < len(b.res) && resText(a.res[i]) != resText(b.res[i]) {
			return opNameAt(us, i)
		}
	}
	return unitsSig(us)
}

func firstJournalDiff(a, b []journalLine) string {
	n := len(a)
	if len(b) < n {
		n = len(b)
	}
	for i := 0; i < n; i++ {
		if a[i] != b[i] {
			return fmt.Sprintf("%s:%s->%s:%s", a[i].Kind, kindOfSQL(a[i].SQL), b[i].Kind, kindOfSQL(b[i].SQL))
		}
	}
	if len(a) > n {
		return "missing:" + a[n].Kind + ":" + kindOfSQL(a[n].SQL)
	}
	if len(b) > n {
		return "extra:" + b[n].Kind + ":" + kindOfSQL(b[n].SQL)
	}
	return "same"
}

func buildEnvs() map[string]*sys.Env {
	return map[string]*sys.Env{
		"ip":   atrun.EnvFor("c16-ip", sys.Options{}),
		"noip": atrun.EnvFor("c16-noip", sys.Options{Params: "parseTime=true&multiStatements=true&loc=UTC"}),
	}
}

func Run(r *rep.Run) {
	thorough := r.Tier == "thorough"
	r.Rule = "programs of 1-2 (thorough 3) units over 30 operations {SELECT, locking SELECT, INSERT (literal/bound/auto-increment/extreme argument kinds), UPDATE, DELETE, upsert, duplicate key, syntax error, missing table, CREATE/DROP TABLE, SET, SHOW, multi-statement strings, prepare+exec, prepare+query}, each in autocommit or inside BEGIN..COMMIT / BEGIN..ROLLBACK (incl. SAVEPOINT/ROLLBACK TO), " +
		"run on bare memdb, through the AT proxy and through the XA proxy on identical databases; outside a global transaction with interpolateParams on and off, inside a global transaction (AT) with it on. Non-trivial = the bare run reached the database with at least one statement."
	r.Assume = []string{"memdb assumptions A1-A7", "connection open/close events are not compared (pool management is database/sql's)"}
	shard, nshards, worker := rep.Shard()
	if !worker {
		if replay := os.Getenv("VERIF_REPLAY"); replay != "" {
			b, err := os.ReadFile(replay)
			if err != nil {
				r.Broken = err.Error()
				return
			}
			var f struct {
				Case Located `json:"case"`
			}
			json.Unmarshal(b, &f)
			envs := buildEnvs()
			found := false
			Enumerate(f.Case.Tier == "thorough", func(idx int, c Case) {
				if idx == f.Case.Idx {
					found = true
					evalCase(r, envs, c, idx)
				}
			})
			if !found {
				r.Broken = "replay: case index not in the enumeration"
			}
			return
		}
		total := Enumerate(thorough, func(int, Case) {})
		r.Extra["space_size"] = total
		rep.RunSharded(r, 16, 25*time.Minute)
		return
	}
	envs := buildEnvs()
	Enumerate(thorough, func(idx int, c Case) {
		if idx%nshards != shard {
			return
		}
		evalCase(r, envs, c, idx)
	})
}
