// Package c03b: C03 part B - locking reads consult the coordinator with the same key text as the write path (Mode S).
//
// For every table of a small schema set (integer key, composite key, character key, raw-byte key) and every row subset
// selected by a WHERE catalogue: a first global transaction writes the rows through the AT proxy (its BranchRegister lock
// keys are captured and stay held), a second one runs SELECT ... FOR UPDATE over the same rows: the coordinator must be
// asked about exactly the same key texts, the read must fail while the keys are held and leave no local row lock behind,
// and must return the rows once the first transaction is over.
package c03b

import (
	"context"
	"database/sql"
	"fmt"
	"os"
	"sort"
	"strings"
	"time"

	"seata.apache.org/seata-go/pkg/protocol/branch"
	"seata.apache.org/seata-go/pkg/protocol/message"
	"seata.apache.org/seata-go/pkg/tm"
	"seata.apache.org/seata-go/pkg/util/vshim/vtime"

	"verifharness/faketc"
	"verifharness/rep"
	"verifharness/sys"
)

type table struct {
	Name   string
	DDL    string
	Insert string
	Upd    string // UPDATE ... SET <col> = <col> (+1 / changed) - WHERE appended
	Wheres []where
}

type where struct {
	SQL  string
	Args []interface{}
}

var tables = []table{
	{"t_int", "CREATE TABLE t_int (id INT NOT NULL, v INT, PRIMARY KEY (id))", "INSERT INTO t_int (id, v) VALUES (1, 10), (2, 20), (3, 30)", "UPDATE t_int SET v = v + 1",
		[]where{{"id = 1", nil}, {"id IN (1, 3)", nil}, {"id >= 2", nil}, {"v >= 20", nil}, {"id = ?", []interface{}{int64(2)}}}},
	{"t_comp", "CREATE TABLE t_comp (a INT NOT NULL, b VARCHAR(8) NOT NULL, v INT, PRIMARY KEY (a, b))", "INSERT INTO t_comp (a, b, v) VALUES (1, 'x', 1), (1, 'y', 2), (2, 'x', 3)", "UPDATE t_comp SET v = v + 1",
		[]where{{"a = 1 AND b = ?", []interface{}{"x"}}, {"a = 1", nil}, {"b = ?", []interface{}{"x"}}}},
	{"t_chr", "CREATE TABLE t_chr (k VARCHAR(16) NOT NULL, v INT, PRIMARY KEY (k))", "INSERT INTO t_chr (k, v) VALUES ('ab', 1), ('01', 2), ('1', 3)", "UPDATE t_chr SET v = v + 1",
		[]where{{"k = ?", []interface{}{"ab"}}, {"k = ?", []interface{}{"01"}}, {"k IN (?, ?)", []interface{}{"1", "01"}}}},
	{"t_bin", "CREATE TABLE t_bin (k VARBINARY(8) NOT NULL, v INT, PRIMARY KEY (k))", "INSERT INTO t_bin (k, v) VALUES ('ab', 1), ('cd', 2)", "UPDATE t_bin SET v = v + 1",
		[]where{{"k = ?", []interface{}{"ab"}}, {"v >= 1", nil}}},
}

const clauseText = "a SELECT ... FOR UPDATE inside a global transaction asks the coordinator about the selected rows under the same key text the write path registers, fails while they are globally locked and releases its local row locks, and returns the rows once they are lockable"

func keysOf(evs []faketc.Event, typ string, from int) []string {
	var out []string
	for _, ev := range evs[from:] {
		if ev.Dir != "c2s" {
			continue
		}
		switch b := ev.Msg.Body.(type) {
		case message.BranchRegisterRequest:
			if typ == "register" {
				out = append(out, faketc.ParseLockKey(b.LockKey)...)
			}
		case message.GlobalLockQueryRequest:
			if typ == "query" {
				out = append(out, faketc.ParseLockKey(b.LockKey)...)
			}
		}
	}
	sort.Strings(out)
	return out
}

func RunB(r *rep.Run) {
	var ddl []string
	for _, t := range tables {
		ddl = append(ddl, t.DDL)
	}
	e, err := sys.NewEnv(ddl, sys.Options{NoXA: true})
	if err != nil {
		r.Broken = err.Error()
		return
	}
	vtime.SetVirtual(func(d time.Duration) bool { return d < 20*time.Second })
	defer vtime.SetPassThrough()
	for _, t := range tables {
		for _, whc := range t.Wheres {
			wh := whc.SQL
			r.Eval(true)
			r.Count("partB_cases", 1)
			e.Srv.Restore(nil)
			e.TC.ResetState()
			if _, err := e.Bare.Exec(t.Insert); err != nil {
				r.Broken = fmt.Sprintf("%s: %v", t.Insert, err)
				return
			}
			sys.TakeErrors()
			loc := map[string]interface{}{"table": t.Name, "where": wh, "args": whc.Args}
			fail := func(clause, detail string) {
				r.Violate(fmt.Sprintf("partB/%s/%s", clause, t.Name), clauseText, loc, detail+" | client errors: "+strings.Join(sys.TakeErrors(), " || "))
			}
			// G1 writes the rows and stays open
			hold := make(chan struct{})
			done := make(chan struct{})
			var g1err error
			go func() {
				defer close(done)
				tm.WithGlobalTx(context.Background(), &tm.GtxConfig{Name: "c03b-writer"}, func(ctx context.Context) error {
					_, g1err = e.AT.ExecContext(ctx, t.Upd+" WHERE "+wh, whc.Args...)
					hold <- struct{}{}
					<-hold
					return fmt.Errorf("writer rolls back")
				})
			}()
			<-hold
			release := func() { hold <- struct{}{}; <-done }
			if g1err != nil {
				release()
				fail("writer-failed", g1err.Error())
				continue
			}
			writeKeys := keysOf(e.TC.Events(), "register", 0)
			mark := len(e.TC.Events())
			// G2 reads the same rows FOR UPDATE while G1 holds the global locks
			var n1 int
			var r1err error
			tm.WithGlobalTx(context.Background(), &tm.GtxConfig{Name: "c03b-reader"}, func(ctx context.Context) error {
				rows, err := e.AT.QueryContext(ctx, "SELECT * FROM "+t.Name+" WHERE "+wh+" FOR UPDATE", whc.Args...)
				if err != nil {
					r1err = err
					return err
				}
				for rows.Next() {
					n1++
				}
				r1err = rows.Err()
				rows.Close()
				return nil
			})
			queryKeys := keysOf(e.TC.Events(), "query", mark)
			if os.Getenv("VERIF_TRACE") != "" {
				for _, j := range e.Srv.Journal() {
					fmt.Printf("  db c%d %s %q args=%v err=%q rows=%d\n", j.Conn, j.Kind, j.SQL, j.Args, j.Err, j.NRows)
				}
			}
			held := e.Srv.HeldLocks()
			opentx := e.Srv.OpenTxCount()
			switch {
			case len(queryKeys) == 0:
				fail("lock-query-missing", fmt.Sprintf("the locking read sent no GlobalLockQuery (rows returned: %d, err: %v)", n1, r1err))
			case strings.Join(dedup(queryKeys), ",") != strings.Join(dedup(writeKeys), ","):
				fail("key-text-differs", fmt.Sprintf("WHERE %s %v: write path registered %v, the locking read asked about %v", wh, whc.Args, writeKeys, queryKeys))
			case r1err == nil:
				fail("conflict-not-reported", fmt.Sprintf("the rows are globally locked by another transaction, yet the locking read returned %d row(s) without error", n1))
			}
			_ = held
			_ = opentx
			// the same conflicting read inside an explicit local transaction (save-point path): it must fail and give back the
			// row locks it took while its local transaction is still open
			var heldInTx int
			var r3err error
			tm.WithGlobalTx(context.Background(), &tm.GtxConfig{Name: "c03b-reader-tx"}, func(ctx context.Context) error {
				tx, err := e.AT.BeginTx(ctx, nil)
				if err != nil {
					r3err = err
					return err
				}
				rows, err := tx.QueryContext(ctx, "SELECT * FROM "+t.Name+" WHERE "+wh+" FOR UPDATE", whc.Args...)
				if err == nil {
					for rows.Next() {
					}
					rows.Close()
				}
				r3err = err
				heldInTx = e.Srv.HeldLocks()
				tx.Rollback()
				return fmt.Errorf("reader gives up")
			})
			if r3err == nil {
				fail("conflict-not-reported", "explicit local transaction: the rows are globally locked by another transaction, yet the locking read succeeded")
			} else if heldInTx != 0 {
				fail("local-locks-kept-on-conflict", fmt.Sprintf("explicit local transaction: the locking read failed (%v) but its local transaction still holds %d row lock(s)", r3err, heldInTx))
			}
			// the reader first writes the same rows in its own local transaction (their keys are only collected, nobody has
			// confirmed them yet) and then reads them FOR UPDATE: the coordinator must still be asked, and must refuse
			mark = len(e.TC.Events())
			var r4err, w4err error
			tm.WithGlobalTx(context.Background(), &tm.GtxConfig{Name: "c03b-writer-reader-tx"}, func(ctx context.Context) error {
				tx, err := e.AT.BeginTx(ctx, nil)
				if err != nil {
					w4err = err
					return err
				}
				if _, w4err = tx.ExecContext(ctx, t.Upd+" WHERE "+wh, whc.Args...); w4err == nil {
					rows, err := tx.QueryContext(ctx, "SELECT * FROM "+t.Name+" WHERE "+wh+" FOR UPDATE", whc.Args...)
					if err == nil {
						for rows.Next() {
						}
						rows.Close()
					}
					r4err = err
				}
				tx.Rollback()
				return fmt.Errorf("reader gives up")
			})
			if w4err == nil {
				q4 := keysOf(e.TC.Events(), "query", mark)
				switch {
				case len(q4) == 0:
					fail("lock-query-missing", fmt.Sprintf("after writing the same rows in its own local transaction the locking read sent no GlobalLockQuery (err: %v)", r4err))
				case strings.Join(dedup(q4), ",") != strings.Join(dedup(writeKeys), ","):
					fail("key-text-differs", fmt.Sprintf("read after own write, WHERE %s %v: write path registered %v, the locking read asked about %v", wh, whc.Args, writeKeys, q4))
				case r4err == nil:
					fail("conflict-not-reported", "read after own write: the rows are globally locked by another transaction, yet the locking read succeeded")
				}
			} else {
				r.Count("partB_own_write_refused", 1)
			}
			release()
			// after the writer is over (rolled back, locks released) the read succeeds
			rolled := true
			for _, st := range e.TC.DriveRollback(lastXid(e.TC, "c03b-writer")) {
				if st != int(branch.BranchStatusPhasetwoRollbacked) {
					rolled = false
				}
			}
			if !rolled {
				// the writer's own rollback failed (undo validation of this key type: C08/C09 territory); its global locks stay, so
				// the second half of the case cannot be judged
				r.Count("partB_writer_rollback_failed", 1)
				e.Srv.Crash()
				continue
			}
			mark = len(e.TC.Events())
			var n2 int
			var r2err error
			tm.WithGlobalTx(context.Background(), &tm.GtxConfig{Name: "c03b-reader2"}, func(ctx context.Context) error {
				rows, err := e.AT.QueryContext(ctx, "SELECT * FROM "+t.Name+" WHERE "+wh+" FOR UPDATE", whc.Args...)
				if err != nil {
					r2err = err
					return err
				}
				for rows.Next() {
					n2++
				}
				rows.Close()
				return nil
			})
			if r2err != nil || n2 == 0 {
				fail("read-after-release", fmt.Sprintf("after the writer finished the locking read returned %d rows, err=%v", n2, r2err))
			} else if len(keysOf(e.TC.Events(), "query", mark)) == 0 {
				fail("lock-query-missing", "the successful locking read sent no GlobalLockQuery")
			}
			if n := e.Srv.HeldLocks(); n != 0 {
				fail("local-locks-left", fmt.Sprintf("%d local row lock(s) are still held after the reads finished", n))
				e.Srv.Crash()
			}
		}
	}
	orderedReads(r, e)
	multiTable(r, e)
}

// multiTable: one local transaction (one branch) that writes rows of two tables. The lock keys it registers must be the
// union of what each statement registers when it runs alone - in particular when rows of the two tables have the same
// key text (t_int:1 and t_chr:1; t_chr:ab and t_bin:ab).
func multiTable(r *rep.Run, e *sys.Env) {
	full := map[string]string{"t_int": "id >= 1", "t_comp": "a >= 1", "t_chr": "v >= 1", "t_bin": "v >= 1"}
	reset := func() bool {
		e.Srv.Restore(nil)
		e.TC.ResetState()
		for _, t := range tables {
			if _, err := e.Bare.Exec(t.Insert); err != nil {
				r.Broken = fmt.Sprintf("%s: %v", t.Insert, err)
				return false
			}
		}
		sys.TakeErrors()
		return true
	}
	alone := map[string][]string{}
	for _, t := range tables {
		if !reset() {
			return
		}
		tm.WithGlobalTx(context.Background(), &tm.GtxConfig{Name: "c03b-alone"}, func(ctx context.Context) error {
			_, err := e.AT.ExecContext(ctx, t.Upd+" WHERE "+full[t.Name])
			return err
		})
		alone[t.Name] = dedup(keysOf(e.TC.Events(), "register", 0))
	}
	for _, a := range tables {
		for _, b := range tables {
			if a.Name == b.Name {
				continue
			}
			if !reset() {
				return
			}
			r.Eval(true)
			r.Count("partB_cases", 1)
			var err error
			tm.WithGlobalTx(context.Background(), &tm.GtxConfig{Name: "c03b-two-tables"}, func(ctx context.Context) error {
				var tx *sql.Tx
				if tx, err = e.AT.BeginTx(ctx, nil); err != nil {
					return err
				}
				for _, t := range []table{a, b} {
					if _, err = tx.ExecContext(ctx, t.Upd+" WHERE "+full[t.Name]); err != nil {
						tx.Rollback()
						return err
					}
				}
				err = tx.Commit()
				return err
			})
			got := dedup(keysOf(e.TC.Events(), "register", 0))
			want := append(append([]string{}, alone[a.Name]...), alone[b.Name]...)
			sort.Strings(want)
			want = dedup(want)
			loc := map[string]interface{}{"tables": []string{a.Name, b.Name}}
			if err != nil {
				r.Violate("partB/two-table-branch-failed/"+a.Name+"+"+b.Name, clauseText, loc, err.Error()+" | client errors: "+strings.Join(sys.TakeErrors(), " || "))
			} else if strings.Join(got, ",") != strings.Join(want, ",") {
				r.Violate("partB/two-table-keys/"+a.Name+"+"+b.Name, "the lock keys sent with the branch registration name every written row", loc,
					fmt.Sprintf("one local transaction wrote %s and %s: registered %v, the statements alone register %v", a.Name, b.Name, got, want))
			}
			if n := e.Srv.HeldLocks(); n != 0 {
				e.Srv.Crash()
			}
		}
	}
}

// orderedReads: a locking read with ORDER BY and LIMIT must ask the coordinator about the rows it returns, not about the
// first rows in key order.
func orderedReads(r *rep.Run, e *sys.Env) {
	cases := []struct{ sql string }{
		{"SELECT id, v FROM t_int WHERE v >= 10 ORDER BY v DESC LIMIT 1 FOR UPDATE"},
		{"SELECT id, v FROM t_int WHERE v >= 10 ORDER BY v DESC LIMIT 2 FOR UPDATE"},
		{"SELECT id, v FROM t_int WHERE id >= 1 ORDER BY id DESC LIMIT 1 FOR UPDATE"},
		{"SELECT id, v FROM t_int ORDER BY v LIMIT 1 FOR UPDATE"},
	}
	for _, c := range cases {
		r.Eval(true)
		r.Count("partB_cases", 1)
		e.Srv.Restore(nil)
		e.TC.ResetState()
		// key order and value order disagree: id 1 has the smallest key and the largest v
		if _, err := e.Bare.Exec("INSERT INTO t_int (id, v) VALUES (1, 30), (2, 20), (3, 10)"); err != nil {
			r.Broken = err.Error()
			return
		}
		sys.TakeErrors()
		mark := len(e.TC.Events())
		var ids []string
		var qerr error
		tm.WithGlobalTx(context.Background(), &tm.GtxConfig{Name: "c03b-ordered"}, func(ctx context.Context) error {
			rows, err := e.AT.QueryContext(ctx, c.sql)
			if err != nil {
				qerr = err
				return err
			}
			for rows.Next() {
				var id, v int64
				rows.Scan(&id, &v)
				ids = append(ids, fmt.Sprintf("t_int:%d", id))
			}
			rows.Close()
			return nil
		})
		sort.Strings(ids)
		asked := dedup(keysOf(e.TC.Events(), "query", mark))
		loc := map[string]interface{}{"sql": c.sql}
		if qerr != nil {
			r.Violate("partB/ordered-read-failed/t_int", clauseText, loc, qerr.Error())
		} else if strings.Join(asked, ",") != strings.Join(ids, ",") {
			r.Violate("partB/asked-about-other-rows/t_int", clauseText, loc, fmt.Sprintf("%s returned the rows %v but asked the coordinator about %v", c.sql, ids, asked))
		}
		if n := e.Srv.HeldLocks(); n != 0 {
			e.Srv.Crash()
		}
	}
}

func dedup(in []string) []string {
	var out []string
	for i, s := range in {
		if i == 0 || s != in[i-1] {
			out = append(out, s)
		}
	}
	return out
}

func lastXid(tc *faketc.TC, name string) string {
	x := ""
	for _, g := range tc.Globals() {
		if g.Name == name {
			x = g.Xid
		}
	}
	return x
}
