// Package c15: every coordinator phase-two request gets one correctly addressed, truthful reply (Mode D).
//
// Real code under the scheduler: gettyClientHandler.OnMessage -> rmBranchCommitProcessor / rmBranchRollbackProcessor ->
// rm cache -> (stub) resource manager -> SendAsyncResponse -> sendAsync -> session.WritePkg. The stub managers (one per
// branch type) park at a scheduling point inside BranchCommit / BranchRollback, the fake session parks inside WritePkg,
// the rewriter-inserted points cover the remoting tables. Requests are delivered concurrently on one session.
package c15

import (
	"context"
	"encoding/json"
	"fmt"
	"math"
	"os"
	"runtime"
	"strings"
	"sync"
	"time"

	getty "github.com/apache/dubbo-getty"

	"seata.apache.org/seata-go/pkg/protocol/branch"
	"seata.apache.org/seata-go/pkg/protocol/codec"
	"seata.apache.org/seata-go/pkg/protocol/message"
	sgetty "seata.apache.org/seata-go/pkg/remoting/getty"
	"seata.apache.org/seata-go/pkg/rm"
	"seata.apache.org/seata-go/pkg/util/vshim/vpoint"
	"seata.apache.org/seata-go/pkg/util/vshim/vtime"

	"verifharness/quiet"
	"verifharness/rep"
	"verifharness/sys"
	"verifharness/vsched"
)

// Kind is one entry of the request catalogue.
type Kind struct {
	Name   string              `json:"name"`
	Type   branch.BranchType   `json:"type"`
	Commit bool                `json:"commit"`
	Status branch.BranchStatus `json:"status"`
	Fail   bool                `json:"fail"` // the manager returns an error
	Res    string              `json:"res"`
	NoMgr  bool                `json:"no_manager,omitempty"` // no manager is registered for the branch type: nobody may be called, no success may be reported
}

var kinds = []Kind{
	{"at-commit-ok", branch.BranchTypeAT, true, branch.BranchStatusPhasetwoCommitted, false, "jdbc:mysql://db1/a", false},
	{"at-rollback-ok", branch.BranchTypeAT, false, branch.BranchStatusPhasetwoRollbacked, false, "jdbc:mysql://db1/a", false},
	{"tcc-commit-retryable", branch.BranchTypeTCC, true, branch.BranchStatusPhasetwoCommitFailedRetryable, false, "tccAction", false},
	{"tcc-rollback-error", branch.BranchTypeTCC, false, branch.BranchStatusPhasetwoRollbackFailedRetryable, true, "tccAction", false},
	{"xa-commit-ok", branch.BranchTypeXA, true, branch.BranchStatusPhasetwoCommitted, false, "jdbc:mysql://db2/x", false},
	{"xa-rollback-unretryable", branch.BranchTypeXA, false, branch.BranchStatusPhasetwoRollbackFailedUnretryable, false, "jdbc:mysql://db2/x", false},
	{"at-commit-unknown-resource-error", branch.BranchTypeAT, true, branch.BranchStatusPhasetwoCommitFailedUnretryable, true, "jdbc:mysql://nowhere/zz", false},
	{"tcc-rollback-ok", branch.BranchTypeTCC, false, branch.BranchStatusPhasetwoRollbacked, false, "tccAction", false},
	{"at-commit-error-with-success-status", branch.BranchTypeAT, true, branch.BranchStatusPhasetwoCommitted, true, "jdbc:mysql://db1/a", false},
	{"xa-rollback-error-with-success-status", branch.BranchTypeXA, false, branch.BranchStatusPhasetwoRollbacked, true, "jdbc:mysql://db2/x", false},
	{"saga-commit-no-manager", branch.BranchTypeSAGA, true, branch.BranchStatusPhasetwoCommitted, true, "jdbc:mysql://db1/a", true},
	{"saga-rollback-no-manager", branch.BranchTypeSAGA, false, branch.BranchStatusPhasetwoRollbacked, true, "tccAction", true},
}

const firstNoMgr = 10     // index of the first kind without a manager
const firstErrSuccess = 8 // index of the first kind whose manager fails but hands back a success status

type Req struct {
	Kind     int    `json:"kind"`
	MsgID    int32  `json:"msg_id"`
	Xid      string `json:"xid"`
	BranchID int64  `json:"branch_id"`
	Data     string `json:"data"`
}

type Scenario struct {
	Name    string `json:"name"`
	Reqs    []Req  `json:"reqs"`
	Pending bool   `json:"pending"` // a client request with the same message id as request 0 is waiting for its reply meanwhile
	// FailWrite n > 0: the n-th write on the session is refused (the session stays open and healthy otherwise)
	FailWrite int `json:"fail_write,omitempty"`
	Bound     int `json:"bound"`
}

func scenarios(thorough bool) []Scenario {
	var out []Scenario
	nk := 6
	if thorough {
		nk = firstErrSuccess
	}
	bound := 2
	if thorough {
		bound = 6
	}
	for a := 0; a < nk; a++ {
		for b := 0; b < nk; b++ {
			for _, v := range []string{"same-xid", "same-branch", "same-msgid"} {
				r0 := Req{Kind: a, MsgID: 7001, Xid: "10.0.0.9:8091:5001", BranchID: 11, Data: `{"k":"a"}`}
				r1 := Req{Kind: b, MsgID: 7002, Xid: "10.0.0.9:8091:5002", BranchID: 12, Data: `{"k":"b"}`}
				switch v {
				case "same-xid":
					r1.Xid = r0.Xid
				case "same-branch":
					r1.BranchID = r0.BranchID
				case "same-msgid":
					r1.MsgID = r0.MsgID
					if a > b {
						continue
					}
				}
				out = append(out, Scenario{Name: fmt.Sprintf("%s|%s|%s", kinds[a].Name, kinds[b].Name, v), Reqs: []Req{r0, r1}, Bound: bound})
			}
		}
	}
	// boundary message ids: the reply carries the request's id whatever its value
	for a := 0; a < nk; a++ {
		out = append(out, Scenario{Name: fmt.Sprintf("%s|%s|msgid-boundary", kinds[a].Name, kinds[(a+1)%nk].Name), Bound: bound, Reqs: []Req{
			{Kind: a, MsgID: 0, Xid: "10.0.0.9:8091:5001", BranchID: 11, Data: `{"k":"a"}`},
			{Kind: (a + 1) % nk, MsgID: math.MaxInt32, Xid: "10.0.0.9:8091:5002", BranchID: 12, Data: `{"k":"b"}`}}})
	}
	// a request whose branch type has no registered manager, next to an ordinary one
	for n := firstNoMgr; n < len(kinds); n++ {
		for a := 0; a < nk; a++ {
			out = append(out, Scenario{Name: fmt.Sprintf("%s|%s|no-manager", kinds[n].Name, kinds[a].Name), Bound: bound, Reqs: []Req{
				{Kind: n, MsgID: 7001, Xid: "10.0.0.9:8091:5001", BranchID: 11, Data: `{"k":"a"}`},
				{Kind: a, MsgID: 7002, Xid: "10.0.0.9:8091:5001", BranchID: 12, Data: `{"k":"b"}`}}})
		}
	}
	// a manager that fails and hands back a success status next to the error, beside an ordinary request
	for n := firstErrSuccess; n < firstNoMgr; n++ {
		for a := 0; a < 3; a++ {
			out = append(out, Scenario{Name: fmt.Sprintf("%s|%s|error-with-success-status", kinds[n].Name, kinds[a].Name), Bound: bound, Reqs: []Req{
				{Kind: n, MsgID: 7001, Xid: "10.0.0.9:8091:5001", BranchID: 11, Data: `{"k":"a"}`},
				{Kind: a, MsgID: 7002, Xid: "10.0.0.9:8091:5001", BranchID: 12, Data: `{"k":"b"}`}}})
		}
	}
	// one refused write of a reply: the other branch's reply is still written
	for a := 0; a < nk; a++ {
		for _, fw := range []int{1, 2} {
			out = append(out, Scenario{Name: fmt.Sprintf("%s|%s|write-refused-%d", kinds[a].Name, kinds[(a+2)%nk].Name, fw), Bound: bound, FailWrite: fw, Reqs: []Req{
				{Kind: a, MsgID: 7001, Xid: "10.0.0.9:8091:5001", BranchID: 11, Data: `{"k":"a"}`},
				{Kind: (a + 2) % nk, MsgID: 7002, Xid: "10.0.0.9:8091:5002", BranchID: 12, Data: `{"k":"b"}`}}})
		}
	}
	// a client request waiting under the same message id as the coordinator's request
	for a := 0; a < nk; a++ {
		out = append(out, Scenario{Name: kinds[a].Name + "|pending-client-request-same-id", Pending: true, Bound: bound + 1,
			Reqs: []Req{{Kind: a, MsgID: 0, Xid: "10.0.0.9:8091:5001", BranchID: 11, Data: `{"k":"a"}`}}})
	}
	if thorough {
		for a := 0; a < 4; a++ {
			for b := 0; b < 4; b++ {
				for c := 0; c < 4; c++ {
					out = append(out, Scenario{Name: fmt.Sprintf("%s|%s|%s|three", kinds[a].Name, kinds[b].Name, kinds[c].Name), Bound: 3, Reqs: []Req{
						{Kind: a, MsgID: 7001, Xid: "10.0.0.9:8091:5001", BranchID: 11, Data: "a"},
						{Kind: b, MsgID: 7002, Xid: "10.0.0.9:8091:5001", BranchID: 12, Data: "b"},
						{Kind: c, MsgID: 7003, Xid: "10.0.0.9:8091:5002", BranchID: 11, Data: "c"}}})
				}
			}
		}
	}
	return out
}

// ---- stub resource managers -------------------------------------------------------

type call struct {
	Type     branch.BranchType
	Commit   bool
	Xid      string
	BranchID int64
	Res      string
	Data     string
}

type stubRM struct {
	typ branch.BranchType
	h   **harness
}

func (s *stubRM) do(commit bool, r rm.BranchResource) (branch.BranchStatus, error) {
	h := *s.h
	h.mu.Lock()
	h.calls = append(h.calls, call{s.typ, commit, r.Xid, r.BranchId, r.ResourceId, string(r.ApplicationData)})
	var k *Kind
	for _, q := range h.sc.Reqs {
		kk := kinds[q.Kind]
		if kk.Type == s.typ && kk.Commit == commit && q.Xid == r.Xid && q.BranchID == r.BranchId {
			k = &kk
		}
	}
	sched := h.sched
	h.mu.Unlock()
	if sched != nil {
		sched.Point(fmt.Sprintf("rm(%v).%s", s.typ, map[bool]string{true: "BranchCommit", false: "BranchRollback"}[commit]))
	}
	if k == nil {
		return branch.BranchStatusUnknown, fmt.Errorf("stub: no such branch")
	}
	if k.Fail {
		return k.Status, fmt.Errorf("stub: manager failed")
	}
	return k.Status, nil
}
func (s *stubRM) BranchCommit(ctx context.Context, r rm.BranchResource) (branch.BranchStatus, error) {
	return s.do(true, r)
}
func (s *stubRM) BranchRollback(ctx context.Context, r rm.BranchResource) (branch.BranchStatus, error) {
	return s.do(false, r)
}
func (s *stubRM) BranchRegister(ctx context.Context, p rm.BranchRegisterParam) (int64, error) {
	return 0, nil
}
func (s *stubRM) BranchReport(ctx context.Context, p rm.BranchReportParam) error   { return nil }
func (s *stubRM) LockQuery(ctx context.Context, p rm.LockQueryParam) (bool, error) { return true, nil }
func (s *stubRM) RegisterResource(resource rm.Resource) error                      { return nil }
func (s *stubRM) UnregisterResource(resource rm.Resource) error                    { return nil }
func (s *stubRM) GetCachedResources() *sync.Map                                    { return &sync.Map{} }
func (s *stubRM) GetBranchType() branch.BranchType                                 { return s.typ }

// ---- fake session ----------------------------------------------------------------

type session struct {
	getty.Session
	h **harness
}

func (s *session) IsClosed() bool                         { h := *s.h; h.mu.Lock(); defer h.mu.Unlock(); return h.closed }
func (s *session) Close()                                 { h := *s.h; h.mu.Lock(); h.closed = true; h.mu.Unlock() }
func (s *session) RemoteAddr() string                     { return "10.0.0.9:8091" }
func (s *session) LocalAddr() string                      { return "127.0.0.1:40000" }
func (s *session) Stat() string                           { return "c15-session" }
func (s *session) SetAttribute(k, v interface{})          {}
func (s *session) GetAttribute(k interface{}) interface{} { return nil }
func (s *session) RemoveAttribute(k interface{})          {}
func (s *session) WritePkg(pkg interface{}, _ time.Duration) (int, int, error) {
	msg, ok := pkg.(message.RpcMessage)
	if !ok {
		return 0, 0, fmt.Errorf("not an RpcMessage")
	}
	h := *s.h
	h.mu.Lock()
	if h.closed {
		h.mu.Unlock()
		return 0, 0, fmt.Errorf("c15: session closed")
	}
	h.writes++
	refused := h.sc.FailWrite > 0 && h.writes == h.sc.FailWrite
	// (a refused write still counts as the client's attempt to reply: the comparison below is about what the client tried to say)
	h.sent = append(h.sent, msg)
	sched := h.sched
	h.mu.Unlock()
	if sched != nil {
		sched.Point("WritePkg-return")
	}
	if refused {
		return 0, 0, fmt.Errorf("c15: write refused (timeout)")
	}
	return 1, 1, nil
}

type harness struct {
	mu     sync.Mutex
	sc     Scenario
	sched  *vsched.Sched
	calls  []call
	sent   []message.RpcMessage
	panics []string
	writes int
	closed bool
}

var (
	cur     *harness
	theSess = &session{h: &cur}
)

func install() {
	for _, t := range []branch.BranchType{branch.BranchTypeAT, branch.BranchTypeTCC, branch.BranchTypeXA} {
		rm.GetRmCacheInstance().RegisterResourceManager(&stubRM{typ: t, h: &cur})
	}
}

type execResult struct {
	res     vsched.Result
	calls   []call
	sent    []message.RpcMessage
	stuck   []string
	log     []string
	panics  []string
	pending string
	sc      Scenario // the scenario with the message ids actually used
}

func body(q Req) interface{} {
	k := kinds[q.Kind]
	end := message.AbstractBranchEndRequest{Xid: q.Xid, BranchId: q.BranchID, BranchType: k.Type, ResourceId: k.Res, ApplicationData: []byte(q.Data)}
	if k.Commit {
		return message.BranchCommitRequest{AbstractBranchEndRequest: end}
	}
	return message.BranchRollbackRequest{AbstractBranchEndRequest: end}
}

func runOne(sc Scenario, prefix []int) execResult {
	sgetty.VerifResetRemoting()
	vtime.SetVirtual(func(d time.Duration) bool { return false })
	h := &harness{sc: sc}
	cur = h
	sgetty.VerifRegisterSession(theSess)
	s := vsched.New()
	s.Horizon = 300
	h.sched = s
	pendingDone := make(chan string, 1)
	if sc.Pending {
		// a client request goes out first (outside the scheduler) and stays unanswered; the coordinator's request reuses its id
		h.sched = nil
		go func() {
			_, err := sgetty.GetGettyRemotingClient().SendSyncRequest(message.GlobalBeginRequest{TransactionName: "pending", Timeout: time.Second})
			if err != nil {
				pendingDone <- err.Error()
			} else {
				pendingDone <- ""
			}
		}()
		quiet.Spin(func() bool { h.mu.Lock(); defer h.mu.Unlock(); return len(h.sent) > 0 }, 3)
		h.mu.Lock()
		id := int32(0)
		if len(h.sent) > 0 {
			id = h.sent[0].ID
		}
		h.sent = nil
		h.sc.Reqs = append([]Req{}, h.sc.Reqs...)
		h.sc.Reqs[0].MsgID = id
		h.sched = s
		h.mu.Unlock()
		sc = h.sc
	}
	vpoint.SetHook(s.Point)
	for i, q := range sc.Reqs {
		q := q
		s.Go(fmt.Sprintf("deliver-%d", i), func() {
			defer func() {
				if r := recover(); r != nil {
					h.mu.Lock()
					h.panics = append(h.panics, fmt.Sprint(r))
					h.mu.Unlock()
				}
			}()
			sgetty.GetGettyClientHandlerInstance().OnMessage(theSess, message.RpcMessage{ID: q.MsgID, Type: message.GettyRequestTypeRequestSync,
				Codec: byte(codec.CodecTypeSeata), Body: body(q)})
		})
	}
	r := s.Run(prefix)
	x := execResult{res: r, stuck: s.Unfinished(), log: s.Log, sc: sc}
	vpoint.SetHook(nil)
	h.mu.Lock()
	h.sched = nil
	x.calls = append([]call{}, h.calls...)
	x.sent = append([]message.RpcMessage{}, h.sent...)
	x.panics = h.panics
	h.mu.Unlock()
	s.Abort()
	vtime.FirePending(0)
	if sc.Pending {
		quiet.Spin(func() bool { return len(pendingDone) > 0 }, 3)
		select {
		case x.pending = <-pendingDone:
		default:
			x.pending = "never-returned"
		}
	}
	quiet.Spin(nil, 2)
	return x
}

type Located struct {
	Scenario Scenario `json:"scenario"`
	Choices  []int    `json:"choices"`
	Trace    []string `json:"trace"`
}

func isSuccess(st branch.BranchStatus) bool {
	return st == branch.BranchStatusPhasetwoCommitted || st == branch.BranchStatusPhasetwoRollbacked
}

func check(sc Scenario, x execResult) (clause, detail string) {
	d := func(f string, a ...interface{}) string { return fmt.Sprintf(f, a...) }
	if x.res.Diverged != "" {
		return "", ""
	}
	if len(x.stuck) > 0 {
		return "handler-blocked", d("a request handler never returned: %v", x.stuck)
	}
	// routing: each request reached exactly the manager of its branch type, once, with its own identifiers
	want := map[call]int{}
	for _, q := range sc.Reqs {
		k := kinds[q.Kind]
		if k.NoMgr {
			continue // nobody to call: any call is reported as unexpected below
		}
		want[call{k.Type, k.Commit, q.Xid, q.BranchID, k.Res, q.Data}]++
	}
	got := map[call]int{}
	for _, c := range x.calls {
		got[c]++
	}
	for c, n := range want {
		if got[c] != n {
			return "routing", d("expected %d call(s) %+v, the managers saw %+v", n, c, x.calls)
		}
	}
	for c, n := range got {
		if want[c] != n {
			return "routing", d("unexpected manager call %+v (x%d); all calls: %+v", c, n, x.calls)
		}
	}
	// replies: multiset comparison per message id
	type rep struct {
		commit bool
		xid    string
		br     int64
		st     branch.BranchStatus
		code   message.ResultCode
	}
	wantR := map[int32][]rep{}
	for _, q := range sc.Reqs {
		k := kinds[q.Kind]
		if k.Fail {
			continue
		}
		wantR[q.MsgID] = append(wantR[q.MsgID], rep{k.Commit, q.Xid, q.BranchID, k.Status, message.ResultCodeSuccess})
	}
	gotR := map[int32][]rep{}
	for _, m := range x.sent {
		switch b := m.Body.(type) {
		case message.BranchCommitResponse:
			gotR[m.ID] = append(gotR[m.ID], rep{true, b.Xid, b.BranchId, b.BranchStatus, b.ResultCode})
		case message.BranchRollbackResponse:
			gotR[m.ID] = append(gotR[m.ID], rep{false, b.Xid, b.BranchId, b.BranchStatus, b.ResultCode})
		default:
			return "foreign-message", d("the client wrote %T (id %d) in answer to phase-two traffic", m.Body, m.ID)
		}
		if m.Type != message.GettyRequestTypeResponse {
			return "reply-type", d("reply %d was written with message type %v", m.ID, m.Type)
		}
	}
	// a failed manager must not be reported as success
	for _, q := range sc.Reqs {
		k := kinds[q.Kind]
		if !k.Fail {
			continue
		}
		for _, g := range gotR[q.MsgID] {
			if g.xid == q.Xid && g.br == q.BranchID && g.commit == k.Commit {
				if isSuccess(g.st) {
					return "failure-reported-as-success", d("request %d (%s): the manager failed but the reply carries status %v", q.MsgID, k.Name, g.st)
				}
				// a failure reply is acceptable: take it out of the comparison
				wantR[q.MsgID] = append(wantR[q.MsgID], g)
			}
		}
	}
	for id, ws := range wantR {
		gs := append([]rep{}, gotR[id]...)
		for _, w := range ws {
			found := -1
			for i, g := range gs {
				if g == w {
					found = i
					break
				}
			}
			if found < 0 {
				return "reply-missing-or-wrong", d("message id %d: expected reply %+v, replies written under that id: %+v (all: %d)", id, w, gotR[id], len(x.sent))
			}
			gs = append(gs[:found], gs[found+1:]...)
		}
		if len(gs) > 0 {
			return "extra-reply", d("message id %d: unexpected additional replies %+v", id, gs)
		}
	}
	for id, gs := range gotR {
		if _, ok := wantR[id]; !ok && len(gs) > 0 {
			return "extra-reply", d("replies under message id %d that no request asked for: %+v", id, gs)
		}
	}
	if sc.Pending && x.pending != "" && !strings.Contains(x.pending, "timeout") {
		return "pending-request-disturbed", d("the waiting client request ended with %q", x.pending)
	}
	if n := sgetty.VerifPendingFutures(); n != 0 {
		return "bookkeeping-left", d("%d pending future(s) remain after all replies were written", n)
	}
	return "", ""
}

func sigOf(sc Scenario, clause string) string {
	parts := strings.Split(sc.Name, "|")
	return clause + "/" + parts[len(parts)-1] + "/" + strings.Join(parts[:len(parts)-1], "+")
}

func explore(r *rep.Run, sc Scenario) {
	ex := &vsched.Explorer{Bound: sc.Bound, MaxExec: 30000}
	outcomes := map[string]bool{}
	ex.RunOne = func(prefix []int) vsched.Result {
		x := runOne(sc, prefix)
		nontrivial := false
		for _, p := range x.res.Points {
			if len(p.Enabled) > 1 {
				nontrivial = true
			}
		}
		r.Eval(nontrivial)
		r.Count("schedule_points", int64(len(x.res.Points)))
		if x.res.Diverged != "" {
			r.Count("diverged", 1)
		}
		var order []string
		for _, m := range x.sent {
			order = append(order, fmt.Sprint(m.ID))
		}
		outcomes[strings.Join(order, ",")] = true
		if clause, detail := check(x.sc, x); clause != "" {
			r.Violate(sigOf(sc, clause), "each phase-two request is routed to the manager of its branch type exactly once and, when the manager returns a status, answered by exactly one reply carrying its message id, xid, branch id and that status; a failed manager is never reported as success; requests do not influence each other",
				Located{sc, x.res.Choices, x.log}, detail+" | schedule: "+strings.Join(x.log, " ; "))
		}
		return x.res
	}
	ex.Check = func(vsched.Result) {}
	ex.Explore(nil)
	r.Count("executions", int64(ex.Executions))
	r.Count("scenarios", 1)
	r.Count("distinct_reply_orders", int64(len(outcomes)))
	if ex.Capped {
		r.Exhaustive = false
		r.Count("capped_scenarios", 1)
	}
}

func Run(r *rep.Run) {
	thorough := r.Tier == "thorough"
	r.Rule = "request streams of 2 (thorough: also 3) phase-two requests drawn from a catalogue of {AT,TCC,XA} x {commit,rollback} x {success status, failure status without error, manager error, unknown resource}, with identifiers arranged as same-xid/different-branch, different-xid/same-branch, and same message id; plus one request whose message id equals that of a client request still waiting for its reply. The requests are delivered concurrently on one session; every schedule with at most `bound` preemptions (quick 2; thorough 6 for two requests - which is every interleaving - and 3 for three requests) at the stub managers' entry, inside WritePkg and at the rewriter-inserted points of the remoting tables is executed. Non-trivial = at least one point with more than one enabled action."
	r.Assume = []string{"resource managers are stubs that return the scripted status; their own behaviour is the subject of C05/C10/C11/C17", "time is virtual"}
	sys.InitClient()
	quiet.Spin(nil, 5)
	install()
	scs := scenarios(thorough)
	if replay := os.Getenv("VERIF_REPLAY"); replay != "" {
		b, err := os.ReadFile(replay)
		if err != nil {
			r.Broken = err.Error()
			return
		}
		var f struct {
			Case Located `json:"case"`
		}
		json.Unmarshal(b, &f)
		for i := 0; i < 3; i++ {
			x := runOne(f.Case.Scenario, f.Case.Choices)
			r.Eval(true)
			fmt.Printf("replay %d: calls=%+v sent=%d stuck=%v\n  %s\n", i, x.calls, len(x.sent), x.stuck, strings.Join(x.log, "\n  "))
			if clause, detail := check(x.sc, x); clause != "" {
				r.Violate(sigOf(f.Case.Scenario, clause), "replayed schedule", Located{f.Case.Scenario, x.res.Choices, x.log}, detail)
			}
		}
		return
	}
	shard, nshards, worker := rep.Shard()
	if !worker {
		rep.RunSharded(r, 16, 60*time.Minute)
		return
	}
	runtime.GOMAXPROCS(1)
	for i, sc := range scs {
		if i%nshards != shard {
			continue
		}
		if i < nshards { // determinism probe on the first scenario of every worker
			a, b := runOne(sc, nil), runOne(sc, nil)
			ja, _ := json.Marshal(a.res.Points)
			jb, _ := json.Marshal(b.res.Points)
			if string(ja) != string(jb) {
				r.Broken = fmt.Sprintf("scenario %s is not deterministic under the scheduler:\n%s\n%s", sc.Name, ja, jb)
				return
			}
		}
		explore(r, sc)
	}
}
