// Package c08: undo-log encoding is lossless (Mode S).
//
// Path: driver values --real buildRecordImages--> images --real FlushUndoLog-->
// (context, rollback_info) captured from the INSERT --real decode chain--> images'.
package c08

import (
	"bytes"
	"database/sql"
	"database/sql/driver"
	"encoding/base64"
	"fmt"
	"io"
	"math"
	"seata.apache.org/seata-go/pkg/datasource/sql/undo/parser"
	"strings"
	"time"

	"seata.apache.org/seata-go/pkg/datasource/sql/datasource"
	"seata.apache.org/seata-go/pkg/datasource/sql/exec/at"
	"seata.apache.org/seata-go/pkg/datasource/sql/types"
	"seata.apache.org/seata-go/pkg/datasource/sql/undo"
	"seata.apache.org/seata-go/pkg/datasource/sql/undo/base"

	"verifharness/rep"
)

// ---- driver-side fakes -------------------------------------------------------

type fakeRows struct {
	cols []string
	data [][]driver.Value
	i    int
}

func (r *fakeRows) Columns() []string { return r.cols }
func (r *fakeRows) Close() error      { return nil }
func (r *fakeRows) Next(dest []driver.Value) error {
	if r.i >= len(r.data) {
		return io.EOF
	}
	copy(dest, r.data[r.i])
	r.i++
	return nil
}

// captureConn records the arguments of the undo_log INSERT issued by FlushUndoLog.
type captureConn struct {
	sqls []string
	args [][]driver.Value
}

func (c *captureConn) Prepare(q string) (driver.Stmt, error) {
	c.sqls = append(c.sqls, q)
	return &captureStmt{c: c}, nil
}
func (c *captureConn) Close() error              { return nil }
func (c *captureConn) Begin() (driver.Tx, error) { return nil, fmt.Errorf("not supported") }

type captureStmt struct{ c *captureConn }

func (s *captureStmt) Close() error  { return nil }
func (s *captureStmt) NumInput() int { return -1 }
func (s *captureStmt) Exec(args []driver.Value) (driver.Result, error) {
	s.c.args = append(s.c.args, append([]driver.Value(nil), args...))
	return driver.RowsAffected(1), nil
}
func (s *captureStmt) Query(args []driver.Value) (driver.Rows, error) {
	return nil, fmt.Errorf("not supported")
}

// ---- type catalogue ----------------------------------------------------------

type colType struct {
	Name string         // MySQL DATA_TYPE as the table-meta cache stores it
	Vals []driver.Value // what go-sql-driver/mysql hands to Rows.Next for this column (binary and text protocol shapes)
}

func b(s string) []byte { return []byte(s) }

func allBytes() []byte {
	x := make([]byte, 256)
	for i := range x {
		x[i] = byte(i)
	}
	return x
}

func catalogue(thorough bool) []colType {
	texts := []string{"", "test", "dGVzdA==", "123", `{"a":1}`, "世界", "null", "true", " lead", "a\x00b", "AAAA", "a+b/c=", "1e3", "2024-01-01T00:00:00Z", "x'y\"z\\"}
	if thorough {
		texts = append(texts, strings.Repeat("k", 65536), strings.Repeat("ab", 3), "QUJD", "====", "\xff\xfe")
	}
	var tv, tb []driver.Value
	for _, s := range texts {
		tv = append(tv, b(s))
		tb = append(tb, b(s))
	}
	bins := []driver.Value{b(""), []byte{0}, allBytes(), b("test"), b("dGVzdA=="), []byte{0xff, 0xfe, 0xfd}, b("123")}
	ints := func(vs ...int64) []driver.Value {
		var out []driver.Value
		for _, v := range vs {
			out = append(out, v)                // binary protocol
			out = append(out, b(fmt.Sprint(v))) // text protocol
		}
		return out
	}
	utc := time.UTC
	times := []driver.Value{
		time.Date(2024, 2, 29, 13, 14, 15, 0, utc),
		time.Date(2024, 2, 29, 13, 14, 15, 123456000, utc),
		time.Date(2024, 2, 29, 13, 14, 15, 123456789, utc),
		time.Date(1970, 1, 1, 0, 0, 0, 0, utc),
		time.Date(9999, 12, 31, 23, 59, 59, 999999000, utc),
		time.Date(1000, 1, 1, 0, 0, 0, 0, utc),
		time.Time{},
	}
	if thorough {
		loc := time.FixedZone("UTC+8", 8*3600)
		times = append(times, time.Date(2024, 2, 29, 13, 14, 15, 0, loc), time.Date(2024, 6, 1, 0, 0, 0, 5000, time.FixedZone("", -3*3600)))
	}
	dates := []driver.Value{time.Date(2024, 2, 29, 0, 0, 0, 0, utc), time.Date(1970, 1, 1, 0, 0, 0, 0, utc), time.Date(9999, 12, 31, 0, 0, 0, 0, utc), time.Time{},
		// what the driver hands back for a DATE column under loc=<zone>: midnight in that zone (sixth-round seed)
		time.Date(2024, 3, 5, 0, 0, 0, 0, time.FixedZone("UTC+8", 8*3600)), time.Date(2024, 3, 5, 0, 0, 0, 0, time.FixedZone("UTC-5", -5*3600))}
	return []colType{
		{"BIT", []driver.Value{[]byte{1}, []byte{0}, b("1"), int64(1)}},
		{"TINYINT", ints(-128, -1, 0, 1, 127, 255)},
		{"SMALLINT", ints(-32768, 0, 32767, 65535)},
		{"MEDIUMINT", ints(-8388608, 0, 8388607)},
		{"INT", ints(math.MinInt32, -1, 0, 1, math.MaxInt32, math.MaxUint32)},
		{"BIGINT", append(ints(math.MinInt64, -1, 0, 1, math.MaxInt64, 1<<53-1, 1<<53, 1<<53+1, -(1<<53+1), 1234567890123456789), uint64(math.MaxUint64), uint64(1<<63))},
		{"FLOAT", []driver.Value{float32(0), float32(1.5), float32(-1.5), float32(0.1), float32(math.MaxFloat32), float32(math.SmallestNonzeroFloat32), b("0.1"), b("3.4e38")}},
		{"DOUBLE", []driver.Value{float64(0), 0.1, -1e308, math.MaxFloat64, math.SmallestNonzeroFloat64, float64(1<<53 + 2), b("0.1"), b("1e-7")}},
		{"DECIMAL", []driver.Value{b("0"), b("0.00"), b("123.45"), b("-99999999999999999999.99"), b("0.1"), b("12345678901234567890")}},
		{"CHAR", tv}, {"VARCHAR", tb}, {"TINYTEXT", tv}, {"TEXT", tv}, {"MEDIUMTEXT", tv}, {"LONGTEXT", tv}, {"JSON", []driver.Value{b(`{"a":1}`), b(`[1,2]`), b(`"s"`), b("null"), b("1")}},
		{"DATE", dates}, {"DATETIME", times}, {"TIMESTAMP", times},
		{"TIME", []driver.Value{b("12:34:56"), b("-838:59:59"), b("00:00:00.123456")}},
		{"YEAR", []driver.Value{int64(2024), b("2024"), int64(1901)}},
		{"BINARY", bins}, {"VARBINARY", bins}, {"TINYBLOB", bins}, {"BLOB", bins}, {"MEDIUMBLOB", bins}, {"LONGBLOB", bins},
		{"ENUM", []driver.Value{b("a"), b(""), b("test")}}, {"SET", []driver.Value{b("a,b"), b("")}},
	}
}

func tableMeta(cols []colType) *types.TableMeta {
	m := &types.TableMeta{TableName: "t_all", Columns: map[string]types.ColumnMeta{}, Indexs: map[string]types.IndexMeta{}}
	idc := types.ColumnMeta{ColumnName: "id", DatabaseTypeString: "BIGINT", ColumnKey: "PRI", IsNullable: 0}
	m.Columns["id"] = idc
	m.ColumnNames = append(m.ColumnNames, "id")
	m.Indexs["PRIMARY"] = types.IndexMeta{Name: "PRIMARY", IType: types.IndexTypePrimaryKey, Columns: []types.ColumnMeta{idc}}
	for _, c := range cols {
		for _, nullable := range []int8{0, 1} {
			n := colName(c.Name, nullable)
			m.Columns[n] = types.ColumnMeta{ColumnName: n, DatabaseTypeString: c.Name, IsNullable: nullable}
			m.ColumnNames = append(m.ColumnNames, n)
		}
	}
	return m
}

func colName(t string, nullable int8) string {
	if nullable == 1 {
		return "c_" + strings.ToLower(t) + "_null"
	}
	return "c_" + strings.ToLower(t)
}

// ---- the check ---------------------------------------------------------------

type caseDesc struct {
	Serializer string `json:"serializer"`
	Compress   string `json:"compress"`
	SQLType    string `json:"sql_type"`
	Rows       int    `json:"rows"`
	Column     string `json:"column"`
	MySQLType  string `json:"mysql_type"`
	Driver     string `json:"driver_value"`
	Scanned    string `json:"scanned_value"`
}

func show(v interface{}) string {
	s := fmt.Sprintf("%T(%v)", v, v)
	if bs, ok := asBytes(v); ok {
		s = fmt.Sprintf("%T(%q)", v, bs)
	}
	if len(s) > 80 {
		s = s[:80] + fmt.Sprintf("...(len %d)", len(s))
	}
	return s
}

func asBytes(v interface{}) ([]byte, bool) {
	switch x := v.(type) {
	case string:
		return []byte(x), true
	case []byte:
		return x, true
	case sql.RawBytes:
		return []byte(x), true
	}
	return nil, false
}

// sameValue is the executors' equality (datasource.DeepEqual) made no stricter than
// needed: byte-string-like Go types (string, []byte, sql.RawBytes) compare by content.
func sameValue(orig, dec interface{}) bool {
	if datasource.DeepEqual(orig, dec) {
		return true
	}
	ob, ok1 := asBytes(orig)
	db, ok2 := asBytes(dec)
	if ok1 && ok2 {
		return bytes.Equal(ob, db)
	}
	if ot, ok := orig.(time.Time); ok {
		if dt, ok := dec.(time.Time); ok {
			return ot.Equal(dt)
		}
	}
	return false
}

func valueClass(v interface{}) string {
	switch x := v.(type) {
	case nil:
		return "null"
	case int64:
		switch {
		case x > 1<<53 || x < -(1<<53):
			return "int>2^53"
		}
		return "int"
	case float64:
		return "float"
	case time.Time:
		if x.IsZero() {
			return "zerotime"
		}
		if x.Location() != time.UTC {
			return "time-nonutc"
		}
		return "time"
	}
	if bs, ok := asBytes(v); ok {
		s := string(bs)
		cls := "text"
		if _, isStr := v.(string); !isStr {
			cls = "bytes"
		}
		switch {
		case s == "":
			return cls + "-empty"
		case !isUTF8Printable(bs):
			return cls + "-binary"
		case looksBase64(s):
			return cls + "-base64like"
		}
		return cls
	}
	return fmt.Sprintf("%T", v)
}

// valueClassFor refines the class of integers by the signed range of the column type
// (DATA_TYPE does not say UNSIGNED, so values above the signed range are legitimate).
func valueClassFor(typ string, v interface{}) string {
	if x, ok := v.(int64); ok {
		lim := map[string]int64{"TINYINT": 127, "SMALLINT": 32767, "MEDIUMINT": 8388607, "INT": math.MaxInt32}[typ]
		if lim != 0 && x > lim {
			return "int-above-signed-range"
		}
	}
	return valueClass(v)
}

func isUTF8Printable(b []byte) bool {
	for _, c := range string(b) {
		if c == 0xFFFD || c < 0x20 {
			return false
		}
	}
	return true
}

func looksBase64(s string) bool {
	if len(s)%4 != 0 || len(s) == 0 {
		return false
	}
	for _, c := range s {
		if !(c >= 'A' && c <= 'Z' || c >= 'a' && c <= 'z' || c >= '0' && c <= '9' || c == '+' || c == '/' || c == '=') {
			return false
		}
	}
	return true
}

func catch(f func()) (p string) {
	defer func() {
		if r := recover(); r != nil {
			p = fmt.Sprintf("panic: %v", r)
		}
	}()
	f()
	return ""
}

func Run(r *rep.Run) {
	thorough := r.Tier == "thorough"
	cat := catalogue(thorough)
	meta := tableMeta(cat)
	r.Rule = "type catalogue = every DATA_TYPE the image builder distinguishes x the driver values go-sql-driver/mysql produces for it (binary and text protocol shapes, boundary values, NULL); " +
		"each value is scanned by the real buildRecordImages, flushed by the real FlushUndoLog, decoded by the real rollback decode chain; x serializer {json,protobuf} x compress type catalogue x statement type x {0,1,2} rows. " +
		"Non-trivial = a (serializer, compressor, type, value) case whose value is not NULL."
	r.Assume = []string{"driver value shapes follow go-sql-driver/mysql v1.6.0 (packets.go readRow / binaryRows.readRow) with parseTime=true",
		"equality = datasource.DeepEqual, with string/[]byte/RawBytes compared by content and time.Time by instant (no stricter than the undo executors)"}

	serializers := []string{"json", "protobuf"}
	compressors := []string{"None", "Gzip", "Zip", "Bzip2", "Lz4", "Deflate", "Zstd", "gzip", "", "Sevenz", "bogus"}
	if !thorough {
		// quick: every compressor on a reduced value set, every value under None and Gzip
	}
	saved := undo.UndoConfig
	defer func() { undo.UndoConfig = saved }()

	type scanned struct {
		col  string
		typ  string
		drv  driver.Value
		val  interface{}
		jdbc types.JDBCType
	}
	// 1. scan every (type, value) through the real scanner, one row each
	var vals []scanned
	notProducible := 0
	for _, c := range cat {
		for _, nullable := range []int8{0, 1} {
			dv := append([]driver.Value(nil), c.Vals...)
			if nullable == 1 {
				dv = append(dv, nil)
			}
			for _, v := range dv {
				name := colName(c.Name, nullable)
				rows := &fakeRows{cols: []string{"id", name}, data: [][]driver.Value{{int64(1), v}}}
				var img *types.RecordImage
				var err error
				if p := catch(func() { img, err = at.VerifBuildRecordImages(rows, meta, types.SQLTypeUpdate) }); p != "" || err != nil || img == nil || len(img.Rows) != 1 {
					notProducible++ // scanner rejects this driver value: no image exists, nothing to encode (C18's question)
					continue
				}
				col := img.Rows[0].Columns[1]
				vals = append(vals, scanned{name, c.Name, v, col.Value, col.ColumnType})
			}
		}
	}
	r.Count("scanner_rejected_values", int64(notProducible))
	r.Count("scanned_values", int64(len(vals)))

	var readCfg *undo.Config // when set: the configuration in force when the rollback reads the log (changed since phase one wrote it)
	flushDecode := func(ser, comp string, sqlType types.SQLType, before, after *types.RecordImage) (dec *undo.BranchUndoLog, ctxb, info []byte, errs string) {
		undo.UndoConfig = undo.Config{LogSerialization: ser, CompressConfig: undo.CompressConfig{Enable: true, Type: comp, Threshold: "0k"}}
		tc := &types.TransactionContext{XID: "10.0.0.1:8091:4611686018427387905", BranchID: 1<<62 + 7, RoundImages: &types.RoundRecordImage{}}
		if before != nil {
			tc.RoundImages.AppendBeofreImage(before)
		}
		if after != nil {
			tc.RoundImages.AppendAfterImage(after)
		}
		cc := &captureConn{}
		var err error
		if p := catch(func() { err = base.NewBaseUndoLogManager().FlushUndoLog(tc, cc) }); p != "" {
			return nil, nil, nil, "flush " + p
		}
		if err != nil {
			return nil, nil, nil, "flush error: " + err.Error()
		}
		if len(cc.args) == 0 {
			return nil, nil, nil, "" // nothing flushed (empty images)
		}
		a := cc.args[0]
		ctxb, _ = a[2].([]byte)
		info, _ = a[3].([]byte)
		if readCfg != nil {
			undo.UndoConfig = *readCfg
		}
		if p := catch(func() { dec, err = base.VerifDecode(ctxb, info) }); p != "" {
			return nil, ctxb, info, "decode " + p
		}
		if err != nil {
			return nil, ctxb, info, "decode error: " + err.Error()
		}
		if dec == nil {
			return nil, ctxb, info, "decode returned nil log"
		}
		return dec, ctxb, info, ""
	}

	mkImage := func(sqlType types.SQLType, rows []types.RowImage) *types.RecordImage {
		return &types.RecordImage{TableName: meta.TableName, SQLType: sqlType, Rows: rows, TableMeta: meta}
	}
	idCol := func(id int64) types.ColumnImage {
		return types.ColumnImage{KeyType: types.IndexTypePrimaryKey, ColumnName: "id", ColumnType: types.JDBCTypeBigInt, Value: id}
	}

	compareImage := func(which string, o, d *types.RecordImage) string {
		if o == nil || d == nil {
			if (o == nil) != (d == nil) {
				return which + ": image presence differs"
			}
			return ""
		}
		if !strings.EqualFold(o.TableName, d.TableName) {
			return fmt.Sprintf("%s: table %q != %q", which, d.TableName, o.TableName)
		}
		if o.SQLType != d.SQLType {
			return fmt.Sprintf("%s: sql type %v != %v", which, d.SQLType, o.SQLType)
		}
		if len(o.Rows) != len(d.Rows) {
			return fmt.Sprintf("%s: %d rows != %d", which, len(d.Rows), len(o.Rows))
		}
		for i := range o.Rows {
			if len(o.Rows[i].Columns) != len(d.Rows[i].Columns) {
				return fmt.Sprintf("%s row %d: %d columns != %d", which, i, len(d.Rows[i].Columns), len(o.Rows[i].Columns))
			}
			for j, oc := range o.Rows[i].Columns {
				dc := d.Rows[i].Columns[j]
				if oc.ColumnName != dc.ColumnName || oc.KeyType != dc.KeyType || oc.ColumnType != dc.ColumnType {
					return fmt.Sprintf("%s row %d col %d: meta (%s,%v,%v) != (%s,%v,%v)", which, i, j, dc.ColumnName, dc.KeyType, dc.ColumnType, oc.ColumnName, oc.KeyType, oc.ColumnType)
				}
				if !sameValue(oc.Value, dc.Value) {
					return fmt.Sprintf("VALUE %s row %d col %s: decoded %s, phase one had %s", which, i, oc.ColumnName, show(dc.Value), show(oc.Value))
				}
			}
		}
		return ""
	}

	// 2. structure sweep: statement type x rows x key position, small fixed values, every serializer x compressor
	structVals := []scanned{}
	for _, v := range vals {
		if v.col == "c_int" && v.val == int64(1) || v.col == "c_varchar_null" && v.val == "世界" {
			structVals = append(structVals, v)
		}
	}
	for _, ser := range serializers {
		for _, comp := range compressors {
			for _, st := range []types.SQLType{types.SQLTypeInsert, types.SQLTypeUpdate, types.SQLTypeDelete, types.SQLTypeInsertOnDuplicateUpdate} {
				for nrows := 0; nrows <= 2; nrows++ {
					for _, keyFirst := range []bool{true, false} {
						var rows []types.RowImage
						for k := 0; k < nrows; k++ {
							cols := []types.ColumnImage{}
							for _, sv := range structVals {
								cols = append(cols, types.ColumnImage{ColumnName: sv.col, ColumnType: sv.jdbc, Value: sv.val})
							}
							if keyFirst {
								cols = append([]types.ColumnImage{idCol(int64(k + 1))}, cols...)
							} else {
								cols = append(cols, idCol(int64(k+1)))
							}
							rows = append(rows, types.RowImage{Columns: cols})
						}
						var before, after *types.RecordImage
						switch st {
						case types.SQLTypeInsert:
							before, after = mkImage(st, nil), mkImage(st, rows)
						case types.SQLTypeDelete:
							before, after = mkImage(st, rows), mkImage(st, nil)
						default:
							before, after = mkImage(st, rows), mkImage(st, rows)
						}
						cs := caseDesc{Serializer: ser, Compress: comp, SQLType: fmt.Sprint(st), Rows: nrows, Column: fmt.Sprintf("keyFirst=%v", keyFirst)}
						dec, ctxb, _, errs := flushDecode(ser, comp, st, before, after)
						r.Eval(nrows > 0)
						if nrows == 0 && dec == nil && errs == "" {
							continue // empty images: nothing is flushed, by design
						}
						if errs != "" {
							r.Violate(fmt.Sprintf("config/%s/%s/%s", ser, compClass(comp), errClass(errs)), "what phase one writes, rollback can read (context picks decoder and decompressor)", cs, errs+" context="+string(ctxb))
							continue
						}
						if dec.Xid != "10.0.0.1:8091:4611686018427387905" || dec.BranchID != 1<<62+7 || len(dec.Logs) != 1 {
							r.Violate(fmt.Sprintf("struct/%s/header", ser), "xid, branch id, log count survive", cs, fmt.Sprintf("xid=%s branch=%d logs=%d", dec.Xid, dec.BranchID, len(dec.Logs)))
							continue
						}
						l := dec.Logs[0]
						if l.SQLType != st || !strings.EqualFold(l.TableName, meta.TableName) {
							r.Violate(fmt.Sprintf("struct/%s/logmeta", ser), "statement type and table survive", cs, fmt.Sprintf("%v %s", l.SQLType, l.TableName))
						}
						if d := compareImage("before", before, l.BeforeImage); d != "" {
							r.Violate(fmt.Sprintf("struct/%s/before", ser), "rows, key flags, types and values survive", cs, d)
						}
						if d := compareImage("after", after, l.AfterImage); d != "" {
							r.Violate(fmt.Sprintf("struct/%s/after", ser), "rows, key flags, types and values survive", cs, d)
						}
					}
				}
			}
		}
	}

	// 2b. the configuration changes between phase one and the rollback (restart with another setting, another instance): the
	// context stored with the log - not the current configuration - says how to read it
	{
		allComps := []string{"None", "Gzip", "Zip", "Bzip2", "Lz4", "Deflate", "Zstd"}
		row := types.RowImage{Columns: []types.ColumnImage{idCol(1), {ColumnName: "c_varchar", ColumnType: types.JDBCTypeVarchar, Value: strings.Repeat("payload-", 40)}}}
		for _, serW := range serializers {
			for _, compW := range allComps {
				for _, serR := range serializers {
					for _, compR := range allComps {
						if serW == serR && compW == compR {
							continue
						}
						if !thorough && serW != serR && compW != compR {
							continue // quick: change one setting at a time
						}
						cfg := undo.Config{LogSerialization: serR, CompressConfig: undo.CompressConfig{Enable: compR != "None", Type: compR, Threshold: "0k"}}
						readCfg = &cfg
						before, after := mkImage(types.SQLTypeUpdate, []types.RowImage{row}), mkImage(types.SQLTypeUpdate, []types.RowImage{row})
						dec, ctxb, _, errs := flushDecode(serW, compW, types.SQLTypeUpdate, before, after)
						readCfg = nil
						r.Eval(true)
						r.Count("config_change_cases", 1)
						cs := caseDesc{Serializer: serW + "->" + serR, Compress: compW + "->" + compR, SQLType: "update", Rows: 1}
						if errs != "" {
							r.Violate(fmt.Sprintf("config-change/%s/%s/%s", serW, compClass(compW), errClass(errs)), "what phase one writes, rollback can read (context picks decoder and decompressor)", cs, errs+" context="+string(ctxb))
							continue
						}
						if len(dec.Logs) != 1 {
							r.Violate("config-change/"+serW+"/logs", "what phase one writes, rollback can read", cs, fmt.Sprintf("%d logs", len(dec.Logs)))
							continue
						}
						if d := compareImage("before", before, dec.Logs[0].BeforeImage); d != "" {
							r.Violate("config-change/"+serW+"/before", "what phase one writes, rollback can read", cs, d)
						}
					}
				}
			}
		}
	}

	// 3. value sweep: every scanned (type, value) as the non-key column of a one-row UPDATE log
	valueComps := []string{"None", "Gzip"}
	if thorough {
		valueComps = []string{"None", "Gzip", "Zip", "Bzip2", "Lz4", "Deflate", "Zstd"}
	}
	nsample := 0
	for _, ser := range serializers {
		for _, comp := range valueComps {
			for _, sv := range vals {
				row := types.RowImage{Columns: []types.ColumnImage{idCol(1), {ColumnName: sv.col, ColumnType: sv.jdbc, Value: sv.val}}}
				before := mkImage(types.SQLTypeUpdate, []types.RowImage{row})
				after := mkImage(types.SQLTypeUpdate, []types.RowImage{row})
				cs := caseDesc{Serializer: ser, Compress: comp, SQLType: "UPDATE", Rows: 1, Column: sv.col, MySQLType: sv.typ, Driver: show(sv.drv), Scanned: show(sv.val)}
				if nsample%97 == 0 {
					r.Sample(cs)
				}
				nsample++
				dec, _, _, errs := flushDecode(ser, comp, types.SQLTypeUpdate, before, after)
				r.Eval(sv.val != nil)
				sigBase := fmt.Sprintf("value/%s/%s/%s", ser, sv.typ, valueClassFor(sv.typ, sv.val))
				if errs != "" {
					if comp != "None" && strings.Contains(errs, "decode error") {
						// reported once by the configuration sweep
						continue
					}
					r.Violate(sigBase+"/"+errClass(errs), "no panic, no error", cs, errs)
					continue
				}
				if len(dec.Logs) != 1 {
					r.Violate(sigBase+"/logs", "one log", cs, fmt.Sprint(len(dec.Logs)))
					continue
				}
				d := compareImage("before", before, dec.Logs[0].BeforeImage)
				if d == "" {
					d = compareImage("after", after, dec.Logs[0].AfterImage)
				}
				if d != "" {
					cl := "meta"
					if strings.HasPrefix(d, "VALUE") {
						cl = "value"
					}
					r.Violate(sigBase+"/"+cl, "decoded value equals the phase-one value under the executors' equality", cs, d)
				}
			}
		}
	}

	// 3b. payload sweep: incompressible (pseudo-random) and highly compressible payloads of growing size under every real
	// compressor - what phase one accepts and stores, rollback must read back (an accepted write that cannot be read is
	// the failure; a compressor that refuses the payload fails phase one, which is allowed and counted)
	{
		entropy := func(n int) []byte {
			out := make([]byte, n)
			x := uint64(0x9E3779B97F4A7C15)
			for i := range out {
				x ^= x << 13
				x ^= x >> 7
				x ^= x << 17
				out[i] = byte(x >> 32)
			}
			return out
		}
		sizes := []int{1 << 10, 12 << 10, 48 << 10, 200 << 10}
		for _, ser := range serializers {
			for _, comp := range []string{"Gzip", "Zip", "Bzip2", "Lz4", "Deflate", "Zstd"} {
				for _, n := range sizes {
					for _, kind := range []string{"random-blob", "random-base64-text", "zeros-blob"} {
						var col types.ColumnImage
						switch kind {
						case "random-blob":
							col = types.ColumnImage{ColumnName: colName("LONGBLOB", 1), ColumnType: types.JDBCTypeLongVarBinary, Value: entropy(n)}
						case "random-base64-text":
							col = types.ColumnImage{ColumnName: colName("LONGTEXT", 1), ColumnType: types.JDBCTypeLongVarchar, Value: base64.StdEncoding.EncodeToString(entropy(n * 3 / 4))}
						case "zeros-blob":
							col = types.ColumnImage{ColumnName: colName("LONGBLOB", 1), ColumnType: types.JDBCTypeLongVarBinary, Value: make([]byte, n)}
						}
						row := types.RowImage{Columns: []types.ColumnImage{idCol(1), col}}
						before := mkImage(types.SQLTypeUpdate, []types.RowImage{row})
						after := mkImage(types.SQLTypeUpdate, []types.RowImage{row})
						cs := caseDesc{Serializer: ser, Compress: comp, SQLType: "UPDATE", Rows: 1, Column: col.ColumnName, MySQLType: kind, Driver: fmt.Sprintf("%d bytes", n)}
						dec, _, _, errs := flushDecode(ser, comp, types.SQLTypeUpdate, before, after)
						r.Eval(true)
						r.Count("payload_cases", 1)
						sigBase := fmt.Sprintf("payload/%s/%s/%s/%d", ser, comp, kind, n)
						if strings.HasPrefix(errs, "flush error") {
							r.Count("payload_refused_by_phase_one", 1) // nothing was stored: phase one fails, nothing to read back
							continue
						}
						if errs != "" {
							r.Violate(sigBase+"/"+errClass(errs), "what phase one writes, rollback can read", cs, errs)
							continue
						}
						if dec == nil || len(dec.Logs) != 1 {
							r.Violate(sigBase+"/logs", "what phase one writes, rollback can read", cs, fmt.Sprintf("decoded log: %+v", dec))
							continue
						}
						d := compareImage("before", before, dec.Logs[0].BeforeImage)
						if d == "" {
							d = compareImage("after", after, dec.Logs[0].AfterImage)
						}
						if d != "" {
							if len(d) > 300 {
								d = d[:300] + "..."
							}
							r.Violate(sigBase+"/value", "decoded value equals the phase-one value under the executors' equality", cs, d)
						}
					}
				}
			}
		}
	}

	// 3c. several encoded logs alive at once: what one Encode call returned still decodes to its own log after further Encode
	// calls (two branches in phase one at the same time hold their encoded logs side by side) - same length and different
	// lengths, encoded in either order
	for _, ser := range serializers {
		ps, err := parser.GetCache().Load(ser)
		if err != nil {
			r.Violate("encode-alive/"+ser+"/no-parser", "what phase one writes, rollback can read", caseDesc{Serializer: ser}, err.Error())
			continue
		}
		mk := func(xid string, branch uint64, val string) *undo.BranchUndoLog {
			row := types.RowImage{Columns: []types.ColumnImage{idCol(1), {ColumnName: colName("VARCHAR", 1), ColumnType: types.JDBCTypeVarchar, Value: val}}}
			return &undo.BranchUndoLog{Xid: xid, BranchID: branch, Logs: []undo.SQLUndoLog{{SQLType: types.SQLTypeUpdate, TableName: meta.TableName,
				BeforeImage: mkImage(types.SQLTypeUpdate, []types.RowImage{row}), AfterImage: mkImage(types.SQLTypeUpdate, []types.RowImage{row})}}}
		}
		logs := []*undo.BranchUndoLog{mk("10.0.0.1:8091:1000", 100, "aaaa"), mk("10.0.0.2:8091:9000", 500, "bbbb"), mk("10.0.0.3:8091:77", 7, strings.Repeat("c", 300))}
		for _, order := range [][]int{{0, 1, 2}, {2, 1, 0}, {1, 0, 2}} {
			enc := make([][]byte, len(logs))
			failed := false
			for _, i := range order {
				b, err := ps.Encode(logs[i])
				if err != nil {
					r.Violate("encode-alive/"+ser+"/encode-error", "no panic, no error", caseDesc{Serializer: ser}, err.Error())
					failed = true
					break
				}
				enc[i] = b
			}
			if failed {
				continue
			}
			for i, b := range enc {
				r.Eval(true)
				r.Count("encode_alive_cases", 1)
				dec, err := ps.Decode(b)
				cs := caseDesc{Serializer: ser, Compress: "None", SQLType: "UPDATE", Rows: 1, Column: fmt.Sprintf("log %d of 3, encode order %v", i, order)}
				if err != nil || dec == nil {
					r.Violate("encode-alive/"+ser+"/decode-error", "what phase one writes, rollback can read", cs, fmt.Sprintf("the bytes returned for log %d no longer decode after the other logs were encoded: %v", i, err))
					continue
				}
				if dec.Xid != logs[i].Xid || dec.BranchID != logs[i].BranchID || len(dec.Logs) != 1 ||
					compareImage("before", logs[i].Logs[0].BeforeImage, dec.Logs[0].BeforeImage) != "" {
					r.Violate("encode-alive/"+ser+"/other-log", "what phase one writes, rollback can read", cs,
						fmt.Sprintf("the bytes returned for the log of %s/%d decode to the log of %s/%d after the other logs were encoded", logs[i].Xid, logs[i].BranchID, dec.Xid, dec.BranchID))
				}
			}
		}
	}

	// 4. thorough: all pairs of values as two non-key columns of one row (json and protobuf, no compression)
	if thorough {
		var pick []scanned
		seen := map[string]bool{}
		for _, sv := range vals {
			k := sv.typ + "/" + valueClass(sv.val)
			if !seen[k] {
				seen[k] = true
				pick = append(pick, sv)
			}
		}
		for _, ser := range serializers {
			for i := range pick {
				for j := range pick {
					if pick[i].col == pick[j].col {
						continue
					}
					row := types.RowImage{Columns: []types.ColumnImage{idCol(1), {ColumnName: pick[i].col, ColumnType: pick[i].jdbc, Value: pick[i].val}, {ColumnName: pick[j].col, ColumnType: pick[j].jdbc, Value: pick[j].val}}}
					before := mkImage(types.SQLTypeUpdate, []types.RowImage{row})
					after := mkImage(types.SQLTypeUpdate, []types.RowImage{row})
					dec, _, _, errs := flushDecode(ser, "None", types.SQLTypeUpdate, before, after)
					r.Eval(true)
					cs := caseDesc{Serializer: ser, Compress: "None", SQLType: "UPDATE", Rows: 1, Column: pick[i].col + "+" + pick[j].col}
					if errs != "" {
						r.Violate(fmt.Sprintf("value/%s/%s/%s/%s", ser, pick[i].typ, valueClass(pick[i].val), errClass(errs)), "no panic, no error", cs, errs)
						continue
					}
					if d := compareImage("before", before, dec.Logs[0].BeforeImage); d != "" {
						// attribute to the column that differs
						who := pick[i]
						if strings.Contains(d, pick[j].col) {
							who = pick[j]
						}
						r.Violate(fmt.Sprintf("value/%s/%s/%s/value", ser, who.typ, valueClassFor(who.typ, who.val)), "decoded value equals the phase-one value (pairs)", cs, d)
					}
				}
			}
		}
	}
}

func compClass(c string) string {
	switch c {
	case "None", "Gzip", "Zip", "Bzip2", "Lz4", "Deflate", "Zstd":
		return c
	case "":
		return "empty"
	}
	return "unknown-spelling:" + c
}

func errClass(e string) string {
	switch {
	case strings.Contains(e, "panic"):
		if strings.HasPrefix(e, "flush") {
			return "flush-panic"
		}
		return "decode-panic"
	case strings.HasPrefix(e, "flush"):
		return "flush-error"
	}
	return "decode-error"
}
