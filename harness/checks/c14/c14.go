// Package c14: concurrent requests are answered by their own responses; stragglers do no harm (Mode D).
//
// The real remoting client (SendSyncRequest -> sendAsync -> syncCallback, OnMessage -> clientOnResponseProcessor ->
// NotifyRpcMessageResponse) runs under the environment-point scheduler (package vsched): the rewriter puts a scheduling
// point at every channel / sync.Map operation of getty_remoting.go, getty_client.go and client_on_response_processor.go,
// the fake session parks the writer inside WritePkg (the request is on the wire but the call has not returned), replies,
// duplicate replies, the 20 s timers, a colliding phase-two reply and a connection loss are environment actions.
// Every schedule with at most `bound` deviations is executed; the oracle is evaluated on each.
package c14

import (
	"encoding/json"
	"fmt"
	"os"
	"runtime"
	"sort"
	"strings"
	"sync"
	"time"

	getty "github.com/apache/dubbo-getty"

	"seata.apache.org/seata-go/pkg/protocol/codec"
	"seata.apache.org/seata-go/pkg/protocol/message"
	sgetty "seata.apache.org/seata-go/pkg/remoting/getty"
	"seata.apache.org/seata-go/pkg/util/vshim/vpoint"
	"seata.apache.org/seata-go/pkg/util/vshim/vtime"

	"verifharness/quiet"
	"verifharness/rep"
	"verifharness/sys"
	"verifharness/vsched"
)

type Scenario struct {
	Name         string `json:"name"`
	Callers      int    `json:"callers"`
	Replies      []int  `json:"replies"`       // per caller: how many copies of its reply the coordinator sends (0 = never answers)
	CronOnLost   bool   `json:"cron_on_lost,omitempty"` // after the connection loss a heartbeat is attempted on the lost session under the message id of a request pending on the healthy one
	Collide      bool   `json:"collide"`       // a phase-two reply is sent with the message id of caller 0's request
	CollideFails bool   `json:"collide_fails"` // ... and its write to the session fails
	Close        bool   `json:"close"`         // the connection may drop at any moment (a second one stays)
	FailWrite    int    `json:"fail_write"`    // 1+index of the caller whose request fails on the wire (WritePkg returns an error); 0 = none
	Bound        int    `json:"bound"`         // deviation bound
	MaxExec      int    `json:"max_exec"`      // cap on executions (0 = none)
	Thorough     bool   `json:"thorough"`
}

func scenarios(thorough bool) []Scenario {
	s := []Scenario{
		{Name: "2callers-reorder", Callers: 2, Replies: []int{1, 1}, Bound: 1},
		{Name: "2callers-drop0", Callers: 2, Replies: []int{0, 1}, Bound: 1},
		{Name: "2callers-dup0", Callers: 2, Replies: []int{2, 1}, Bound: 1},
		{Name: "1caller-dup", Callers: 1, Replies: []int{2}, Bound: 3},
		{Name: "1caller-late", Callers: 1, Replies: []int{1}, Bound: 3},
		{Name: "2callers-collide", Callers: 2, Replies: []int{1, 1}, Collide: true, Bound: 1},
		{Name: "2callers-close", Callers: 2, Replies: []int{1, 1}, Close: true, Bound: 1},
		{Name: "3callers-reorder", Callers: 3, Replies: []int{1, 1, 1}, Bound: 0},
		{Name: "2callers-collide-writefail", Callers: 2, Replies: []int{1, 1}, Collide: true, CollideFails: true, Bound: 1},
		{Name: "2callers-writefail", Callers: 2, Replies: []int{1, 0}, FailWrite: 2, Bound: 2},
		{Name: "2callers-close-heartbeat", Callers: 2, Replies: []int{1, 1}, Close: true, CronOnLost: true, Bound: 1},
	}
	if thorough {
		s = append(s,
			Scenario{Name: "2callers-reorder-b2", Callers: 2, Replies: []int{1, 1}, Bound: 2, Thorough: true},
			Scenario{Name: "2callers-drop0-b2", Callers: 2, Replies: []int{0, 1}, Bound: 2, Thorough: true},
			Scenario{Name: "2callers-dup0-b2", Callers: 2, Replies: []int{2, 1}, Bound: 2, Thorough: true},
			Scenario{Name: "3callers-reorder-b1", Callers: 3, Replies: []int{1, 1, 1}, Bound: 1, Thorough: true},
			Scenario{Name: "2callers-reorder-b3", Callers: 2, Replies: []int{1, 1}, Bound: 3, Thorough: true},
			Scenario{Name: "2callers-dup-both-b2", Callers: 2, Replies: []int{2, 2}, Bound: 2, Thorough: true},
			Scenario{Name: "2callers-dup0-b3", Callers: 2, Replies: []int{2, 1}, Bound: 3, Thorough: true},
			Scenario{Name: "3callers-reorder-b2", Callers: 3, Replies: []int{1, 1, 1}, Bound: 2, Thorough: true},
			Scenario{Name: "3callers-drop-dup", Callers: 3, Replies: []int{0, 2, 1}, Bound: 2, Thorough: true},
			Scenario{Name: "2callers-collide-b2", Callers: 2, Replies: []int{1, 1}, Collide: true, Bound: 2, Thorough: true},
			Scenario{Name: "2callers-close-b2", Callers: 2, Replies: []int{1, 0}, Close: true, Bound: 2, Thorough: true},
			Scenario{Name: "1caller-dup3-b4", Callers: 1, Replies: []int{3}, Bound: 4, Thorough: true},
		)
		for i := range s {
			s[i].MaxExec = 96000
		}
	} else {
		for i := range s {
			s[i].MaxExec = 48000
		}
	}
	return s
}

// ---- fake session ---------------------------------------------------------------

type session struct {
	getty.Session
	addr   string
	mu     sync.Mutex
	closed bool
	h      *harness
}

func (s *session) IsClosed() bool {
	s.mu.Lock()
	defer s.mu.Unlock()
	return s.closed
}
func (s *session) Close() {
	s.mu.Lock()
	s.closed = true
	s.mu.Unlock()
}
func (s *session) RemoteAddr() string                     { return s.addr }
func (s *session) LocalAddr() string                      { return "127.0.0.1:40000" }
func (s *session) Stat() string                           { return "c14-session(" + s.addr + ")" }
func (s *session) SetAttribute(k, v interface{})          {}
func (s *session) GetAttribute(k interface{}) interface{} { return nil }
func (s *session) RemoveAttribute(k interface{})          {}

func (s *session) WritePkg(pkg interface{}, _ time.Duration) (int, int, error) {
	msg, ok := pkg.(message.RpcMessage)
	if !ok {
		return 0, 0, fmt.Errorf("not an RpcMessage")
	}
	if s.IsClosed() {
		return 0, 0, fmt.Errorf("c14: session closed")
	}
	h := s.h
	h.mu.Lock()
	if req, ok := msg.Body.(message.GlobalBeginRequest); ok {
		if i := strings.LastIndex(req.TransactionName, ":"); i >= 0 {
			req.TransactionName = req.TransactionName[i+1:] // the routing prefix used in the two-connection scenario
		}
		if h.sc.FailWrite > 0 && req.TransactionName == fmt.Sprintf("caller-%d", h.sc.FailWrite-1) {
			sched := h.sched
			h.mu.Unlock()
			if sched != nil {
				sched.Point("WritePkg-fails")
			}
			return 0, 0, fmt.Errorf("c14: write failed: broken pipe")
		}
		h.wire = append(h.wire, &wireReq{id: msg.ID, name: req.TransactionName, sess: s})
	} else {
		h.other = append(h.other, fmt.Sprintf("%T id=%d", msg.Body, msg.ID))
		if _, isReply := msg.Body.(message.BranchCommitResponse); isReply && h.sc.CollideFails {
			h.mu.Unlock()
			return 0, 0, fmt.Errorf("c14: write failed: broken pipe")
		}
	}
	sched := h.sched
	h.mu.Unlock()
	if sched != nil {
		sched.Point("WritePkg-return")
	}
	return 1, 1, nil
}

type wireReq struct {
	id      int32
	name    string
	sess    *session
	replied int
}

type outcome struct {
	Returned bool   `json:"returned"`
	Xid      string `json:"xid"`
	Err      string `json:"err"`
}

type harness struct {
	mu          sync.Mutex
	sc          Scenario
	sched       *vsched.Sched
	s1, s2      *session
	wire        []*wireReq
	other       []string
	res         []outcome
	timerOwner  map[int]int // timer id -> thread id that created it
	callerTID   []int
	fired       map[int]bool // thread ids whose timer was fired
	closedOnce  bool
	collideDone bool
	cronDone    bool
	baseID      int32
	deliveries  int
	fresh       outcome
	seq         int
	deliveredAt map[string]int // request name -> sequence number at which a delivery of its reply had been fully processed
	timeoutAt   map[int]int    // thread id -> sequence number at which its timer fired
}

func xidFor(name string) string { return "xid-of-" + name }

func begin(name string) (outcome, interface{}) {
	resp, err := sgetty.GetGettyRemotingClient().SendSyncRequest(message.GlobalBeginRequest{TransactionName: name, Timeout: time.Second})
	o := outcome{Returned: true}
	if err != nil {
		o.Err = err.Error()
		return o, resp
	}
	if r, ok := resp.(message.GlobalBeginResponse); ok {
		o.Xid = r.Xid
	} else {
		o.Err = fmt.Sprintf("unexpected response %T %+v", resp, resp)
	}
	return o, resp
}

func (h *harness) deliver(id int32, body interface{}, sess *session, name string) {
	h.deliveries++
	h.sched.GoNow(fmt.Sprintf("deliver id=%d", id), func() {
		sgetty.GetGettyClientHandlerInstance().OnMessage(sess, message.RpcMessage{ID: id, Type: message.GettyRequestTypeResponse,
			Codec: byte(codec.CodecTypeSeata), Body: body})
		h.mu.Lock()
		h.seq++
		if _, ok := h.deliveredAt[name]; !ok {
			h.deliveredAt[name] = h.seq
		}
		h.mu.Unlock()
	})
}

// env lists the enabled environment actions in canonical order.
func (h *harness) env() []vsched.EnvAction {
	h.mu.Lock()
	defer h.mu.Unlock()
	var out []vsched.EnvAction
	for _, w := range h.wire {
		w := w
		idx := -1
		fmt.Sscanf(w.name, "caller-%d", &idx)
		if idx < 0 || idx >= len(h.sc.Replies) || w.replied >= h.sc.Replies[idx] {
			continue
		}
		out = append(out, vsched.EnvAction{Desc: fmt.Sprintf("reply(%s)#%d", w.name, w.replied+1), Fire: func() {
			h.mu.Lock()
			w.replied++
			h.mu.Unlock()
			h.deliver(w.id, message.GlobalBeginResponse{AbstractTransactionResponse: message.AbstractTransactionResponse{
				AbstractResultMessage: message.AbstractResultMessage{ResultCode: message.ResultCodeSuccess}}, Xid: xidFor(w.name)}, w.sess, w.name)
		}})
	}
	for _, id := range vtime.PendingIDs() {
		id := id
		owner, ok := h.timerOwner[id]
		if !ok || h.sched.Done(owner) {
			continue // the waiter has gone: the timer firing is unobservable
		}
		out = append(out, vsched.EnvAction{Desc: fmt.Sprintf("timeout(T%d)", owner), Fire: func() {
			h.mu.Lock()
			h.fired[owner] = true
			h.seq++
			h.timeoutAt[owner] = h.seq
			h.mu.Unlock()
			vtime.FireID(id)
		}})
	}
	if h.sc.Collide && !h.collideDone && len(h.wire) > 0 {
		out = append(out, vsched.EnvAction{Desc: "phase-two-reply-with-colliding-id", Fire: func() {
			h.mu.Lock()
			h.collideDone = true
			id := h.baseID + 1
			h.mu.Unlock()
			// what rm_branch_commit_processor does after the resource manager returned: answer under the coordinator's message id
			h.sched.GoNow("phase-two-reply", func() {
				sgetty.GetGettyRemotingClient().SendAsyncResponse(id, message.BranchCommitResponse{})
			})
		}})
	}
	if h.sc.CronOnLost && h.closedOnce && !h.cronDone {
		var id int32 = -1
		for _, w := range h.wire {
			if w.sess == h.s2 && w.replied == 0 {
				id = w.id
			}
		}
		if id >= 0 {
			out = append(out, vsched.EnvAction{Desc: "heartbeat-on-lost-connection-with-colliding-id", Fire: func() {
				h.mu.Lock()
				h.cronDone = true
				h.mu.Unlock()
				h.sched.GoNow("heartbeat", func() { sgetty.VerifSendHeartbeat(h.s1, id) })
			}})
		}
	}
	if h.sc.Close && !h.closedOnce {
		out = append(out, vsched.EnvAction{Desc: "connection-lost", Fire: func() {
			h.mu.Lock()
			h.closedOnce = true
			h.mu.Unlock()
			h.sched.GoNow("on-close", func() {
				h.s1.Close()
				sgetty.GetGettyClientHandlerInstance().OnClose(h.s1)
			})
		}})
	}
	return out
}

// sequential sends one request outside the scheduler, answers it as soon as it is on the wire and returns the caller's outcome.
func (h *harness) sequential(name string) outcome {
	h.mu.Lock()
	h.wire = nil
	h.mu.Unlock()
	var omu sync.Mutex
	var out *outcome
	go func() {
		o, _ := begin(name)
		omu.Lock()
		out = &o
		omu.Unlock()
	}()
	finished := func() bool { omu.Lock(); defer omu.Unlock(); return out != nil }
	quiet.Spin(func() bool {
		h.mu.Lock()
		defer h.mu.Unlock()
		return len(h.wire) > 0 || finished()
	}, 3)
	h.mu.Lock()
	var w *wireReq
	if len(h.wire) > 0 {
		w = h.wire[0]
		h.baseID = w.id
	}
	h.wire = nil
	h.mu.Unlock()
	if w != nil {
		go sgetty.GetGettyClientHandlerInstance().OnMessage(w.sess, message.RpcMessage{ID: w.id, Type: message.GettyRequestTypeResponse, Codec: byte(codec.CodecTypeSeata),
			Body: message.GlobalBeginResponse{Xid: xidFor(name)}})
	}
	quiet.Spin(finished, 3)
	omu.Lock()
	defer omu.Unlock()
	if out == nil {
		return outcome{Err: "the request never returned although its reply was delivered"}
	}
	return *out
}

type execResult struct {
	res         vsched.Result
	outcomes    []outcome
	fresh       outcome
	futures     int
	merged      int
	stuck       []string
	fired       map[int]bool
	callerTID   []int
	log         []string
	replied     map[string]int
	other       []string
	deliveredAt map[string]int
	timeoutAt   map[int]int
}

func runOne(sc Scenario, prefix []int) execResult {
	sgetty.VerifResetRemoting()
	vtime.SetVirtual(func(d time.Duration) bool { return false })
	h := &harness{sc: sc, timerOwner: map[int]int{}, fired: map[int]bool{}, deliveredAt: map[string]int{}, timeoutAt: map[int]int{}}
	h.s1 = &session{addr: "10.0.0.1:8091", h: h}
	h.s2 = &session{addr: "10.0.0.2:8091", h: h}
	sgetty.VerifRegisterSession(h.s1)
	if sc.Close {
		sgetty.VerifRegisterSession(h.s2)
	}
	// learn the id generator's position with a sequential warm-up request (answered at once, outside the scheduler)
	if sc.Collide {
		if o := h.sequential("warmup"); o.Err != "" || o.Xid != xidFor("warmup") {
			panic("c14: warm-up request failed: " + o.Err)
		}
	}
	s := vsched.New()
	s.Horizon = 300
	h.sched = s
	s.Env = h.env
	vtime.OnCreate = func(id int, d time.Duration) {
		h.mu.Lock()
		h.timerOwner[id] = s.Current()
		h.mu.Unlock()
	}
	vpoint.SetHook(s.Point)
	h.res = make([]outcome, sc.Callers)
	h.callerTID = make([]int, sc.Callers)
	for i := 0; i < sc.Callers; i++ {
		i := i
		h.callerTID[i] = i
		s.Go(fmt.Sprintf("caller-%d", i), func() {
			name := fmt.Sprintf("caller-%d", i)
			if sc.Close {
				// under the XID policy a name of the form ip:port:id is routed to that address while it is open: the callers use
				// the connection that is going to be lost, deterministically (the random fallback is time-seeded)
				name = "10.0.0.1:8091:" + name
			}
			o, _ := begin(name)
			h.mu.Lock()
			h.res[i] = o
			h.mu.Unlock()
		})
	}
	r := s.Run(prefix)
	x := execResult{res: r, fired: h.fired, callerTID: h.callerTID, replied: map[string]int{}}
	x.stuck = s.Unfinished()
	// a fresh request after the disturbance must still be answered (only meaningful when message processing is not stuck)
	if len(x.stuck) == 0 && !r.Horizon && r.Diverged == "" {
		vpoint.SetHook(nil)
		h.mu.Lock()
		h.sched = nil
		h.mu.Unlock()
		x.fresh = h.sequential("fresh")
	}
	vpoint.SetHook(nil)
	vtime.OnCreate = nil
	h.mu.Lock()
	x.outcomes = append([]outcome{}, h.res...)
	for _, w := range h.wire {
		x.replied[w.name] = w.replied
	}
	x.other = h.other
	x.deliveredAt, x.timeoutAt = h.deliveredAt, h.timeoutAt
	h.mu.Unlock()
	x.futures = sgetty.VerifPendingFutures()
	x.merged = sgetty.VerifPendingMerged()
	x.log = s.Log
	s.Abort()
	vtime.FirePending(0) // let abandoned waiters of this execution go
	quiet.Spin(nil, 2)
	return x
}

type Located struct {
	Scenario Scenario `json:"scenario"`
	Choices  []int    `json:"choices"`
	Trace    []string `json:"trace"`
}

func check(sc Scenario, x execResult) (clause, detail string) {
	d := func(f string, a ...interface{}) string { return fmt.Sprintf(f, a...) }
	if x.res.Diverged != "" {
		return "", ""
	}
	for i, o := range x.outcomes {
		name := fmt.Sprintf("caller-%d", i)
		if !o.Returned {
			continue
		}
		if o.Err == "" && o.Xid != xidFor(name) {
			return "foreign-reply", d("%s received %q, the reply to another request", name, o.Xid)
		}
		if o.Err != "" && !strings.Contains(o.Err, "timeout") && !strings.Contains(o.Err, "closed") && !strings.Contains(o.Err, "broken pipe") {
			return "unexpected-error", d("%s: %s", name, o.Err)
		}
		if o.Err != "" && strings.Contains(o.Err, "timeout") && !x.fired[x.callerTID[i]] {
			return "timeout-without-timer", d("%s reported a timeout although its timer never fired", name)
		}
	}
	// a thread that never finished: a delivery parked in response processing, or a caller whose own reply was delivered
	for _, st := range x.stuck {
		if strings.Contains(st, "deliver") || strings.Contains(st, "phase-two-reply") || strings.Contains(st, "on-close") {
			return "delivery-blocked", d("message processing never returned: %s", st)
		}
	}
	for i, o := range x.outcomes {
		name := fmt.Sprintf("caller-%d", i)
		if !o.Returned && !x.res.Horizon {
			// all environment actions are exhausted (every reply delivered, every live timer fired): the caller must have returned
			return "caller-never-returns", d("%s is still waiting after every reply was delivered and every timer fired (replies delivered for it: %d)", name, x.replied[name])
		}
		if o.Returned && o.Err != "" && strings.Contains(o.Err, "timeout") {
			// a timeout is legitimate only if the timer fired before the reply had been processed; a reply whose processing was
			// complete before the timer fired must have reached the caller
			if at, ok := x.deliveredAt[name]; ok && at < x.timeoutAt[x.callerTID[i]] {
				return "reply-lost", d("%s timed out although its reply had been delivered and fully processed before its timer fired", name)
			}
		}
	}
	if len(x.stuck) == 0 && !x.res.Horizon {
		if x.fresh.Err != "" || x.fresh.Xid != xidFor("fresh") {
			return "fresh-request-fails", d("a fresh request after the disturbance: xid=%q err=%q", x.fresh.Xid, x.fresh.Err)
		}
		if x.futures != 0 || x.merged != 0 {
			return "bookkeeping-left", d("%d pending future(s) and %d merged entr(ies) remain after every caller returned", x.futures, x.merged)
		}
	}
	return "", ""
}

func sigOf(sc Scenario, clause string, x execResult) string {
	// root cause class: which environment events took part
	var evs []string
	seen := map[string]bool{}
	for _, l := range x.log {
		k := ""
		switch {
		case strings.HasPrefix(l, "E:timeout"):
			k = "timeout"
		case strings.HasPrefix(l, "E:reply") && strings.HasSuffix(l, "#2"), strings.HasPrefix(l, "E:reply") && strings.HasSuffix(l, "#3"):
			k = "dup"
		case strings.HasPrefix(l, "E:phase-two"):
			k = "collide"
		case strings.HasPrefix(l, "E:connection"):
			k = "close"
		}
		if k != "" && !seen[k] {
			seen[k] = true
			evs = append(evs, k)
		}
	}
	sort.Strings(evs)
	return fmt.Sprintf("%s/%s", clause, strings.Join(evs, "+"))
}

var deadline time.Time // per worker process: exploration stops there and the run is reported as not exhaustive

func explore(r *rep.Run, sc Scenario, shard, nshards int) {
	outcomes := map[string]int{}
	var first *execResult
	ex := &vsched.Explorer{Bound: sc.Bound, MaxExec: sc.MaxExec / nshards, Shard: shard, NShards: nshards, Deadline: deadline}
	maxSteps := 0
	ex.RunOne = func(prefix []int) vsched.Result {
		x := runOne(sc, prefix)
		if first == nil {
			first = &x
		}
		if ex.Silent {
			return x.res
		}
		if len(x.res.Points) > maxSteps {
			maxSteps = len(x.res.Points)
		}
		nontrivial := false
		for _, p := range x.res.Points {
			if len(p.Enabled) > 1 {
				nontrivial = true
			}
		}
		r.Eval(nontrivial)
		r.Count("schedule_points", int64(len(x.res.Points)))
		if x.res.Diverged != "" {
			r.Count("diverged", 1)
		}
		if x.res.Horizon {
			r.Count("horizon_hit", 1)
		}
		norm := append([]outcome{}, x.outcomes...)
		for i := range norm {
			if strings.Contains(norm[i].Err, "timeout") {
				norm[i].Err = "timeout"
			}
		}
		key, _ := json.Marshal(struct {
			O []outcome
			F int
			S int
		}{norm, x.futures, len(x.stuck)})
		outcomes[string(key)]++
		if clause, detail := check(sc, x); clause != "" {
			r.Violate(sigOf(sc, clause, x), "each caller gets the reply carrying its own id or a timeout; late / duplicate replies are discarded without blocking message processing; nothing is left in the pending tables; a fresh request still works",
				Located{sc, x.res.Choices, x.log}, detail+" | schedule: "+strings.Join(x.log, " ; "))
		}
		return x.res
	}
	ex.Check = func(vsched.Result) {}
	ex.Explore(nil)
	r.Count("executions/"+sc.Name, int64(ex.Executions))
	r.Extra[fmt.Sprintf("maxlen/%s/shard%d", sc.Name, shard)] = maxSteps
	if ex.Capped {
		r.Exhaustive = false
		r.Count("capped/"+sc.Name, 1)
	}
	if shard == 0 {
		r.Sample(map[string]interface{}{"scenario": sc, "default_schedule": first.log})
	}
	var keys []string
	for k := range outcomes {
		keys = append(keys, k)
	}
	r.Extra["outcomes/"+sc.Name+fmt.Sprintf("/shard%d", shard)] = keys
}

// determinism: the same schedule prefix must give the same points twice.
func determinism(r *rep.Run, sc Scenario) {
	a := runOne(sc, nil)
	b := runOne(sc, nil)
	ja, _ := json.Marshal(a.res.Points)
	jb, _ := json.Marshal(b.res.Points)
	if string(ja) != string(jb) {
		r.Broken = fmt.Sprintf("scenario %s is not deterministic under the scheduler:\n%s\n%s", sc.Name, ja, jb)
	}
	// and a replay of a deviating prefix
	if len(a.res.Points) > 2 {
		for i, p := range a.res.Points {
			if len(p.Enabled) > 1 {
				pre := append(append([]int{}, a.res.Choices[:i]...), 1)
				c := runOne(sc, pre)
				e := runOne(sc, pre)
				jc, _ := json.Marshal(c.res.Points)
				je, _ := json.Marshal(e.res.Points)
				if string(jc) != string(je) {
					r.Broken = fmt.Sprintf("scenario %s: replaying prefix %v twice differs:\n%s\n%s", sc.Name, pre, jc, je)
				}
				break
			}
		}
	}
}

// ---- request-kind sweep ---------------------------------------------------------------

const clauseText = "each caller gets the reply carrying its own id or a timeout; late / duplicate replies are discarded without blocking message processing; nothing is left in the pending tables; a fresh request still works"

type kindSession struct {
	getty.Session
	mu   sync.Mutex
	last []message.RpcMessage
}

func (s *kindSession) IsClosed() bool                         { return false }
func (s *kindSession) Close()                                 {}
func (s *kindSession) RemoteAddr() string                     { return "10.0.0.1:8091" }
func (s *kindSession) LocalAddr() string                      { return "127.0.0.1:40001" }
func (s *kindSession) Stat() string                           { return "c14-kind-session" }
func (s *kindSession) SetAttribute(k, v interface{})          {}
func (s *kindSession) GetAttribute(k interface{}) interface{} { return nil }
func (s *kindSession) RemoveAttribute(k interface{})          {}
func (s *kindSession) WritePkg(pkg interface{}, _ time.Duration) (int, int, error) {
	if m, ok := pkg.(message.RpcMessage); ok {
		s.mu.Lock()
		s.last = append(s.last, m)
		s.mu.Unlock()
	}
	return 1, 1, nil
}

// kindSweep: one synchronous caller for every kind of request the client sends and awaits; the reply of the matching kind,
// carrying the request's id, must reach that caller (correlation is by id, whatever the kind), and nothing may be left
// pending. No scheduling choices are involved: the reply is delivered once the request is on the wire.
func kindSweep(r *rep.Run) {
	end := message.AbstractGlobalEndRequest{Xid: "10.0.0.1:8091:77"}
	ok := message.AbstractResultMessage{ResultCode: message.ResultCodeSuccess}
	tr := message.AbstractTransactionResponse{AbstractResultMessage: ok}
	ge := message.AbstractGlobalEndResponse{AbstractTransactionResponse: tr, GlobalStatus: message.GlobalStatusCommitted}
	kinds := []struct {
		name     string
		req, rsp interface{}
	}{
		{"global-begin", message.GlobalBeginRequest{TransactionName: "k", Timeout: time.Second}, message.GlobalBeginResponse{AbstractTransactionResponse: tr, Xid: "10.0.0.1:8091:78"}},
		{"global-commit", message.GlobalCommitRequest{AbstractGlobalEndRequest: end}, message.GlobalCommitResponse{AbstractGlobalEndResponse: ge}},
		{"global-rollback", message.GlobalRollbackRequest{AbstractGlobalEndRequest: end}, message.GlobalRollbackResponse{AbstractGlobalEndResponse: ge}},
		{"global-status", message.GlobalStatusRequest{AbstractGlobalEndRequest: end}, message.GlobalStatusResponse{AbstractGlobalEndResponse: ge}},
		{"global-report", message.GlobalReportRequest{AbstractGlobalEndRequest: end, GlobalStatus: message.GlobalStatusCommitted}, message.GlobalReportResponse{AbstractGlobalEndResponse: ge}},
		{"branch-register", message.BranchRegisterRequest{Xid: end.Xid, ResourceId: "res", LockKey: "t:1"}, message.BranchRegisterResponse{AbstractTransactionResponse: tr, BranchId: 9}},
		{"branch-report", message.BranchReportRequest{Xid: end.Xid, BranchId: 9, ResourceId: "res"}, message.BranchReportResponse{AbstractTransactionResponse: tr}},
		{"lock-query", message.GlobalLockQueryRequest{BranchRegisterRequest: message.BranchRegisterRequest{Xid: end.Xid, ResourceId: "res", LockKey: "t:1"}}, message.GlobalLockQueryResponse{AbstractTransactionResponse: tr, Lockable: true}},
	}
	for _, k := range kinds {
		sgetty.VerifResetRemoting()
		vtime.SetVirtual(func(d time.Duration) bool { return false })
		ks := &kindSession{}
		sgetty.VerifRegisterSession(ks)
		type ret struct {
			resp interface{}
			err  error
		}
		done := make(chan ret, 1)
		go func() {
			resp, err := sgetty.GetGettyRemotingClient().SendSyncRequest(k.req)
			done <- ret{resp, err}
		}()
		quiet.Spin(func() bool { ks.mu.Lock(); defer ks.mu.Unlock(); return len(ks.last) > 0 }, 3)
		ks.mu.Lock()
		var id int32 = -1
		if len(ks.last) > 0 {
			id = ks.last[0].ID
		}
		ks.mu.Unlock()
		r.Eval(true)
		r.Count("kind_sweep_cases", 1)
		loc := map[string]interface{}{"kind": k.name}
		if id < 0 {
			r.Violate("kind-sweep/request-not-written/"+k.name, clauseText, loc, "the request never reached the session")
			vtime.FirePending(0)
			continue
		}
		sgetty.GetGettyClientHandlerInstance().OnMessage(ks, message.RpcMessage{ID: id, Type: message.GettyRequestTypeResponse, Codec: byte(codec.CodecTypeSeata), Body: k.rsp})
		quiet.Settle(func() bool { return len(done) > 0 }, 20) // (twenty consecutive quiet observations before the caller counts as still waiting)
		select {
		case got := <-done:
			if got.err != nil || fmt.Sprintf("%T", got.resp) != fmt.Sprintf("%T", k.rsp) {
				r.Violate("kind-sweep/wrong-reply/"+k.name, clauseText, loc, fmt.Sprintf("the caller got (%T, %v), its reply %T was delivered under its id %d", got.resp, got.err, k.rsp, id))
			}
		default:
			r.Violate("kind-sweep/reply-lost/"+k.name, clauseText, loc, fmt.Sprintf("the %T carrying the request's id %d was delivered and fully processed, yet the caller is still waiting", k.rsp, id))
			vtime.FirePending(0) // let the caller time out
			quiet.Spin(func() bool { return len(done) > 0 }, 3)
		}
		if n := sgetty.VerifPendingFutures(); n != 0 {
			r.Violate("kind-sweep/bookkeeping-left/"+k.name, clauseText, loc, fmt.Sprintf("%d pending future(s) remain", n))
		}
		vtime.SetPassThrough()
	}
}

// onewaySweep: requests the client sends without waiting (SendAsyncRequest: the TM / RM announcements) register a pending
// future too. Answered or not, nothing may stay behind once the reply has been processed or the request timeout has passed.
func onewaySweep(r *rep.Run) {
	for _, answered := range []bool{true, false} {
		sgetty.VerifResetRemoting()
		vtime.SetVirtual(func(d time.Duration) bool { return false })
		ks := &kindSession{}
		sgetty.VerifRegisterSession(ks)
		err := sgetty.GetGettyRemotingClient().SendAsyncRequest(message.RegisterTMRequest{AbstractIdentifyRequest: message.AbstractIdentifyRequest{ApplicationId: "app", TransactionServiceGroup: "g"}})
		quiet.Spin(func() bool { ks.mu.Lock(); defer ks.mu.Unlock(); return len(ks.last) > 0 }, 3)
		ks.mu.Lock()
		var id int32 = -1
		if len(ks.last) > 0 {
			id = ks.last[0].ID
		}
		ks.mu.Unlock()
		r.Eval(true)
		r.Count("oneway_sweep_cases", 1)
		loc := map[string]interface{}{"kind": "register-tm (one-way)", "answered": answered}
		if err != nil || id < 0 {
			r.Violate("oneway/request-not-written", clauseText, loc, fmt.Sprintf("err=%v", err))
			vtime.SetPassThrough()
			continue
		}
		if answered {
			sgetty.GetGettyClientHandlerInstance().OnMessage(ks, message.RpcMessage{ID: id, Type: message.GettyRequestTypeResponse, Codec: byte(codec.CodecTypeSeata),
				Body: message.RegisterTMResponse{AbstractIdentifyResponse: message.AbstractIdentifyResponse{AbstractResultMessage: message.AbstractResultMessage{ResultCode: message.ResultCodeSuccess}, Identified: true}}})
		}
		quiet.Spin(nil, 3)
		vtime.FirePending(0) // the request timeout passes
		quiet.Spin(nil, 3)
		if n := sgetty.VerifPendingFutures(); n != 0 {
			r.Violate(fmt.Sprintf("oneway/bookkeeping-left/answered=%v", answered), clauseText, loc, fmt.Sprintf("%d pending future(s) remain after the reply was processed / the request timeout passed", n))
		}
		vtime.SetPassThrough()
	}
}

func Run(r *rep.Run) {
	thorough := r.Tier == "thorough"
	r.Rule = "every schedule with at most `bound` deviations (preemptions at the rewriter-inserted scheduling points before/after each channel and sync.Map operation of getty_remoting.go, getty_client.go, client_on_response_processor.go and inside the session's WritePkg; environment events landing before a runnable thread) of N concurrent SendSyncRequest callers on the real remoting client against a fake session; environment events: each reply (1-3 copies per request, or none), each caller's 20 s timer, a phase-two reply under a colliding message id, loss of one of two connections, a request whose write fails; all orders of environment events at quiescence are explored without bound. Non-trivial = the execution had at least one point with more than one enabled action."
	r.Assume = []string{"scheduling points are the rewriter-inserted ones plus environment seams; code between two points runs atomically with respect to other controlled threads", "time is virtual: a timer fires only when the scheduler chooses it"}
	sys.InitClient()
	quiet.Spin(nil, 5) // let the client's background goroutines reach their idle waits
	scs := scenarios(thorough)
	if replay := os.Getenv("VERIF_REPLAY"); replay != "" {
		b, err := os.ReadFile(replay)
		if err != nil {
			r.Broken = err.Error()
			return
		}
		var f struct {
			Case Located `json:"case"`
		}
		json.Unmarshal(b, &f)
		for i := 0; i < 3; i++ {
			x := runOne(f.Case.Scenario, f.Case.Choices)
			r.Eval(true)
			fmt.Printf("replay %d: outcomes=%+v futures=%d stuck=%v fresh=%+v\n  %s\n", i, x.outcomes, x.futures, x.stuck, x.fresh, strings.Join(x.log, "\n  "))
			if clause, detail := check(f.Case.Scenario, x); clause != "" {
				r.Violate(sigOf(f.Case.Scenario, clause, x), "replayed schedule", Located{f.Case.Scenario, x.res.Choices, x.log}, detail)
			}
		}
		return
	}
	shard, nshards, worker := rep.Shard()
	if !worker {
		kindSweep(r)
		onewaySweep(r)
		rep.RunSharded(r, 16, 60*time.Minute)
		// distinct observed outcomes per scenario (union over the workers)
		union := map[string]map[string]bool{}
		for k, v := range r.Extra {
			if !strings.HasPrefix(k, "outcomes/") {
				continue
			}
			name := strings.Split(k, "/")[1]
			if union[name] == nil {
				union[name] = map[string]bool{}
			}
			if l, ok := v.([]interface{}); ok {
				for _, o := range l {
					union[name][fmt.Sprint(o)] = true
				}
			}
			delete(r.Extra, k)
		}
		for name, m := range union {
			r.Count("distinct_outcomes/"+name, int64(len(m)))
		}
		maxlen := map[string]int64{}
		for k, v := range r.Extra {
			if !strings.HasPrefix(k, "maxlen/") {
				continue
			}
			name := strings.Split(k, "/")[1]
			if f, ok := v.(float64); ok && int64(f) > maxlen[name] {
				maxlen[name] = int64(f)
			}
			delete(r.Extra, k)
		}
		for name, n := range maxlen {
			r.Count("max_schedule_length/"+name, n)
		}
		return
	}
	deadline = time.Now().Add(5 * time.Minute)
	if thorough {
		deadline = time.Now().Add(20 * time.Minute)
	}
	runtime.GOMAXPROCS(1) // one processor: quiescence polling is cheapest and nothing runs in parallel with the released thread
	for i, sc := range scs {
		if i%nshards == shard {
			determinism(r, sc)
			if r.Broken != "" {
				return
			}
		}
		explore(r, sc, shard, nshards)
	}
}
