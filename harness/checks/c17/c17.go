// Package c17: XA branches follow the XA protocol; phase two addresses the prepared branch (Mode S + F).
package c17

import (
	"context"
	"database/sql"
	"database/sql/driver"
	"encoding/json"
	"fmt"
	"os"
	"regexp"
	"strings"
	"time"

	"github.com/go-sql-driver/mysql"

	ssql "seata.apache.org/seata-go/pkg/datasource/sql"
	"seata.apache.org/seata-go/pkg/datasource/sql/datasource"
	"seata.apache.org/seata-go/pkg/protocol/branch"
	"seata.apache.org/seata-go/pkg/protocol/message"
	"seata.apache.org/seata-go/pkg/tm"
	"seata.apache.org/seata-go/pkg/util/vshim/vtime"

	"verifharness/atrun"
	"verifharness/faketc"
	"verifharness/gen"
	"verifharness/memdb"
	"verifharness/rep"
	"verifharness/sys"
)

type Case struct {
	Stmts   []string `json:"stmts"`   // statement names
	Shape   string   `json:"shape"`   // auto | tx
	Dev     string   `json:"dev"`     // none | db-error | db-badconn | register-fail | register-transport | register-drop
	Step    int      `json:"step"`    // db-*: operation index within the business callback
	Phase2  string   `json:"phase2"`  // commit | rollback
	Holder  string   `json:"holder"`  // same | fresh (the process never saw phase one: connection keeper emptied)
	Version string   `json:"version"` // 8.0.28 | 8.0.29
}

type Located struct {
	Idx  int    `json:"idx"`
	Tier string `json:"tier"`
	Case Case   `json:"case"`
}

var stmts = map[string]gen.Stmt{
	"ins": {Name: "ins", Kind: "insert", SQL: "INSERT INTO t_s1 (id, name, cnt) VALUES (?, ?, ?)", Args: []interface{}{int64(5), "e", 50}},
	"upd": {Name: "upd", Kind: "update", SQL: "UPDATE t_s1 SET cnt = cnt + 1 WHERE id = ?", Args: []interface{}{int64(1)}},
	"del": {Name: "del", Kind: "delete", SQL: "DELETE FROM t_s1 WHERE id = 2"},
	"bad": {Name: "bad", Kind: "insert", SQL: "INSERT INTO t_s1 (id, name, cnt) VALUES (1, 'dup', 0)"},
	// a statement that goes through the driver's query path (a locking read is transactional work like any DML)
	"sel": {Name: "sel", Kind: "query", SQL: "SELECT cnt FROM t_s1 WHERE id = ? FOR UPDATE", Args: []interface{}{int64(1)}},
}

func Enumerate(thorough bool, yield func(idx int, c Case)) int {
	idx := 0
	programs := [][]string{{"ins"}, {"upd"}, {"del"}, {"bad"}, {"upd", "ins"}, {"ins", "bad"}, {"sel"}, {"sel", "upd"}}
	for _, ver := range []string{"8.0.28", "8.0.29"} {
		for _, p := range programs {
			for _, shape := range []string{"auto", "tx"} {
				if shape == "auto" && len(p) > 1 && !thorough {
					continue
				}
				for _, p2 := range []string{"commit", "rollback"} {
					for _, holder := range []string{"same", "fresh", "noidle"} {
						yield(idx, Case{p, shape, "none", 0, p2, holder, ver})
						idx++
					}
				}
				for _, dev := range []string{"register-fail", "register-transport", "register-drop"} {
					yield(idx, Case{p, shape, dev, 0, "rollback", "same", ver})
					idx++
				}
				// the branch outlives the configured XA branch execution timeout
				if shape == "auto" { // (the explicit-transaction shape never ends its branch at all: known finding)
					yield(idx, Case{p, shape, "timeout", 0, "rollback", "same", ver})
					idx++
				}
				for k := 0; k < 12; k++ {
					for _, dev := range []string{"db-error", "db-badconn"} {
						if dev == "db-badconn" && !thorough && k%2 == 1 {
							continue
						}
						yield(idx, Case{p, shape, dev, k, "rollback", "same", ver})
						idx++
					}
				}
			}
		}
	}
	// two global transactions one after the other on the same pooled connection (fault-free)
	for _, ver := range []string{"8.0.28", "8.0.29"} {
		for _, p := range [][]string{{"upd"}, {"ins"}} {
			for _, p2 := range []string{"commit", "rollback"} {
				yield(idx, Case{p, "auto2", "none", 0, p2, "same", ver})
				idx++
			}
			// ... and after a first transaction whose XA START (its first database operation) was refused
			for k := 0; k < 1; k++ {
				yield(idx, Case{p, "auto2", "db-error", k, "rollback", "same", ver})
				idx++
				// "auto2e": the second transaction starts before the coordinator's rollback of the first has been delivered
				yield(idx, Case{p, "auto2e", "db-error", k, "rollback", "same", ver})
				idx++
			}
		}
	}
	return idx
}

type runResult struct {
	xid2      string
	journal2  []memdb.Entry // database operations of the second transaction (auto2)
	secondErr string
	xid       string
	stepErrs  []string
	commitErr string
	bizErr    string
	gtxErr    string
	journal   []memdb.Entry
	events    []faketc.Event
	phase2    []int
	dbOps     int
	hit       bool
	post      memdb.Snapshot
	pre       memdb.Snapshot
	errs      []string
	hung      bool
}

func run(e *sys.Env, c Case) *runResult {
	rr := &runResult{}
	e.Srv.Fault = nil
	e.Srv.Restore(memdb.Snapshot{})
	e.TC.ResetState()
	e.Bare.Exec(gen.S1.InsertSQL([]int{0, 1, 2}))
	e.Srv.ClearJournal()
	rr.pre = e.Srv.Snapshot()
	drops := 0
	vtime.SetVirtual(func(d time.Duration) bool {
		if d >= 20*time.Second {
			if drops > 0 {
				drops--
				return true
			}
			return false
		}
		return true
	})
	defer vtime.SetPassThrough()
	ops, inBiz := 0, false
	e.Srv.Fault = func(op memdb.Op) error {
		if !inBiz || op.Kind == "connect" {
			return nil
		}
		k := ops
		ops++
		if strings.HasPrefix(c.Dev, "db-") && k == c.Step {
			rr.hit = true
			if c.Dev == "db-badconn" {
				return driver.ErrBadConn
			}
			return &mysql.MySQLError{Number: 1205, Message: "Lock wait timeout exceeded (injected)"}
		}
		return nil
	}
	e.TC.Script = func(tc *faketc.TC, req message.RpcMessage) faketc.Answer {
		if _, ok := req.Body.(message.BranchRegisterRequest); ok && strings.HasPrefix(c.Dev, "register-") {
			rr.hit = true
			k := strings.TrimPrefix(c.Dev, "register-")
			if k == "drop" {
				drops++
			}
			return faketc.Answer{Kind: k, Msg: "injected"}
		}
		return faketc.Answer{}
	}
	if c.Dev == "timeout" {
		old := ssql.VerifSetXABranchTimeout(time.Nanosecond)
		defer ssql.VerifSetXABranchTimeout(old)
		rr.hit = true
	}
	if c.Holder == "noidle" {
		e.XA.SetMaxIdleConns(0) // database/sql closes the connection as soon as the statement / transaction is over
	}
	sys.TakeErrors()
	hungBefore := faketc.Hung
	inBiz = true
	func() {
		defer func() {
			if r := recover(); r != nil {
				rr.gtxErr = fmt.Sprintf("panic escaped: %v", r)
			}
		}()
		err := tm.WithGlobalTx(context.Background(), &tm.GtxConfig{Name: "c17"}, func(ctx context.Context) error {
			rr.xid = tm.GetXID(ctx)
			var tx *sql.Tx
			var ex interface {
				ExecContext(ctx context.Context, q string, args ...interface{}) (sql.Result, error)
				QueryContext(ctx context.Context, q string, args ...interface{}) (*sql.Rows, error)
			} = e.XA
			if c.Shape == "tx" { // (auto and auto2 use autocommit statements)
				t, err := e.XA.BeginTx(ctx, nil)
				if err != nil {
					rr.bizErr = "begin: " + err.Error()
					return err
				}
				tx, ex = t, t
			}
			for _, n := range c.Stmts {
				st := stmts[n]
				var err error
				queryPanicked := false
				func() {
					defer func() {
						if r := recover(); r != nil {
							err = fmt.Errorf("panic: %v", r)
							queryPanicked = st.Kind == "query"
						}
					}()
					if st.Kind == "query" {
						var rows *sql.Rows
						if rows, err = ex.QueryContext(ctx, st.SQL, st.Args...); err == nil {
							defer rows.Close()
							for rows.Next() {
							}
							err = rows.Err()
						}
						return
					}
					_, err = ex.ExecContext(ctx, st.SQL, st.Args...)
				}()
				if err != nil {
					rr.stepErrs = append(rr.stepErrs, err.Error())
					rr.bizErr = err.Error()
					// (a panic that escapes the driver's query path leaves database/sql's transaction read-locked for good:
					// calling Rollback on it would block forever, so the program just gives up)
					if tx != nil && !queryPanicked {
						tx.Rollback()
					}
					return err
				}
				rr.stepErrs = append(rr.stepErrs, "")
			}
			if tx != nil {
				if err := tx.Commit(); err != nil {
					rr.commitErr = err.Error()
					rr.bizErr = err.Error()
					return err
				}
			}
			if c.Phase2 == "rollback" {
				return fmt.Errorf("business decides to roll back")
			}
			return nil
		})
		if err != nil && rr.gtxErr == "" {
			rr.gtxErr = err.Error()
		}
	}()
	inBiz = false
	rr.dbOps = ops
	e.Srv.Fault = nil
	e.TC.Script = nil
	if c.Holder == "fresh" {
		if v, ok := datasource.GetDataSourceManager(branch.BranchTypeXA).GetCachedResources().Load(e.ResourceID); ok {
			if res, ok := v.(*ssql.DBResource); ok {
				keeper := ssql.VerifKeeper(res)
				keeper.Range(func(k, _ interface{}) bool { keeper.Delete(k); return true })
			}
		}
	}
	if rr.xid != "" && c.Shape != "auto2e" {
		if c.Phase2 == "commit" && rr.bizErr == "" {
			rr.phase2 = e.TC.DriveCommit(rr.xid)
		} else {
			rr.phase2 = e.TC.DriveRollback(rr.xid)
		}
	}
	rr.hung = faketc.Hung > hungBefore
	rr.errs = sys.TakeErrors()
	rr.journal = e.Srv.Journal()
	rr.events = e.TC.Events()
	rr.post = e.Srv.Snapshot()
	if (c.Shape == "auto2" || c.Shape == "auto2e") && !rr.hung {
		// a second global transaction on the same handle: the pool hands the same connection out again
		func() {
			defer func() {
				if r := recover(); r != nil {
					rr.secondErr = fmt.Sprintf("panic escaped: %v", r)
				}
			}()
			var xid2 string
			mark := len(e.Srv.Journal())
			defer func() {
				if j := e.Srv.Journal(); len(j) >= mark {
					rr.journal2 = j[mark:]
				}
				rr.xid2 = xid2
			}()
			err := tm.WithGlobalTx(context.Background(), &tm.GtxConfig{Name: "c17-second"}, func(ctx context.Context) error {
				xid2 = tm.GetXID(ctx)
				_, err := e.XA.ExecContext(ctx, "DELETE FROM t_s1 WHERE id = 3")
				return err
			})
			if err != nil {
				rr.secondErr = err.Error()
			} else if xid2 != "" {
				e.TC.DriveCommit(xid2)
			}
			if c.Shape == "auto2e" && rr.xid != "" {
				if j := e.Srv.Journal(); len(j) >= mark {
					rr.journal2 = append([]memdb.Entry{}, j[mark:]...) // (the late rollback of the first transaction is not the second's traffic)
				}
				mark = 1 << 30
				rr.phase2 = e.TC.DriveRollback(rr.xid)
			}
		}()
	}
	return rr
}

var reXA = regexp.MustCompile(`(?i)^\s*XA\s+(START|END|PREPARE|COMMIT|ROLLBACK)\s+'([^']*)'`)

// check applies the oracles.
func check(e *sys.Env, c Case, rr *runResult) (clause, detail string) {
	d := func(f string, a ...interface{}) string { return fmt.Sprintf(f, a...) }
	if rr.hung {
		return "phase-two-hangs", "a phase-two handler never returned"
	}
	if (c.Shape == "auto2" || c.Shape == "auto2e") && rr.xid2 != "" {
		// whatever happened to the first transaction, the second one's XA commands run under an identifier of its own xid
		for _, j := range rr.journal2 {
			if m := reXA.FindStringSubmatch(j.SQL); m != nil && !strings.HasPrefix(m[2], rr.xid2+"-") {
				return "second-transaction-foreign-identifier", d("the second global transaction %s issued %q: the identifier belongs to another transaction (the first was %s)", rr.xid2, j.SQL, rr.xid)
			}
		}
	}
	if (c.Shape == "auto2" || c.Shape == "auto2e") && rr.secondErr != "" {
		return "second-transaction-on-connection-fails", d("the first global transaction finished (phase two %v); a second one on the same handle failed: %s", rr.phase2, rr.secondErr)
	}
	// 0. every business statement of the program that reached the database ran on a connection inside an ACTIVE branch
	// (between its XA START and XA END): work done outside a branch is invisible to phase two
	{
		active := map[int]string{}
		mine := map[string]bool{}
		for _, n := range c.Stmts {
			mine[stmts[n].SQL] = true
		}
		for _, j := range rr.journal {
			if m := reXA.FindStringSubmatch(j.SQL); m != nil {
				if j.Err == "" {
					switch strings.ToUpper(m[1]) {
					case "START":
						active[j.Conn] = m[2]
					case "END", "ROLLBACK", "COMMIT", "PREPARE":
						delete(active, j.Conn)
					}
				}
				continue
			}
			if (j.Kind == "exec" || j.Kind == "query") && mine[j.SQL] && active[j.Conn] == "" {
				return "statement-outside-branch", d("%q ran on connection %d, which is in no active XA branch at that point", j.SQL, j.Conn)
			}
		}
	}
	// 1. the XA state machine of the database never had to reject a command the fault plan did not cause
	for _, j := range rr.journal {
		if j.Err != "" && !j.Injected && strings.Contains(j.Err, "XAER") {
			// a phase-two command for a branch that was never prepared because of the injected fault is a legitimate NOTA
			if rr.hit && (strings.Contains(j.Err, "XAER_NOTA")) {
				continue
			}
			// before 8.0.29 a prepared branch is invisible to other connections while its own connection lives: a process that
			// never saw phase one legitimately gets XAER_NOTA (it must then not claim success - checked below)
			if c.Holder == "fresh" && c.Version == "8.0.28" && strings.Contains(j.Err, "XAER_NOTA") {
				continue
			}
			// the client's attempt to roll back after an injected failure may itself be refused (XA ROLLBACK of an ACTIVE branch)
			if m := reXA.FindStringSubmatch(j.SQL); m != nil && rr.hit && strings.ToUpper(m[1]) == "ROLLBACK" {
				continue
			}
			if m := reXA.FindStringSubmatch(j.SQL); m != nil && strings.ToUpper(m[1]) == "ROLLBACK" && strings.Contains(j.Err, "XAER_NOTA") {
				for _, k := range rr.journal {
					if k.G < j.G && k.Err == "" && k.SQL == j.SQL {
						return "double-rollback", d("%q was issued again after it had succeeded (phase one rolled the branch back itself): %s; phase two answered %v", j.SQL, j.Err, rr.phase2)
					}
				}
			}
			return "illegal-xa-command", d("the database rejected %q: %s", j.SQL, j.Err)
		}
	}
	// 2. per branch identifier the command sequence is legal, and identifiers are those of registered branches
	var branchIDs []int64
	regReply := map[int64]int64{}
	for _, ev := range rr.events {
		if r, ok := ev.Msg.Body.(message.BranchRegisterResponse); ok && ev.Dir == "s2c" && r.ResultCode == message.ResultCodeSuccess {
			branchIDs = append(branchIDs, r.BranchId)
			regReply[r.BranchId] = ev.G
		}
	}
	seqs := map[string][]string{}
	firstG := map[string]int64{}
	var order []string
	for _, j := range rr.journal {
		m := reXA.FindStringSubmatch(j.SQL)
		if m == nil {
			// business statements inside an active branch belong to its sequence
			if j.Kind == "exec" && j.Txn != 0 {
				for _, id := range order {
					s := seqs[id]
					if len(s) > 0 && (s[len(s)-1] == "START" || s[len(s)-1] == "stmt") && !strings.Contains(strings.ToUpper(j.SQL), "UNDO_LOG") {
						if j.Err == "" || !j.Injected {
							// (attribute by transaction: the active branch on this connection)
						}
					}
				}
			}
			continue
		}
		if j.Err != "" {
			continue // a command that failed did not change the branch state
		}
		verb, id := strings.ToUpper(m[1]), m[2]
		if _, ok := seqs[id]; !ok {
			order = append(order, id)
			firstG[id] = j.G
		}
		seqs[id] = append(seqs[id], verb)
	}
	// 2a. once a command of a branch failed, only XA END / XA ROLLBACK may follow for that branch (never PREPARE or COMMIT)
	failedCmd := map[string]string{}
	for _, j := range rr.journal {
		m := reXA.FindStringSubmatch(j.SQL)
		if m == nil {
			continue
		}
		verb, id := strings.ToUpper(m[1]), m[2]
		if prev, ok := failedCmd[id]; ok && (verb == "PREPARE" || verb == "COMMIT") {
			return "continues-after-failure", d("XA %s for branch %s failed, yet XA %s was issued afterwards", prev, id, verb)
		}
		if j.Err != "" && (verb == "START" || verb == "END" || verb == "PREPARE") {
			failedCmd[id] = verb
		}
	}
	legal := regexp.MustCompile(`^START( END)?( PREPARE)?( COMMIT| ROLLBACK)?$`)
	for _, id := range order {
		s := strings.Join(seqs[id], " ")
		if !legal.MatchString(s) {
			return "illegal-sequence", d("branch %s saw the commands [%s]", id, s)
		}
		if strings.Contains(s, "COMMIT") && !strings.Contains(s, "PREPARE") {
			return "commit-without-prepare", d("branch %s: [%s]", id, s)
		}
		// identifier is a function of (xid, branch id) of a registered branch, and registration precedes XA START
		found := false
		for _, b := range branchIDs {
			if ssql.XaIdBuild(rr.xid, uint64(b)).String() == id {
				found = true
				if regReply[b] > firstG[id] {
					return "start-before-registration", d("XA START '%s' (event %d) precedes the registration reply (event %d)", id, firstG[id], regReply[b])
				}
			}
		}
		if !found {
			return "foreign-identifier", d("commands were issued for '%s', which is not the identifier of any branch registered for %s (branches %v)", id, rr.xid, branchIDs)
		}
	}
	// every registered branch whose phase one succeeded reaches exactly one of COMMIT / ROLLBACK in phase two, under its own identifier
	failedPhaseOne := rr.bizErr != ""
	for _, b := range branchIDs {
		id := ssql.XaIdBuild(rr.xid, uint64(b)).String()
		s := strings.Join(seqs[id], " ")
		if !failedPhaseOne && !rr.hit {
			want := "START END PREPARE COMMIT"
			if c.Phase2 == "rollback" {
				want = "START END PREPARE ROLLBACK"
			}
			if s != want {
				// a process that never saw phase one cannot finish a branch another connection still holds before 8.0.29:
				// then it must at least not claim success
				if c.Holder == "fresh" && c.Version == "8.0.28" {
					for _, st := range rr.phase2 {
						if st == int(branch.BranchStatusPhasetwoCommitted) || st == int(branch.BranchStatusPhasetwoRollbacked) {
							return "fresh-claims-success", d("branch %s: [%s] but phase two answered %v", id, s, rr.phase2)
						}
					}
					continue
				}
				return "incomplete-branch", d("branch %s saw [%s], expected [%s]; phase two answered %v", id, s, want, rr.phase2)
			}
		}
		if failedPhaseOne && strings.Contains(s, "COMMIT") {
			return "commit-after-failure", d("phase one failed (%s) but branch %s saw [%s]", rr.bizErr, id, s)
		}
	}
	// 3. a failure before a successful PREPARE reaches the caller
	if rr.hit && c.Dev == "db-error" && c.Step < rr.dbOps && rr.bizErr == "" && rr.commitErr == "" {
		prepared := false
		for _, id := range order {
			if strings.Contains(strings.Join(seqs[id], " "), "PREPARE") {
				prepared = true
			}
		}
		if !prepared {
			return "failure-swallowed", d("operation #%d failed before any PREPARE succeeded but the caller saw no error", c.Step)
		}
	}
	if strings.HasPrefix(c.Dev, "register-") && rr.hit && rr.bizErr == "" {
		return "failure-swallowed", "registration was refused but the caller saw no error"
	}
	// 4. committed data: commit => the statements' effects are there; rollback/failed => pre-state; nothing left prepared or open
	biz := func(s memdb.Snapshot) string { return atrun.BusinessTables(s).String() }
	if (c.Phase2 == "rollback" || failedPhaseOne) && biz(rr.post) != biz(rr.pre) {
		allRolledBack := true
		for _, st := range rr.phase2 {
			if st != int(branch.BranchStatusPhasetwoRollbacked) {
				allRolledBack = false
			}
		}
		if allRolledBack {
			return "not-rolled-back", d("global rollback finished (%v) but the data is %s, expected %s", rr.phase2, biz(rr.post), biz(rr.pre))
		}
	}
	// 5. no live connection is left inside an unfinished (ACTIVE / IDLE) branch: it would poison the pool and hold its locks
	rollbackHit := false // the injected fault hit an XA ROLLBACK: then nothing the client does on that connection can finish the branch
	for _, j := range rr.journal {
		if m := reXA.FindStringSubmatch(j.SQL); m != nil && j.Injected && strings.ToUpper(m[1]) == "ROLLBACK" {
			rollbackHit = true
		}
	}
	for _, cs := range e.Srv.ConnStates() {
		if rollbackHit {
			break
		}
		if !cs.Closed && (cs.XAState == 1 || cs.XAState == 2) {
			return "branch-left-open", d("connection %d is still inside an XA branch in state %d (1 active, 2 idle) after phase two (%v)", cs.ID, cs.XAState, rr.phase2)
		}
	}
	if !(c.Holder == "fresh" && c.Version == "8.0.28") {
		if n := len(e.Srv.PreparedXA()); n > 0 && !rr.hit {
			return "prepared-left", d("%d prepared branch(es) remain after phase two: %v", n, e.Srv.PreparedXA())
		}
	}
	return "", ""
}

// envFor builds a fresh closed system per case: an XA branch left active poisons its pooled connection for later use.
func envFor(version string) *sys.Env {
	e, err := sys.NewEnv([]string{gen.S1.DDL}, sys.Options{NoAT: true, Version: version})
	if err != nil {
		panic(err)
	}
	return e
}

func evalCase(r *rep.Run, c Case, idx int) {
	e := envFor(c.Version)
	rr := run(e, c)
	defer func() {
		if !rr.hung {
			e.Close()
		}
	}()
	r.Eval(c.Dev == "none" || rr.hit)
	if idx%41 == 0 {
		r.Sample(map[string]interface{}{"case": c, "business_error": rr.bizErr, "phase2": rr.phase2, "db_ops": rr.dbOps})
	}
	clause, detail := check(e, c, rr)
	if os.Getenv("VERIF_TRACE") != "" {
		fmt.Printf("==== %d %+v clause=%s %s\n", idx, c, clause, detail)
		for _, j := range rr.journal {
			fmt.Printf("  db %d c%d t%d %s %q err=%q inj=%v\n", j.G, j.Conn, j.Txn, j.Kind, j.SQL, j.Err, j.Injected)
		}
		for _, ev := range rr.events {
			fmt.Printf("  tc %d %s %T\n", ev.G, ev.Dir, ev.Msg.Body)
		}
		for _, j := range rr.journal2 {
			fmt.Printf("  db2 %d c%d t%d %s %q err=%q\n", j.G, j.Conn, j.Txn, j.Kind, j.SQL, j.Err)
		}
		if c.Shape == "auto2" {
			fmt.Printf("  second: xid=%s err=%q\n", rr.xid2, rr.secondErr)
		}
		fmt.Printf("  bizErr=%q commitErr=%q gtxErr=%q phase2=%v errors=%v\n", rr.bizErr, rr.commitErr, rr.gtxErr, rr.phase2, rr.errs)
	}
	if clause == "" {
		return
	}
	dev := c.Dev
	if strings.HasPrefix(dev, "db-") {
		dev += "@" + stepName(rr, c.Step)
	}
	sig := fmt.Sprintf("%s/%s/%s/%s/%s/%s/%s", clause, strings.Join(c.Stmts, "+"), c.Shape, dev, c.Phase2, c.Holder, c.Version)
	r.Violate(sig, "legal XA command sequence under one identifier that is a function of xid and branch id; registration before XA START; a failure before PREPARE rolls the branch back, reaches the caller and is never followed by a commit",
		Located{idx, r.Tier, c}, fmt.Sprintf("%s | bizErr=%q commitErr=%q phase2=%v client errors: %s", detail, rr.bizErr, rr.commitErr, rr.phase2, strings.Join(rr.errs, " || ")))
}

func stepName(rr *runResult, k int) string {
	n := 0
	for _, j := range rr.journal {
		if j.Kind == "connect" || j.Kind == "close" || (j.Kind == "commit" && j.SQL == "(autocommit)") {
			continue
		}
		if n == k {
			if m := reXA.FindStringSubmatch(j.SQL); m != nil {
				return "xa-" + strings.ToLower(m[1])
			}
			if j.Kind == "exec" || j.Kind == "query" {
				return j.Kind + "-business"
			}
			return j.Kind
		}
		n++
	}
	return fmt.Sprintf("op%d", k)
}

// staleKeeper: phase two must address the branch the coordinator names, not whatever branch the connection it finds is
// working on. T1 registers a branch whose XA START fails (the connection stays in the keeper under T1's identifier and goes
// back to the pool); T2 then runs phase one on the same pooled connection; the coordinator's rollback of T1's branch arrives
// before T2's phase two.
func staleKeeper(r *rep.Run, version string) {
	r.Eval(true)
	e := envFor(version)
	defer e.Close()
	e.Bare.Exec(gen.S1.InsertSQL([]int{0, 1, 2}))
	e.Srv.ClearJournal()
	vtime.SetVirtual(func(d time.Duration) bool { return d < 20*time.Second })
	defer vtime.SetPassThrough()
	sys.TakeErrors()
	loc := map[string]string{"scenario": "stale-keeper", "version": version}
	fail := func(clause, detail string) {
		r.Violate("stale-keeper/"+clause+"/"+version, "phase two uses the identifier of the branch the coordinator names", loc, detail+" | client errors: "+strings.Join(sys.TakeErrors(), " || "))
	}
	// T1: explicit local transaction whose XA START fails
	armed := true
	e.Srv.Fault = func(op memdb.Op) error {
		if armed && strings.HasPrefix(strings.ToUpper(strings.TrimSpace(op.SQL)), "XA START") {
			armed = false
			return &mysql.MySQLError{Number: 1205, Message: "Lock wait timeout exceeded (injected)"}
		}
		return nil
	}
	var xid1 string
	tm.WithGlobalTx(context.Background(), &tm.GtxConfig{Name: "c17-t1"}, func(ctx context.Context) error {
		xid1 = tm.GetXID(ctx)
		tx, err := e.XA.BeginTx(ctx, nil)
		if err == nil {
			tx.Rollback()
			return fmt.Errorf("unexpected: BeginTx succeeded")
		}
		return err
	})
	e.Srv.Fault = nil
	g1 := e.TC.Global(xid1)
	if armed || g1 == nil || len(g1.Branches) == 0 {
		r.Count("stale_keeper_not_applicable", 1)
		return // the fault did not fire or the branch was never registered: nothing to test
	}
	id1 := ssql.XaIdBuild(xid1, uint64(g1.Branches[0].ID)).String()
	// T2: phase one on the same handle (its branch stays prepared: the coordinator has not driven phase two yet)
	var xid2 string
	err2 := tm.WithGlobalTx(context.Background(), &tm.GtxConfig{Name: "c17-t2"}, func(ctx context.Context) error {
		xid2 = tm.GetXID(ctx)
		_, err := e.XA.ExecContext(ctx, "UPDATE t_s1 SET cnt = cnt + 1 WHERE id = ?", int64(1))
		return err
	})
	g2 := e.TC.Global(xid2)
	if err2 != nil || g2 == nil || len(g2.Branches) == 0 {
		r.Count("stale_keeper_not_applicable", 1)
		return
	}
	id2 := ssql.XaIdBuild(xid2, uint64(g2.Branches[0].ID)).String()
	mark := e.Srv.JournalLen()
	e.TC.BranchRollback(xid1, g1.Branches[0])
	for _, j := range e.Srv.Journal()[mark:] {
		if m := reXA.FindStringSubmatch(j.SQL); m != nil && m[2] != id1 {
			fail("other-branch-addressed", fmt.Sprintf("the coordinator asked to roll back %s; the client sent %q (T2's branch is %s)", id1, j.SQL, id2))
			return
		}
	}
	st := e.TC.DriveCommit(xid2)
	if len(st) != 1 || st[0] != int(branch.BranchStatusPhasetwoCommitted) {
		// T2's own phase two after a foreign rollback request: on the unmodified tree the connection is shared between the two
		// keeper entries; whether T2 can still commit is the known XA life-cycle finding, not this clause
		r.Count("stale_keeper_t2_commit_not_committed", 1)
	}
}

// identifiers: the mapping (xid, branch id) -> XA identifier is injective on the catalogue and stable.
func checkIdentifiers(r *rep.Run) {
	xids := []string{"", "a", "192.168.0.1:8091:2001", "192.168.0.1:8091:20011", "x-1", "x", "x-", "世界:1", strings.Repeat("k", 200), "a:b:c-7-7"}
	brs := []uint64{0, 1, 7, 11, 1 << 63, 1<<64 - 1, 2001, 1<<32 - 1, 1 << 32, 2612341069705662465}
	seen := map[string]string{}
	for _, x := range xids {
		for _, b := range brs {
			id1 := ssql.XaIdBuild(x, b).String()
			id2 := ssql.XaIdBuild(x, b).String()
			r.Eval(true)
			key := fmt.Sprintf("(%q,%d)", x, b)
			if id1 != id2 {
				r.Violate("identifier/unstable", "phase one and phase two build the same identifier", key, id1+" vs "+id2)
			}
			if prev, ok := seen[id1]; ok && prev != key {
				r.Violate("identifier/collision", "the identifier is an injective function of (xid, branch id)", key, fmt.Sprintf("%s and %s both map to %q", prev, key, id1))
			}
			seen[id1] = key
			// the byte form (global transaction id, branch qualifier) leads back to the same identifier
			built := ssql.XaIdBuild(x, b)
			back := ssql.XaIdBuildWithByte(built.GetGlobalTransactionId(), built.GetBranchQualifier())
			if back.String() != id1 || back.GetBranchId() != b || back.GetGlobalXid() != x {
				r.Violate("identifier/byte-round-trip", "one branch identifier that is a function of the global xid and the branch id", key,
					fmt.Sprintf("%q -> bytes -> %q (xid %q, branch id %d)", id1, back.String(), back.GetGlobalXid(), back.GetBranchId()))
			}
		}
	}
}

func Run(r *rep.Run) {
	thorough := r.Tier == "thorough"
	r.Rule = "identifier: every pair of a 10-element xid catalogue x 7 branch ids (incl. 0, 2^63, 2^64-1): stable and injective. Protocol: programs of 1-2 statements (insert, update, delete, duplicate-key failure) through the XA proxy in a global transaction, in autocommit and in an explicit local transaction, x fault-free with phase two {commit, rollback} on {the holding process, a process whose connection keeper is empty} for server versions 8.0.28 and 8.0.29; x registration refused {failure, transport error, no reply}; x a database error / connection loss at each of the first 12 database operations of the business callback. Non-trivial = fault-free case, or the fault actually fired."
	r.Assume = []string{"memdb's XA state machine follows the MySQL legality rules; before 8.0.29 a prepared branch can only be finished by its own connection or after that connection is gone", "time is virtual"}
	if replay := os.Getenv("VERIF_REPLAY"); replay != "" {
		b, err := os.ReadFile(replay)
		if err != nil {
			r.Broken = err.Error()
			return
		}
		var f struct {
			Case Located `json:"case"`
		}
		json.Unmarshal(b, &f)
		for i := 0; i < 3; i++ {
			evalCase(r, f.Case.Case, f.Case.Idx)
		}
		return
	}
	shard, nshards, worker := rep.Shard()
	if !worker {
		checkIdentifiers(r)
		for _, v := range []string{"8.0.28", "8.0.29"} {
			staleKeeper(r, v)
		}
		rep.RunSharded(r, 8, 20*time.Minute)
		return
	}
	Enumerate(thorough, func(idx int, c Case) {
		if idx%nshards != shard {
			return
		}
		evalCase(r, c, idx)
	})
}
