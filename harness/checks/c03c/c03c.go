// Package c03c: C03 part C - two concurrent global transactions overlapping on rows (Mode D).
//
// Two threads run one global transaction each through the real client (tm.WithGlobalTx -> AT proxy -> memdb, faketc as the
// coordinator with its lock table) under the environment-point scheduler. Scheduling points: every memdb statement, every
// client message before it reaches the coordinator, and every coordinator reply (each reply is a thread of its own, so
// replies to the two transactions are delivered in every order). Local row locks really block (memdb, concurrent mode).
// Oracles on every explored schedule: at each local COMMIT every business row it writes is globally locked by the
// committing transaction's own xid at that instant; rows returned by a locking read are not globally locked by another
// transaction at the instant the read returns; both transactions terminate; the final counter equals the number of
// transactions that reported success.
package c03c

import (
	"context"
	"encoding/json"
	"fmt"
	"os"
	"runtime"
	"strings"
	"sync"
	"time"

	"seata.apache.org/seata-go/pkg/tm"
	"seata.apache.org/seata-go/pkg/util/vshim/vtime"

	"verifharness/faketc"
	"verifharness/memdb"
	"verifharness/quiet"
	"verifharness/rep"
	"verifharness/sys"
	"verifharness/vsched"
)

type Txn struct {
	Kind   string `json:"kind"`   // update | delete | insert | select
	Where  string `json:"where"`  // for update/delete/select
	Commit bool   `json:"commit"` // the callback returns nil (true) or an error (false)
}

type Scenario struct {
	Name  string `json:"name"`
	A, B  Txn
	Bound int `json:"bound"`
}

func scenarios(thorough bool) []Scenario {
	b := 1
	if thorough {
		b = 2
	}
	up := func(w string, c bool) Txn { return Txn{"update", w, c} }
	all := []Scenario{
		{"same-row", up("id = 1", true), up("id = 1", true), b},
		{"overlap-B-rolls-back", up("id IN (1, 2)", true), up("id >= 2", false), b},
		{"update-vs-locking-read", up("id = 1", true), Txn{"select", "id = 1", true}, b},
		{"insert-same-key", Txn{"insert", "", true}, Txn{"insert", "", true}, b},
		{"same-row-A-rolls-back", up("id = 1", false), up("id = 1", true), b},
		{"overlap", up("id = 1", true), up("id IN (1, 2)", true), b},
		{"update-vs-delete", up("id = 1", true), Txn{"delete", "id = 1", true}, b},
		{"rollback-vs-locking-read", up("id = 1", false), Txn{"select", "id IN (1, 2)", true}, b},
		{"disjoint", up("id = 1", true), up("id = 2", true), b},
	}
	if !thorough {
		return all[:4] // the quick tier runs the first four scenarios, each capped (see explore)
	}
	return all
}

const ddl = "CREATE TABLE t_c (id INT NOT NULL, cnt INT NOT NULL, PRIMARY KEY (id))"

var env *sys.Env

type commitObs struct {
	conn  int
	locks map[string]string
}

type execResult struct {
	res      vsched.Result
	errs     [2]error
	xids     [2]string
	done     [2]bool
	stuck    []string
	log      []string
	problems []string
	final    map[int64]int64
}

func runOne(sc Scenario, prefix []int) execResult {
	var x execResult
	e := env
	e.Srv.Fault, e.Srv.Sched = nil, nil
	// (no Crash here: dead pooled connections would be discovered lazily by database/sql, at scheduling points that differ
	// from run to run; connections are only dropped after an execution that left threads stuck)
	e.Srv.Restore(memdb.Snapshot{})
	e.TC.ResetState()
	e.TC.AutoRollback = true
	if _, err := e.Bare.Exec("INSERT INTO t_c (id, cnt) VALUES (1, 0), (2, 0), (3, 0)"); err != nil {
		panic(err)
	}
	e.Srv.ClearJournal()
	sys.TakeErrors()
	vtime.SetVirtual(func(d time.Duration) bool { return d < 20*time.Second })
	s := vsched.New()
	s.Horizon = 500
	var mu sync.Mutex
	var commits []commitObs
	var readProblems []string
	// observe the coordinator's lock table at the instant of every local COMMIT
	e.Srv.Fault = func(o memdb.Op) error {
		if o.Kind == "commit" {
			mu.Lock()
			commits = append(commits, commitObs{o.Conn, e.TC.LockTable()})
			mu.Unlock()
		}
		return nil
	}
	e.Srv.Sched = s
	oldSpawn, oldJoin, oldPoint := faketc.Spawn, faketc.Join, faketc.Point
	faketc.Spawn = func(name string, f func()) { s.Go(name, f) }
	faketc.Join = func(done chan struct{}) { <-done }
	faketc.Point = func(desc string) { s.Point(desc) }
	defer func() { faketc.Spawn, faketc.Join, faketc.Point = oldSpawn, oldJoin, oldPoint }()
	run := func(i int, t Txn) {
		err := tm.WithGlobalTx(context.Background(), &tm.GtxConfig{Name: fmt.Sprintf("c03c-%d", i), Timeout: time.Minute}, func(ctx context.Context) error {
			mu.Lock()
			x.xids[i] = tm.GetXID(ctx)
			mu.Unlock()
			var err error
			switch t.Kind {
			case "update":
				_, err = e.AT.ExecContext(ctx, "UPDATE t_c SET cnt = cnt + 1 WHERE "+t.Where)
			case "delete":
				_, err = e.AT.ExecContext(ctx, "DELETE FROM t_c WHERE "+t.Where)
			case "insert":
				_, err = e.AT.ExecContext(ctx, "INSERT INTO t_c (id, cnt) VALUES (9, 1)")
			case "select":
				rows, qerr := e.AT.QueryContext(ctx, "SELECT id FROM t_c WHERE "+t.Where+" FOR UPDATE")
				err = qerr
				if qerr == nil {
					var ids []int64
					for rows.Next() {
						var id int64
						rows.Scan(&id)
						ids = append(ids, id)
					}
					rows.Close()
					// the instant the read returns: none of its rows may be globally locked by another transaction
					locks := e.TC.LockTable()
					mu.Lock()
					for _, id := range ids {
						for k, owner := range locks {
							if strings.HasSuffix(k, fmt.Sprintf("^t_c:%d", id)) && owner != x.xids[i] {
								readProblems = append(readProblems, fmt.Sprintf("locking-read-returned-locked-row: row %d was returned while globally locked by %s", id, owner))
							}
						}
					}
					mu.Unlock()
				}
			}
			if err != nil {
				return err
			}
			if !t.Commit {
				return fmt.Errorf("business decides to roll back")
			}
			return nil
		})
		mu.Lock()
		x.errs[i], x.done[i] = err, true
		mu.Unlock()
	}
	s.Go("txn-A", func() { run(0, sc.A) })
	s.Go("txn-B", func() { run(1, sc.B) })
	x.res = s.Run(prefix)
	e.Srv.Sched, e.Srv.Fault = nil, nil
	x.stuck = s.Unfinished()
	x.log = s.Log
	s.Abort()
	if len(x.stuck) > 0 {
		e.Srv.Crash()
	}
	quiet.Spin(nil, 2)
	vtime.SetPassThrough()
	// ---- oracles ----
	x.problems = append(x.problems, readProblems...)
	ci := 0
	for _, j := range e.Srv.Journal() {
		if j.Kind != "commit" || j.SQL == "(autocommit)" {
			continue
		}
		if ci >= len(commits) {
			break
		}
		obs := commits[ci]
		ci++
		if j.Err != "" || len(j.Diff) == 0 {
			continue
		}
		// which global transaction does this local commit belong to? its undo_log row says
		xid := ""
		xi := e.Srv.TableDef("undo_log").ColIndexPublic("xid")
		for _, d := range j.Diff {
			if strings.EqualFold(d.Table, "undo_log") && xi >= 0 {
				for _, row := range []memdb.Row{d.After, d.Before} {
					if row != nil && xi < len(row) && row[xi] != nil {
						xid = string(memdb.TextOf(row[xi]))
					}
				}
			}
		}
		if xid == "" {
			continue
		}
		for _, d := range j.Diff {
			if !strings.EqualFold(d.Table, "t_c") {
				continue
			}
			if len(d.PK) == 0 {
				continue
			}
			id := string(memdb.TextOf(d.PK[0]))
			owner, found := "", false
			for k, o := range obs.locks {
				if strings.HasSuffix(k, "^t_c:"+id) {
					owner, found = o, true
				}
			}
			switch {
			case !found:
				x.problems = append(x.problems, fmt.Sprintf("written-row-not-locked: local commit of %s wrote row %s, which no global lock covers at that instant", xid, id))
			case owner != xid:
				x.problems = append(x.problems, fmt.Sprintf("written-row-locked-by-other: local commit of %s wrote row %s while the global lock belongs to %s", xid, id, owner))
			}
		}
	}
	// final counters
	x.final = map[int64]int64{}
	rows, err := e.Bare.Query("SELECT id, cnt FROM t_c")
	if err == nil {
		for rows.Next() {
			var id, c int64
			rows.Scan(&id, &c)
			x.final[id] = c
		}
		rows.Close()
	}
	return x
}

type Located struct {
	Scenario Scenario `json:"scenario"`
	Choices  []int    `json:"choices"`
	Trace    []string `json:"trace"`
}

const clauseText = "at every local commit each written row is globally locked by the committing transaction itself; a locking read returns no row that another global transaction holds; both transactions terminate; committed effects are applied exactly once and rolled-back ones not at all"

func check(sc Scenario, x execResult) (clause, detail string) {
	if x.res.Diverged != "" || x.res.Horizon {
		return "", ""
	}
	if len(x.stuck) > 0 {
		return "never-terminates", fmt.Sprintf("threads never finished: %v", x.stuck)
	}
	if len(x.problems) > 0 {
		return strings.SplitN(x.problems[0], ":", 2)[0], strings.Join(x.problems, " ; ")
	}
	// effects: every update that reported success and committed adds exactly 1 to each of its rows (when the row still exists)
	want := map[int64]int64{1: 0, 2: 0, 3: 0}
	deleted := map[int64]bool{}
	for i, t := range []Txn{sc.A, sc.B} {
		ok := x.errs[i] == nil
		if !ok || !t.Commit {
			continue
		}
		ids := map[string][]int64{"id = 1": {1}, "id = 2": {2}, "id IN (1, 2)": {1, 2}, "id >= 2": {2, 3}}[t.Where]
		switch t.Kind {
		case "update":
			for _, id := range ids {
				want[id]++
			}
		case "delete":
			for _, id := range ids {
				deleted[id] = true
			}
		}
	}
	for id, w := range want {
		got, exists := x.final[id]
		if deleted[id] {
			if exists && sc.Name == "update-vs-delete" {
				// the delete reported success: the row must be gone unless the update came after... the update cannot come after a
				// committed delete (no row), so the row must be gone
				return "effect-mismatch", fmt.Sprintf("row %d still exists (cnt=%d) although the delete reported success", id, got)
			}
			continue
		}
		if !exists || got != w {
			return "effect-mismatch", fmt.Sprintf("row %d: cnt=%d exists=%v, expected %d (A err=%v, B err=%v)", id, got, exists, w, x.errs[0], x.errs[1])
		}
	}
	return "", ""
}

func explore(r *rep.Run, sc Scenario, shard, nshards int) {
	maxExec := 6400
	if r.Tier == "thorough" {
		maxExec = 160000
	}
	ex := &vsched.Explorer{Bound: sc.Bound, MaxExec: maxExec / nshards, Shard: shard, NShards: nshards, Deadline: deadline}
	outcomes := map[string]bool{}
	ex.RunOne = func(prefix []int) vsched.Result {
		x := runOne(sc, prefix)
		if ex.Silent {
			return x.res
		}
		r.Eval(len(x.res.Points) > 4)
		r.Count("schedule_points", int64(len(x.res.Points)))
		if x.res.Diverged != "" {
			r.Count("diverged", 1)
		}
		if x.res.Horizon {
			r.Count("horizon_hit", 1)
		}
		outcomes[fmt.Sprintf("A=%v B=%v final=%v", x.errs[0] == nil, x.errs[1] == nil, x.final)] = true
		if clause, detail := check(sc, x); clause != "" {
			r.Violate("partC/"+clause+"/"+sc.Name, clauseText, Located{sc, x.res.Choices, x.log}, detail+" | errors: A="+fmt.Sprint(x.errs[0])+" B="+fmt.Sprint(x.errs[1])+" | client errors: "+strings.Join(sys.TakeErrors(), " || ")+" | schedule: "+strings.Join(x.log, " ; "))
		}
		return x.res
	}
	ex.Check = func(vsched.Result) {}
	ex.Explore(nil)
	r.Count("partC_executions/"+sc.Name, int64(ex.Executions))
	var keys []string
	for k := range outcomes {
		keys = append(keys, k)
	}
	r.Extra[fmt.Sprintf("partC_outcomes/%s/shard%d", sc.Name, shard)] = keys
	if ex.Capped {
		r.Exhaustive = false
		r.Count("partC_capped/"+sc.Name, 1)
	}
}

var deadline time.Time

// RunC is the worker/driver entry: the driver shards over 8 processes.
func RunC(r *rep.Run) {
	thorough := r.Tier == "thorough"
	if os.Getenv("VERIF_C03C_WORKER") == "" {
		// driver: re-execute as workers
		os.Setenv("VERIF_C03C_WORKER", "1")
		defer os.Unsetenv("VERIF_C03C_WORKER")
		rep.RunSharded(r, 16, 45*time.Minute)
		union := map[string]map[string]bool{}
		for k, v := range r.Extra {
			if !strings.HasPrefix(k, "partC_outcomes/") {
				continue
			}
			name := strings.Split(k, "/")[1]
			if union[name] == nil {
				union[name] = map[string]bool{}
			}
			if l, ok := v.([]interface{}); ok {
				for _, o := range l {
					union[name][fmt.Sprint(o)] = true
				}
			}
			delete(r.Extra, k)
		}
		for name, m := range union {
			r.Count("partC_distinct_outcomes/"+name, int64(len(m)))
		}
		return
	}
	shard, nshards, _ := rep.Shard()
	var err error
	env, err = sys.NewEnv([]string{ddl}, sys.Options{NoXA: true, Concurrent: true})
	if err != nil {
		r.Broken = err.Error()
		return
	}
	quiet.Spin(nil, 5)
	runtime.GOMAXPROCS(1)
	deadline = time.Now().Add(2 * time.Minute)
	if thorough {
		deadline = time.Now().Add(20 * time.Minute)
	}
	runOne(scenarios(thorough)[0], nil) // warm-up: the first statement on a table loads its metadata into the client's cache
	for i, sc := range scenarios(thorough) {
		if i%nshards == shard {
			a, b := runOne(sc, nil), runOne(sc, nil)
			ja, _ := json.Marshal(a.res.Points)
			jb, _ := json.Marshal(b.res.Points)
			if string(ja) != string(jb) {
				// judged executions stay valid one by one; what is lost is the guarantee that the enumeration is complete
				r.Count("partC_probe_not_deterministic/"+sc.Name, 1)
				r.Exhaustive = false
			}
		}
		explore(r, sc, shard, nshards)
	}
}
