// Package c01: AT global rollback restores every row (Mode S over the full client stack).
package c01

import (
	"encoding/json"
	"fmt"
	"os"
	"sort"
	"strings"
	"time"

	"seata.apache.org/seata-go/pkg/datasource/sql/undo"
	"seata.apache.org/seata-go/pkg/protocol/branch"

	"verifharness/atrun"
	"verifharness/gen"
	"verifharness/memdb"
	"verifharness/rep"
	"verifharness/sys"
)

type Config struct {
	Serializer string `json:"serializer"`
	Compress   string `json:"compress"`
	Validation bool   `json:"data_validation"`
	OnlyCare   bool   `json:"only_care_update_columns"`
}

func (c Config) String() string {
	return fmt.Sprintf("%s,%s,valid=%v,care=%v", c.Serializer, c.Compress, c.Validation, c.OnlyCare)
}

func (c Config) Apply() {
	undo.UndoConfig = undo.Config{DataValidation: c.Validation, LogSerialization: c.Serializer, LogTable: "undo_log", OnlyCareUpdateColumns: c.OnlyCare,
		CompressConfig: undo.CompressConfig{Enable: c.Compress != "None", Type: c.Compress, Threshold: "64k"}}
}

var DefaultConfig = Config{"json", "None", true, true}

func AllConfigs() []Config {
	var out []Config
	for _, ser := range []string{"json", "protobuf"} {
		for _, comp := range []string{"None", "Gzip"} {
			for _, v := range []bool{true, false} {
				for _, oc := range []bool{true, false} {
					out = append(out, Config{ser, comp, v, oc})
				}
			}
		}
	}
	return out
}

// Located is what a replay file stores: the case and its index in the tier's enumeration.
type Located struct {
	Idx  int    `json:"idx"`
	Tier string `json:"tier"`
	Case Case   `json:"case"`
}

type Case struct {
	Program  gen.Program `json:"program"`
	Config   Config      `json:"config"`
	Delivery string      `json:"delivery"` // immediate | after-other
}

// Enumerate yields every case of the tier, in a fixed order.
func Enumerate(thorough bool, yield func(idx int, c Case)) int {
	idx := 0
	emit := func(c Case) {
		yield(idx, c)
		idx++
	}
	maxLen := 2
	if thorough {
		maxLen = 3
	}
	for _, s := range gen.Schemas {
		alpha := s.Alphabet(thorough)
		inits := s.InitialSets(3)
		full := inits[len(inits)-1]
		for _, in := range inits {
			if len(in) == 3 && len(in) > len(full) {
				full = in
			}
		}
		// length 1: every statement x every initial set x {autocommit, explicit} x {pool, pinned} x delivery, default config
		for _, stmt := range alpha {
			for _, in := range inits {
				if s.ID == "s6" && len(in) != len(s.Rows) {
					continue
				}
				for _, part := range gen.Partitions(1) {
					for _, pinned := range []bool{false, true} {
						for _, del := range []string{"immediate", "after-other"} {
							emit(Case{gen.Program{Schema: s.ID, Steps: []gen.Step{{Stmt: stmt, Group: part[0]}}, Pinned: pinned, Init: in}, DefaultConfig, del})
						}
					}
				}
			}
			// every configuration under every length-1 program (largest initial set, autocommit, pool)
			for _, cfg := range AllConfigs() {
				if cfg == DefaultConfig {
					continue
				}
				in := inits[len(inits)-1]
				if s.ID == "s6" {
					in = []int{0, 1}
				}
				emit(Case{gen.Program{Schema: s.ID, Steps: []gen.Step{{Stmt: stmt, Group: 0}}, Init: in}, cfg, "immediate"})
			}
		}
		if s.ID == "s6" {
			continue
		}
		// length 2 (3 thorough): all ordered statement tuples x partitions x {pool, pinned}, two initial sets
		initsN := [][]int{{0, 1, 2}, {0, 1, 3}}
		if thorough {
			initsN = append(initsN, []int{1, 2, 3}, []int{0})
		}
		for n := 2; n <= maxLen; n++ {
			al := alpha
			if n == 3 {
				al = s.Stmts
				if len(al) > 12 {
					// one statement of each kind and shape for triples
					var red []gen.Stmt
					seen := map[string]int{}
					for _, a := range al {
						if seen[a.Kind] < 3 {
							red = append(red, a)
							seen[a.Kind]++
						}
					}
					al = red
				}
			}
			tuple := make([]int, n)
			var rec func(k int)
			rec = func(k int) {
				if k == n {
					for _, part := range gen.Partitions(n) {
						for _, pinned := range []bool{false, true} {
							for _, in := range initsN {
								steps := make([]gen.Step, n)
								for i := range steps {
									steps[i] = gen.Step{Stmt: al[tuple[i]], Group: part[i]}
								}
								emit(Case{gen.Program{Schema: s.ID, Steps: steps, Pinned: pinned, Init: in}, DefaultConfig, "immediate"})
							}
						}
					}
					return
				}
				for i := range al {
					tuple[k] = i
					rec(k + 1)
				}
			}
			rec(0)
		}
	}
	// bulk table: statements touching exactly / just under / just over the undo executors' IN-list batch size (sixth-round seed)
	sizes := []int{1000, 999, 1001}
	if thorough {
		sizes = append(sizes, 2000, 2001)
	}
	for _, n := range sizes {
		in := make([]int, n)
		for i := range in {
			in[i] = i
		}
		for _, stmt := range gen.S9.Stmts {
			emit(Case{gen.Program{Schema: "s9", Steps: []gen.Step{{Stmt: stmt, Group: 0}}, Init: in}, DefaultConfig, "immediate"})
		}
	}
	return idx
}

func Run(r *rep.Run) {
	thorough := r.Tier == "thorough"
	r.Rule = "every generator schema (single/auto-increment/composite/varchar keys, nullable+unique, all-types) x every subset of <=3 of 4 initial rows x every length-1 statement of the alphabet x {autocommit, explicit local transaction} x {pool, pinned connection} x delivery {immediate, after another committed global transaction}; " +
		"every serializer x compressor x data-validation x only-care-update-columns configuration under every length-1 program; all ordered statement pairs (thorough: triples over a reduced alphabet) x partitions into <=2 local transactions. " +
		"Non-trivial = the global transaction changed at least one committed row before phase two."
	r.Assume = []string{"memdb assumptions A1-A7 of DESIGN.md", "coordinator = faketc (rollback in reverse registration order)"}
	shard, nshards, worker := rep.Shard()
	if !worker {
		if replay := os.Getenv("VERIF_REPLAY"); replay != "" {
			runReplay(r, replay)
			return
		}
		total := Enumerate(thorough, func(int, Case) {})
		r.Extra["space_size"] = total
		n := 16
		rep.RunSharded(r, n, 25*time.Minute)
		if r.Evals != int64(total) && r.Broken == "" {
			r.Exhaustive = false
		}
		return
	}
	e := atrun.EnvFor("c01", sys.Options{NoXA: true})
	deadline := time.Now().Add(budget(thorough))
	Enumerate(thorough, func(idx int, c Case) {
		if idx%nshards != shard {
			return
		}
		if time.Now().After(deadline) {
			r.Exhaustive = false
			return
		}
		RunCase(r, e, c, idx)
	})
}

func budget(thorough bool) time.Duration {
	if thorough {
		return 18 * time.Minute
	}
	return 100 * time.Second
}

func kindsSig(p gen.Program) string {
	if len(p.Steps) == 1 {
		return p.Steps[0].Stmt.Name
	}
	var names []string
	for _, s := range p.Steps {
		names = append(names, s.Stmt.Name)
	}
	return strings.Join(names, "+")
}

func shape(p gen.Program) string {
	var g []string
	for _, s := range p.Steps {
		if s.Group == 0 {
			g = append(g, "a")
		} else {
			g = append(g, fmt.Sprintf("t%d", s.Group))
		}
	}
	out := strings.Join(g, "")
	if p.Pinned {
		out += "-pinned"
	}
	return out
}

type verdict struct {
	clause  string // "" = property held
	text    string
	cause   string
	detail  string
	changed bool
	failed  int
	sample  map[string]interface{}
}

// evaluate executes one case and applies the oracle.
func evaluate(e *sys.Env, c Case, idx int) (v verdict, broken string) {
	s := gen.SchemaByID(c.Program.Schema)
	if err := atrun.Reset(e, s, c.Program.Init); err != nil {
		return v, err.Error()
	}
	c.Config.Apply()
	var between func()
	if c.Delivery == "after-other" {
		between = func() { otherTransaction(e, s) }
	}
	sys.TakeErrors()
	o := atrun.RunGlobal(e, c.Program, "rollback", between)
	clientErrs := sys.TakeErrors()
	undo.UndoConfig = sys.DefaultUndo

	pre, mid, post := atrun.BusinessTables(o.Pre), atrun.BusinessTables(o.Mid), atrun.BusinessTables(o.Post)
	if c.Delivery == "after-other" {
		// the other transaction's committed row is part of the expected end state
		pre = withOther(pre, post, s)
	}
	v.changed = pre.String() != mid.String()
	v.sample = map[string]interface{}{"program": c.Program.Names(), "schema": c.Program.Schema, "init": c.Program.Init, "config": c.Config.String(), "delivery": c.Delivery,
		"branches": len(o.Branches), "phase2": o.Phase2, "changed_before_phase2": v.changed}
	v.cause = Cause(clientErrs, o, pre, mid, post)
	restored := pre.String() == post.String()
	allRollbacked := true
	for _, st := range o.Phase2 {
		if st != int(branch.BranchStatusPhasetwoRollbacked) {
			allRollbacked = false
		}
	}
	v.detail = fmt.Sprintf("xid=%s branches=%d phase2=%v business_err=%q steps=%+v diff: %s | undo_log rows left: %d", o.Xid, len(o.Branches), o.Phase2, o.BusinessErr, o.Steps,
		atrun.DiffText(pre, post), len(o.Post["undo_log"])) + " | client errors: " + strings.Join(clientErrs, " || ")
	if os.Getenv("VERIF_TRACE") != "" {
		fmt.Println("==== case", idx, c.Program.Names(), c.Config.String(), c.Delivery)
		for _, ev := range o.Events {
			fmt.Printf("  tc %d %s %T %s\n", ev.G, ev.Dir, ev.Msg.Body, ev.Note)
		}
		for _, j := range o.Journal {
			fmt.Printf("  db %d c%d t%d %s %q %v err=%q aff=%d rows=%d\n", j.G, j.Conn, j.Txn, j.Kind, trunc(j.SQL, 200), truncArgs(j.Args), j.Err, j.Affected, j.NRows)
		}
		fmt.Println("  ", v.detail)
	}
	for _, sr := range o.Steps {
		if sr.Err != "" || sr.Panic != "" {
			v.failed++
		}
	}
	switch {
	case !restored && allRollbacked:
		v.clause, v.text = "lied", "the resource manager answers 'rollbacked' only when the rows are restored"
	case !restored:
		v.clause, v.text = "notrestored", "every table ends with the contents it had before the global transaction"
	case !allRollbacked && len(o.Branches) > 0:
		v.clause, v.text = "status", "a branch that is restored answers 'rollbacked' (phase two must terminate)"
	default:
		// undo log of every branch gone
		for _, row := range o.Post["undo_log"] {
			for _, b := range o.Branches {
				if fmt.Sprint(row[1]) == fmt.Sprint(b.ID) && fmt.Sprint(row[5]) == "0" {
					v.clause, v.text = "undolog-left", "the branch's undo-log row is gone"
				}
			}
		}
	}
	return v, ""
}

// RunCase evaluates a case and reports. A failing multi-statement program is reduced to its culprits: the
// statements that already violate the property on their own (same initial rows and configuration); when none
// does, the violation needs the combination and is reported as an interaction.
func RunCase(r *rep.Run, e *sys.Env, c Case, idx int) {
	v, broken := evaluate(e, c, idx)
	if broken != "" {
		r.Broken = broken
		return
	}
	r.Eval(v.changed)
	r.Count("business_statement_failed", int64(v.failed))
	if idx%977 == 0 {
		r.Sample(v.sample)
	}
	if v.clause == "" {
		return
	}
	who := c.Program.Steps[0].Stmt.Name
	if len(c.Program.Steps) > 1 {
		seen := map[string]bool{}
		var culprits []string
		for _, st := range c.Program.Steps {
			if seen[st.Stmt.Name] {
				continue
			}
			seen[st.Stmt.Name] = true
			single := Case{gen.Program{Schema: c.Program.Schema, Steps: []gen.Step{{Stmt: st.Stmt}}, Init: c.Program.Init}, c.Config, "immediate"}
			if sv, _ := evaluate(e, single, -1); sv.clause != "" {
				culprits = append(culprits, st.Stmt.Name)
			}
		}
		if len(culprits) > 0 {
			sort.Strings(culprits)
			who = strings.Join(culprits, "+")
		} else {
			who = "interaction:" + kindsSig(c.Program) + ":" + shape(c.Program)
		}
	}
	sig := fmt.Sprintf("%s/%s/%s/%s/%s", v.clause, v.cause, c.Program.Schema, who, cfgClass(c.Config))
	r.Violate(sig, v.text, Located{Idx: idx, Tier: r.Tier, Case: c}, v.detail)
}

// cfgClass keeps only what distinguishes root causes: serializer and whether validation is on.
func cfgClass(c Config) string {
	v := "valid"
	if !c.Validation {
		v = "novalid"
	}
	return c.Serializer + "," + v
}

func kindSet(p gen.Program) string {
	seen := map[string]bool{}
	var ks []string
	for _, s := range p.Steps {
		if !seen[s.Stmt.Kind] {
			seen[s.Stmt.Kind] = true
			ks = append(ks, s.Stmt.Kind)
		}
	}
	sort.Strings(ks)
	return strings.Join(ks, "+")
}

var causePatterns = []struct{ sub, name string }{
	{"converting NULL to", "err:scan-null-current-row"},
	{"pkIndex is not found", "err:insert-without-column-list"},
	{"PK columnName size don't equal", "err:composite-pk-insert"},
	{"Has dirty records", "err:dirty-check"},
	{"not support", "err:undo-type-unsupported"},
	{"Lock wait timeout", "err:lock-wait-timeout"},
	{"Duplicate entry", "err:duplicate-entry"},
	{"Before image size is not equaled", "err:image-size-mismatch"},
	{"decode", "err:decode"},
	{"Scan error", "err:scan"},
	{"invalid memory address", "err:nil-deref"},
	{"index out of range", "err:index-out-of-range"},
}

// Cause classifies a violation by its visible root cause: the first error the client logged, else the shape of the difference.
func Cause(errs []string, o *atrun.Obs, pre, mid, post memdb.Snapshot) string {
	if touchesBig(pre, mid) {
		return "value:bigint-beyond-2^53"
	}
	all := strings.Join(errs, " || ") + " || " + o.BusinessErr
	for _, sr := range o.Steps {
		all += " || " + sr.Err + sr.Panic
	}
	for _, p := range causePatterns {
		if strings.Contains(all, p.sub) {
			return p.name
		}
	}
	if strings.TrimSpace(strings.ReplaceAll(all, "||", "")) != "" && !strings.Contains(all, "business decides") {
		t := all
		if len(t) > 48 {
			t = t[:48]
		}
		return "err:other:" + strings.Map(func(r rune) rune {
			if r >= 'a' && r <= 'z' || r >= 'A' && r <= 'Z' {
				return r
			}
			return '-'
		}, t)
	}
	// no error anywhere: classify the difference
	extra, missing, changed, big := 0, 0, 0, false
	cols := map[int]bool{} // positions of the columns whose value differs in a row that is still there
	for name, prs := range pre {
		pk := map[string]string{}
		byKey := map[string]memdb.Row{}
		for _, r := range prs {
			pk[fmt.Sprint(r[0])+"|"+fmt.Sprint(r[1])] = fmt.Sprint(r)
			byKey[fmt.Sprint(r[0])+"|"+fmt.Sprint(r[1])] = r
		}
		seen := map[string]bool{}
		for _, r := range post[name] {
			k := fmt.Sprint(r[0]) + "|" + fmt.Sprint(r[1])
			seen[k] = true
			if v, ok := pk[k]; !ok {
				extra++
			} else if v != fmt.Sprint(r) {
				changed++
				for i := range r {
					if i < len(byKey[k]) && fmt.Sprint(byKey[k][i]) != fmt.Sprint(r[i]) {
						cols[i] = true
					}
				}
			}
		}
		for k := range pk {
			if !seen[k] {
				missing++
				if strings.Contains(k, "900719925474099") {
					big = true
				}
			}
		}
	}
	switch {
	case big:
		return "diff:bigint-beyond-2^53"
	case extra > 0 && missing == 0 && changed == 0:
		return "diff:inserted-row-left"
	case missing > 0 && extra == 0 && changed == 0:
		return "diff:deleted-row-missing"
	case changed > 0 && extra == 0 && missing == 0:
		var l []string
		for i := range cols {
			l = append(l, fmt.Sprintf("%02d", i))
		}
		sort.Strings(l)
		return "diff:updated-row-not-restored:c" + strings.Join(l, ",")
	}
	return "diff:mixed"
}

// touchesBig: the global transaction changed a row whose BIGINT key is beyond 2^53 (not exactly representable in float64).
func touchesBig(pre, mid memdb.Snapshot) bool {
	for name, rows := range pre {
		m := map[string]bool{}
		for _, r := range mid[name] {
			m[fmt.Sprint(r)] = true
		}
		for _, r := range rows {
			if !m[fmt.Sprint(r)] {
				if id, ok := r[0].(int64); ok && (id > 1<<53 || id < -(1<<53)) {
					return true
				}
			}
		}
	}
	return false
}

func cfgSig(c Config) string {
	if c == DefaultConfig {
		return "default"
	}
	return c.String()
}

// otherTransaction commits (phase one and two) an unrelated global transaction on a row outside the pool.
func otherTransaction(e *sys.Env, s *gen.Schema) {
	other := otherStmt(s)
	p := gen.Program{Schema: s.ID, Steps: []gen.Step{{Stmt: other}}}
	atrun.RunGlobal(e, p, "commit", nil)
}

func otherStmt(s *gen.Schema) gen.Stmt {
	switch s.ID {
	case "s1":
		return gen.Stmt{Name: "other", Kind: "insert", SQL: "INSERT INTO t_s1 (id, name, cnt) VALUES (777, 'other', 7)"}
	case "s2":
		return gen.Stmt{Name: "other", Kind: "insert", SQL: "INSERT INTO t_s2 (id, name, cnt) VALUES (777, 'other', 7)"}
	case "s3":
		return gen.Stmt{Name: "other", Kind: "insert", SQL: "INSERT INTO t_s3 (v, b, a, cnt) VALUES ('o', 'other', 777, 7)"}
	case "s4":
		return gen.Stmt{Name: "other", Kind: "insert", SQL: "INSERT INTO t_s4 (code, cnt, note) VALUES ('other777', 7, 'o')"}
	case "s5":
		return gen.Stmt{Name: "other", Kind: "insert", SQL: "INSERT INTO t_s5 (id, email, score, memo) VALUES (777, 'other@x', 7, 'o')"}
	}
	if s.ID == "s7" {
		return gen.Stmt{Name: "other", Kind: "insert", SQL: "INSERT INTO t_s7 (id, ref_id, idx) VALUES (777, 7, 7)"}
	}
	if s.ID == "s8" {
		return gen.Stmt{Name: "other", Kind: "insert", SQL: "INSERT INTO t_s8 (id, email, cnt) VALUES (777, 'other@x', 7)"}
	}
	return gen.Stmt{Name: "other", Kind: "insert", SQL: "INSERT INTO t_s6 (id, c_int) VALUES (777, 7)"}
}

// withOther adds the other transaction's row (as found in post) to the expected state.
func withOther(pre, post memdb.Snapshot, s *gen.Schema) memdb.Snapshot {
	out := memdb.Snapshot{}
	for k, v := range pre {
		out[k] = v
	}
	for _, row := range post[strings.ToLower(s.Table)] {
		txt := fmt.Sprint(row)
		if strings.Contains(txt, "777") {
			rows := append([]memdb.Row{}, out[strings.ToLower(s.Table)]...)
			rows = append(rows, row)
			out[strings.ToLower(s.Table)] = sortRows(rows, post[strings.ToLower(s.Table)])
		}
	}
	return out
}

// sortRows orders rows the way ref (a sorted snapshot containing them) orders them.
func sortRows(rows, ref []memdb.Row) []memdb.Row {
	var out []memdb.Row
	used := make([]bool, len(rows))
	for _, rr := range ref {
		for i, x := range rows {
			if !used[i] && fmt.Sprint(x) == fmt.Sprint(rr) {
				out = append(out, x)
				used[i] = true
				break
			}
		}
	}
	for i, x := range rows {
		if !used[i] {
			out = append(out, x)
		}
	}
	return out
}

func runReplay(r *rep.Run, path string) {
	b, err := os.ReadFile(path)
	if err != nil {
		r.Broken = err.Error()
		return
	}
	var f struct {
		Case Located `json:"case"`
	}
	if err := json.Unmarshal(b, &f); err != nil {
		r.Broken = "replay file: " + err.Error()
		return
	}
	e := atrun.EnvFor("c01", sys.Options{NoXA: true})
	found := false
	Enumerate(f.Case.Tier == "thorough", func(idx int, c Case) {
		if idx == f.Case.Idx {
			found = true
			for i := 0; i < 5; i++ {
				RunCase(r, e, c, idx)
			}
		}
	})
	if !found {
		r.Broken = "replay: case index not in the enumeration"
	}
}

func trunc(s string, n int) string {
	if len(s) > n {
		return s[:n] + "..."
	}
	return s
}

func truncArgs(a []memdb.Value) string {
	return trunc(fmt.Sprint(a), 300)
}
