// Package c12: wire codec vs. the independent v1 layout table (Mode S).
package c12

import (
	"bytes"
	"fmt"
	"go/ast"
	"go/parser"
	"go/token"
	"math"
	"os"
	"path/filepath"
	"reflect"
	"runtime"
	"sort"
	"strings"
	"sync"
	"time"

	"seata.apache.org/seata-go/pkg/protocol/codec"
	"seata.apache.org/seata-go/pkg/protocol/message"

	"verifharness/rep"
	"verifharness/wire"
)

type tcase struct {
	Code  int    `json:"code"`
	Type  string `json:"type"`
	Field string `json:"field"`
	Value string `json:"value"`
}

func strCatalogue(w int, thorough bool) []string {
	lens := []int{0, 1, 2, 127, 128, 255, 256, 257, 1000, 32767, 32768, 65535}
	if w == 4 {
		lens = append(lens, 65536, 70000)
		if thorough {
			lens = append(lens, 1<<20)
		}
	}
	var out []string
	for _, n := range lens {
		out = append(out, strings.Repeat("a", n))
	}
	// multi-byte text straddling limits: 3-byte rune repeated so that byte length crosses 127/128, 255/256
	for _, n := range []int{42, 43, 85, 86, 10922, 10923, 21845} { // *3 = 126,129,255,258,32766,32769,65535
		out = append(out, strings.Repeat("世", n))
	}
	out = append(out, "a世b", "\x00", "x\x00y", "\xff\xfe", "ip:8091:1234567890", "tb:1,2;tb2:a_b")
	return out
}

func describe(s string) string {
	if len(s) <= 24 {
		return fmt.Sprintf("%q", s)
	}
	return fmt.Sprintf("%q...(len %d)", s[:8], len(s))
}

// the repository's codec objects by message type code — found through the
// registry when registered, otherwise instantiated directly (GlobalReportRequest).
func codecFor(code int) codec.Codec {
	if c := codec.GetCodecManager().GetCodec(codec.CodecTypeSeata, message.MessageType(code)); c != nil {
		// the registry is keyed by GetMessageType(); make sure it is the codec of this message
		return c
	}
	return nil
}

func Run(r *rep.Run) {
	thorough := r.Tier == "thorough"
	codec.Init()
	r.Rule = "for each of the 24 v1 message types: base message, then every field swept over its boundary catalogue " +
		"(strings by length and multi-byte straddles, all 256 byte-enum values, int64 extremes, duration edges, both result codes; " +
		"all pairs (result code, message)); thorough adds all pairs of field values. Non-trivial = case whose reference encoding differs from the base message's."
	r.Assume = []string{"Appendix A of DESIGN.md is the Seata v1 layout (hand-written from the Java serializer)",
		"values beyond a length prefix's range are outside the wire limits and only required not to panic"}

	// watchdog: encoding or decoding one message takes microseconds. A case that runs for 30 s, or a heap beyond 6 GiB (a
	// length field read from the middle of a string makes the decoder allocate gigabytes), is reported as a violation and
	// ends the run - the main goroutine would never come back.
	var wmu sync.Mutex
	var current *tcase
	var since time.Time
	go func() {
		for {
			time.Sleep(200 * time.Millisecond)
			wmu.Lock()
			tc, t0 := current, since
			wmu.Unlock()
			if tc == nil {
				continue
			}
			var ms runtime.MemStats
			runtime.ReadMemStats(&ms)
			if time.Since(t0) > 30*time.Second || ms.HeapAlloc > 6<<30 {
				r.Violate(fmt.Sprintf("%s/runaway/%s", tc.Type, tc.Field), "encoding and decoding terminate with bounded memory", *tc,
					fmt.Sprintf("the case has been running for %v with %d MiB of heap in use", time.Since(t0).Round(time.Second), ms.HeapAlloc>>20))
				os.Exit(r.Finish())
			}
		}
	}()
	watch := func(tc tcase) {
		wmu.Lock()
		current, since = &tc, time.Now()
		wmu.Unlock()
	}
	unwatch := func() {
		wmu.Lock()
		current = nil
		wmu.Unlock()
	}

	direct := map[int]codec.Codec{17: &codec.GlobalReportRequestCodec{}}
	for i := range wire.Table {
		l := &wire.Table[i]
		base := wire.Base(l)
		tname := reflect.TypeOf(l.Proto).Name()
		baseRef, _ := wire.RefEncode(l, base)

		// per field value lists
		type fv struct {
			name string
			vals []interface{}
		}
		var fields []fv
		for _, f := range l.Fields {
			switch f.Kind {
			case wire.ATR:
				var msgs []interface{}
				for _, s := range strCatalogue(2, thorough) {
					msgs = append(msgs, s)
				}
				msgs = append(msgs, strings.Repeat("m", 32768), strings.Repeat("m", 40000), strings.Repeat("m", 65535), strings.Repeat("m", 65536), strings.Repeat("m", 70000))
				// 0 = failed (the only code that carries a message), 1 = success; other byte values travel as they are
				fields = append(fields, fv{"ResultCode", []interface{}{0, 1, 2, 127, 255}})
				fields = append(fields, fv{"Msg", msgs})
				var codes []interface{}
				for b := 0; b < 256; b++ {
					codes = append(codes, b)
				}
				fields = append(fields, fv{"TransactionErrorCode", codes})
			case wire.U8:
				k := reflect.ValueOf(l.Proto).FieldByName(f.Name).Kind()
				var vals []interface{}
				if k == reflect.Int8 {
					for b := -128; b < 128; b++ {
						vals = append(vals, b)
					}
				} else {
					for b := 0; b < 256; b++ {
						vals = append(vals, b)
					}
				}
				fields = append(fields, fv{f.Name, vals})
			case wire.U8B, wire.U16B:
				fields = append(fields, fv{f.Name, []interface{}{false, true}})
			case wire.I32MS:
				ms := int64(time.Millisecond)
				fields = append(fields, fv{f.Name, []interface{}{int64(0), ms, 999 * int64(time.Microsecond), 1500 * int64(time.Microsecond),
					int64(math.MaxInt32) * ms, int64(60000) * ms, int64(math.MaxUint32) * ms}})
			case wire.I64:
				fields = append(fields, fv{f.Name, []interface{}{int64(0), int64(1), int64(-1), int64(math.MinInt64), int64(math.MaxInt64), int64(1) << 53, int64(255), int64(256)}})
			case wire.S16, wire.S32:
				w := 2
				if f.Kind == wire.S32 {
					w = 4
				}
				var vals []interface{}
				for _, s := range strCatalogue(w, thorough) {
					vals = append(vals, s)
				}
				fields = append(fields, fv{f.Name, vals})
			}
		}
		limitOf := map[string]int{}
		for _, f := range l.Fields {
			if f.Kind == wire.S16 {
				limitOf[f.Name] = 65535
			}
		}

		check := func(m interface{}, tc tcase) {
			watch(tc)
			defer unwatch()
			c := codecFor(l.Code)
			if d, ok := direct[l.Code]; ok {
				c = d
			}
			ref, truncated := wire.RefEncode(l, m)
			nontrivial := !bytes.Equal(ref, baseRef)
			r.Eval(nontrivial)
			// values outside wire limits: only "no panic"
			outside := false
			mv := reflect.ValueOf(m)
			for name, lim := range limitOf {
				fv := mv.FieldByName(name)
				n := 0
				if fv.Kind() == reflect.String {
					n = len(fv.String())
				} else {
					n = fv.Len()
				}
				if n > lim {
					outside = true
				}
			}
			sig := func(clause string) string { return fmt.Sprintf("%s/%s/%s", tname, clause, tc.Field) }
			if c == nil {
				r.Violate(fmt.Sprintf("%s/no-codec", tname), "codec exists", tc, "no codec object for type code")
				return
			}
			var enc []byte
			var dec interface{}
			perr := catch(func() { enc = c.Encode(m) })
			if perr != "" {
				r.Violate(sig("encode-panic"), "no panic", tc, perr)
				return
			}
			if outside {
				catch(func() { c.Decode(enc) })
				return
			}
			if !truncated && !bytes.Equal(enc, ref) {
				r.Violate(sig("layout"), "Encode bytes = v1 layout", tc, fmt.Sprintf("first difference at byte %d: got % x want % x", firstDiff(enc, ref), window(enc, firstDiff(enc, ref)), window(ref, firstDiff(enc, ref))))
			}
			// decode what the implementation wrote
			perr = catch(func() { dec = c.Decode(enc) })
			if perr != "" {
				r.Violate(sig("decode-panic"), "no panic", tc, perr)
				return
			}
			want := m
			for _, f := range l.Fields {
				if f.Kind == wire.I32MS {
					// the wire carries whole milliseconds
					d := reflect.ValueOf(m).FieldByName(f.Name).Int()
					want = wire.Set(want, f.Name, d/int64(time.Millisecond)*int64(time.Millisecond))
				}
			}
			if truncated {
				want = wire.Set(want, "Msg", reflect.ValueOf(m).FieldByName("Msg").String()[:wire.MaxMsg])
			}
			if mv := reflect.ValueOf(m); mv.Kind() == reflect.Struct && mv.FieldByName("Msg").IsValid() && mv.FieldByName("ResultCode").IsValid() &&
				mv.FieldByName("ResultCode").Uint() != 0 {
				// the v1 layout carries the message only when the result code is Failed: with any other code it is not on the wire
				want = wire.Set(want, "Msg", "")
			}
			if !truncated {
				if !reflect.DeepEqual(wire.Norm(dec), wire.Norm(want)) {
					r.Violate(sig("roundtrip"), "Decode(Encode(m)) = m", tc, fmt.Sprintf("got %s want %s", short(dec), short(want)))
				}
			} else {
				// over-long failure message: any cut to <= 32767 bytes is allowed, every other field must survive
				ok := false
				if dv := reflect.ValueOf(dec); dv.IsValid() && dv.Kind() == reflect.Struct && dv.Type() == reflect.TypeOf(m) {
					got := dv.FieldByName("Msg").String()
					orig := reflect.ValueOf(m).FieldByName("Msg").String()
					if len(got) <= wire.MaxMsg && strings.HasPrefix(orig, got) {
						ok = reflect.DeepEqual(wire.Norm(wire.Set(dec, "Msg", "")), wire.Norm(wire.Set(m, "Msg", "")))
					}
				}
				if !ok {
					r.Violate(sig("truncation"), "fields after an over-long message stay decodable", tc, fmt.Sprintf("got %s want %s", short(dec), short(want)))
				}
			}
			// decode the reference bytes, re-encode: whole body consumed and understood
			var dec2 interface{}
			var enc2 []byte
			perr = catch(func() { dec2 = c.Decode(ref); enc2 = c.Encode(dec2) })
			if perr != "" {
				r.Violate(sig("decode-ref-panic"), "no panic", tc, perr)
				return
			}
			if !reflect.DeepEqual(wire.Norm(dec2), wire.Norm(want)) {
				r.Violate(sig("decode-v1"), "Decode(v1 bytes) = m", tc, fmt.Sprintf("got %s want %s", short(dec2), short(want)))
			} else if !bytes.Equal(enc2, ref) {
				r.Violate(sig("reencode"), "Encode(Decode(bytes)) = bytes", tc, fmt.Sprintf("diff at %d", firstDiff(enc2, ref)))
			}
			// through the manager: type code prefix and dispatch
			if _, isDirect := direct[l.Code]; !isDirect {
				var full []byte
				var back interface{}
				perr = catch(func() {
					full = codec.GetCodecManager().Encode(codec.CodecTypeSeata, m)
					back = codec.GetCodecManager().Decode(codec.CodecTypeSeata, full)
				})
				if perr != "" {
					r.Violate(sig("manager-panic"), "no panic", tc, perr)
				} else if len(full) < 2 || int(full[0])<<8|int(full[1]) != l.Code || !bytes.Equal(full[2:], enc) {
					r.Violate(fmt.Sprintf("%s/manager-typecode", tname), "type code prefix", tc, fmt.Sprintf("prefix % x", window(full, 0)))
				} else if !reflect.DeepEqual(wire.Norm(back), wire.Norm(dec)) {
					r.Violate(fmt.Sprintf("%s/manager-dispatch", tname), "manager decode dispatch", tc, short(back))
				}
			}
		}

		check(base, tcase{l.Code, tname, "(base)", ""})
		r.Sample(tcase{l.Code, tname, "(base)", fmt.Sprintf("% x", baseRef)})
		// unset fields: the Go zero value of the message, and the base message with one byte-slice field nil (an empty
		// non-nil slice is part of the string catalogue below; both must produce the same bytes)
		check(reflect.Zero(reflect.TypeOf(l.Proto)).Interface(), tcase{l.Code, tname, "(zero)", ""})
		for _, f := range l.Fields {
			if f.Kind != wire.S16 && f.Kind != wire.S32 {
				continue
			}
			c := reflect.New(reflect.TypeOf(l.Proto)).Elem()
			c.Set(reflect.ValueOf(base))
			if fv := c.FieldByName(f.Name); fv.Kind() == reflect.Slice {
				fv.Set(reflect.Zero(fv.Type()))
				check(c.Interface(), tcase{l.Code, tname, f.Name, "nil"})
			}
		}
		for _, f := range fields {
			for _, val := range f.vals {
				m := wire.Set(base, f.name, val)
				vs := fmt.Sprint(val)
				if s, ok := val.(string); ok {
					vs = describe(s)
				}
				if f.name == "Msg" {
					// message only exists on the wire when the result code is Failed
					m = wire.Set(m, "ResultCode", 0)
				}
				check(m, tcase{l.Code, tname, f.name, vs})
				if f.name == "Msg" {
					// (result code, message) pairs: success + message must not emit it
					m1 := wire.Set(m, "ResultCode", 1)
					ref1, _ := wire.RefEncode(l, m1)
					_ = ref1
					c := codecFor(l.Code)
					if c != nil {
						var enc []byte
						if perr := catch(func() { enc = c.Encode(m1) }); perr != "" {
							r.Violate(fmt.Sprintf("%s/encode-panic/Msg", tname), "no panic", tcase{l.Code, tname, "Msg+Success", vs}, perr)
						} else if !bytes.Equal(enc, ref1) {
							r.Violate(fmt.Sprintf("%s/layout/Msg+Success", tname), "Encode bytes = v1 layout", tcase{l.Code, tname, "Msg+Success", vs}, "")
						}
						r.Eval(false)
					}
				}
			}
		}
		if thorough {
			// all pairs of (field, value) with the long strings left to the single sweeps
			for a := 0; a < len(fields); a++ {
				for b := a + 1; b < len(fields); b++ {
					for _, va := range fields[a].vals {
						if s, ok := va.(string); ok && len(s) > 300 {
							continue
						}
						for _, vb := range fields[b].vals {
							if s, ok := vb.(string); ok && len(s) > 300 {
								continue
							}
							m := wire.Set(wire.Set(base, fields[a].name, va), fields[b].name, vb)
							check(m, tcase{l.Code, tname, fields[a].name + "+" + fields[b].name, fmt.Sprint(va) + "|" + fmt.Sprint(vb)})
						}
					}
				}
			}
		}
	}

	// registration clause: every type the client sends or awaits has a registered codec with its own type code
	sent, awaited, err := clientTypes("/repo")
	if err != nil {
		r.Broken = "cannot derive client message types from source: " + err.Error()
		return
	}
	names := map[string]bool{}
	for _, n := range sent {
		names[n] = true
	}
	for _, n := range awaited {
		names[n] = true
	}
	var all []string
	for n := range names {
		all = append(all, n)
	}
	sort.Strings(all)
	r.Extra["client_sends"] = sent
	r.Extra["client_awaits"] = awaited
	for _, n := range all {
		var l *wire.Layout
		for i := range wire.Table {
			if reflect.TypeOf(wire.Table[i].Proto).Name() == n {
				l = &wire.Table[i]
			}
		}
		r.Eval(true)
		if l == nil {
			r.Violate("registration/"+n+"/not-in-table", "registration", n, "message type used by the client is not one of the 24 v1 types")
			continue
		}
		own := int(l.Proto.(message.MessageTypeAware).GetTypeCode())
		c := codec.GetCodecManager().GetCodec(codec.CodecTypeSeata, message.MessageType(own))
		if c == nil {
			r.Violate("registration/"+n+"/missing", "registered codec", n, fmt.Sprintf("no codec registered for type code %d", own))
			continue
		}
		if int(c.GetMessageType()) != own || own != l.Code {
			r.Violate("registration/"+n+"/typecode", "codec type code = message type code", n, fmt.Sprintf("codec %d message %d table %d", c.GetMessageType(), own, l.Code))
		}
		// and it is the codec of *this* message: encoding the base message through it gives the table bytes
		ref, _ := wire.RefEncode(l, wire.Base(l))
		var enc []byte
		if perr := catch(func() { enc = c.Encode(wire.Base(l)) }); perr != "" || !bytes.Equal(enc, ref) {
			r.Violate("registration/"+n+"/wrong-codec", "registered codec encodes this message", n, perr)
		}
	}
}

func catch(f func()) (p string) {
	defer func() {
		if r := recover(); r != nil {
			p = fmt.Sprintf("panic: %v", r)
		}
	}()
	f()
	return ""
}

func firstDiff(a, b []byte) int {
	n := len(a)
	if len(b) < n {
		n = len(b)
	}
	for i := 0; i < n; i++ {
		if a[i] != b[i] {
			return i
		}
	}
	return n
}

func window(b []byte, at int) []byte {
	lo, hi := at-2, at+6
	if lo < 0 {
		lo = 0
	}
	if hi > len(b) {
		hi = len(b)
	}
	if lo > hi {
		lo = hi
	}
	return b[lo:hi]
}

func short(v interface{}) string {
	s := fmt.Sprintf("%+v", v)
	if len(s) > 300 {
		s = s[:300] + "..."
	}
	return s
}

// clientTypes derives, from the repository source at run time, the message
// types the client sends (composite literals of message.* passed to the
// Send* functions or assigned on the way there) and awaits (type assertions on
// responses, processor registrations).
func clientTypes(repo string) (sent, awaited []string, err error) {
	dirs := []string{"pkg/rm", "pkg/tm", "pkg/remoting/getty", "pkg/remoting/processor/client", "pkg/rm/tcc", "pkg/datasource/sql"}
	s, a := map[string]bool{}, map[string]bool{}
	fset := token.NewFileSet()
	for _, d := range dirs {
		ents, e := os.ReadDir(filepath.Join(repo, d))
		if e != nil {
			return nil, nil, e
		}
		for _, ent := range ents {
			if ent.IsDir() || !strings.HasSuffix(ent.Name(), ".go") || strings.HasSuffix(ent.Name(), "_test.go") || strings.HasPrefix(ent.Name(), "verif_") {
				continue
			}
			f, e := parser.ParseFile(fset, filepath.Join(repo, d, ent.Name()), nil, 0)
			if e != nil {
				return nil, nil, e
			}
			ast.Inspect(f, func(n ast.Node) bool {
				switch x := n.(type) {
				case *ast.CompositeLit:
					if se, ok := x.Type.(*ast.SelectorExpr); ok {
						if id, ok := se.X.(*ast.Ident); ok && id.Name == "message" {
							if strings.HasSuffix(se.Sel.Name, "Request") || strings.HasSuffix(se.Sel.Name, "Response") {
								if !strings.HasPrefix(se.Sel.Name, "Abstract") {
									s[se.Sel.Name] = true
								}
							}
						}
					}
				case *ast.TypeAssertExpr:
					if se, ok := x.Type.(*ast.SelectorExpr); ok {
						if id, ok := se.X.(*ast.Ident); ok && id.Name == "message" {
							if (strings.HasSuffix(se.Sel.Name, "Request") || strings.HasSuffix(se.Sel.Name, "Response")) && !strings.HasPrefix(se.Sel.Name, "Abstract") {
								a[se.Sel.Name] = true
							}
						}
					}
				}
				return true
			})
		}
	}
	for k := range s {
		sent = append(sent, k)
	}
	for k := range a {
		awaited = append(awaited, k)
	}
	sort.Strings(sent)
	sort.Strings(awaited)
	if len(sent) < 5 || len(awaited) < 3 {
		return nil, nil, fmt.Errorf("derived too few client message types: sent=%v awaited=%v", sent, awaited)
	}
	return
}
