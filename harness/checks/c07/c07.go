// Package c07: propagation modes and transaction context across nesting and RPC (Mode S).
package c07

import (
	"context"
	"encoding/json"
	"fmt"
	"net/http"
	"net/http/httptest"
	"os"
	"sort"
	"strings"
	"sync"

	"dubbo.apache.org/dubbo-go/v3/protocol"
	"dubbo.apache.org/dubbo-go/v3/protocol/invocation"
	"github.com/gin-gonic/gin"
	"google.golang.org/grpc"
	"google.golang.org/grpc/metadata"

	"seata.apache.org/seata-go/pkg/integration/dubbo"
	sgin "seata.apache.org/seata-go/pkg/integration/gin"
	sgrpc "seata.apache.org/seata-go/pkg/integration/grpc"
	"seata.apache.org/seata-go/pkg/protocol/message"
	"seata.apache.org/seata-go/pkg/tm"

	"verifharness/rep"
	"verifharness/sys"
)

// Node is one scope of the tree.
type Node struct {
	Mode     int     `json:"mode"` // tm.Propagation
	Fail     bool    `json:"fail"` // the callback returns an error
	Fresh    bool    `json:"fresh"`
	Children []*Node `json:"children,omitempty"`
}

var modeNames = map[tm.Propagation]string{tm.Required: "Required", tm.RequiresNew: "RequiresNew", tm.NotSupported: "NotSupported", tm.Supports: "Supports", tm.Never: "Never", tm.Mandatory: "Mandatory"}
var modes = []tm.Propagation{tm.Required, tm.RequiresNew, tm.NotSupported, tm.Supports, tm.Never, tm.Mandatory}

func (n *Node) String() string {
	s := modeNames[tm.Propagation(n.Mode)]
	if n.Fail {
		s += "!"
	}
	if n.Fresh {
		s = "~" + s
	}
	if len(n.Children) > 0 {
		var cs []string
		for _, c := range n.Children {
			cs = append(cs, c.String())
		}
		s += "(" + strings.Join(cs, ",") + ")"
	}
	return s
}

// ---- reference interpreter -----------------------------------------------------

type refEvent struct {
	Kind string // begin | commit | rollback
	Tx   int    // index of the global transaction in begin order (1-based)
}

type refScope struct {
	Ran    bool
	Tx     int // transaction the callback must see (0 = none)
	Failed bool
}

type ref struct {
	events []refEvent
	scopes []refScope // in pre-order
	ntx    int
}

// eval interprets node under the documented semantics; cur = transaction visible to the caller (0 none).
func (r *ref) eval(n *Node, cur int) {
	idx := len(r.scopes)
	r.scopes = append(r.scopes, refScope{})
	mine, launcher := cur, false
	switch tm.Propagation(n.Mode) {
	case tm.Required:
		if cur == 0 {
			r.ntx++
			mine, launcher = r.ntx, true
		}
	case tm.RequiresNew:
		r.ntx++
		mine, launcher = r.ntx, true
	case tm.Supports:
	case tm.NotSupported:
		mine = 0
	case tm.Never:
		if cur != 0 {
			r.scopes[idx] = refScope{Failed: true}
			return
		}
		mine = 0
	case tm.Mandatory:
		if cur == 0 {
			r.scopes[idx] = refScope{Failed: true}
			return
		}
	}
	if launcher {
		r.events = append(r.events, refEvent{"begin", mine})
	}
	r.scopes[idx] = refScope{Ran: true, Tx: mine, Failed: n.Fail}
	for _, c := range n.Children {
		r.eval(c, mine)
	}
	if launcher {
		if n.Fail {
			r.events = append(r.events, refEvent{"rollback", mine})
		} else {
			r.events = append(r.events, refEvent{"commit", mine})
		}
	}
}

// ---- execution ---------------------------------------------------------------

type obsScope struct {
	EnterXid   string // xid bound to the context when the scope was entered
	EnterEv    int    // coordinator events before / after the scope's WithGlobalTx call
	ExitEv     int
	Mode       int
	Ran        bool
	Xid        string
	Err        string
	AfterChild []string // problems seen in this scope's context after a child returned
}

type run struct {
	scopes []obsScope
}

func (rn *run) exec(ctx context.Context, n *Node) error {
	idx := len(rn.scopes)
	rn.scopes = append(rn.scopes, obsScope{})
	gc := &tm.GtxConfig{Name: fmt.Sprintf("scope-%d", idx), Propagation: tm.Propagation(n.Mode)}
	if tm.IsSeataContext(ctx) {
		rn.scopes[idx].EnterXid = tm.GetXID(ctx)
	}
	rn.scopes[idx].Mode = n.Mode
	rn.scopes[idx].EnterEv = len(getEnv().TC.Events())
	defer func() { rn.scopes[idx].ExitEv = len(getEnv().TC.Events()) }()
	err := tm.WithGlobalTx(ctx, gc, func(c context.Context) error {
		rn.scopes[idx].Ran = true
		xid := tm.GetXID(c)
		rn.scopes[idx].Xid = xid
		name := tm.GetTxName(c)
		var role tm.GlobalTransactionRole
		if p := tm.GetTxRole(c); p != nil {
			role = *p
		}
		for ci, ch := range n.Children {
			cctx := c
			if ch.Fresh {
				// a remote call: a fresh context that only carries the xid. Every second fresh edge derives it from the caller's
				// context (the way code that forwards deadlines and values builds the callee context) instead of from Background:
				// a new transaction context layered over the caller's must be just as independent
				cctx = context.Background()
				if (ci+idx)%2 == 1 {
					cctx = context.WithValue(c, ctxKey("forwarded"), "v")
				}
				if xid != "" || (ci+idx)%2 == 1 {
					cctx = tm.InitSeataContext(cctx)
					tm.SetXID(cctx, xid)
				}
			}
			func() {
				defer func() {
					if r := recover(); r != nil {
						rn.scopes[idx].AfterChild = append(rn.scopes[idx].AfterChild, fmt.Sprintf("child panicked: %v", r))
					}
				}()
				rn.exec(cctx, ch)
			}()
			if got := tm.GetXID(c); got != xid {
				rn.scopes[idx].AfterChild = append(rn.scopes[idx].AfterChild, fmt.Sprintf("xid changed from %q to %q", xid, got))
			}
			if got := tm.GetTxName(c); got != name {
				rn.scopes[idx].AfterChild = append(rn.scopes[idx].AfterChild, fmt.Sprintf("name changed from %q to %q", name, got))
			}
			if p := tm.GetTxRole(c); p != nil && *p != role {
				rn.scopes[idx].AfterChild = append(rn.scopes[idx].AfterChild, fmt.Sprintf("role changed from %v to %v", role, *p))
			}
		}
		if n.Fail {
			return fmt.Errorf("scope %d fails", idx)
		}
		return nil
	})
	if err != nil {
		rn.scopes[idx].Err = err.Error()
	}
	return err
}

var (
	envOnce sync.Once
	env     *sys.Env
)

func getEnv() *sys.Env {
	envOnce.Do(func() {
		e, err := sys.NewEnv(nil, sys.Options{NoXA: true, NoAT: true})
		if err != nil {
			panic(err)
		}
		env = e
	})
	return env
}

// trees enumerates all scope trees with at most maxNodes nodes and depth at most 3.
func trees(maxNodes int, yield func(root *Node)) {
	// shapes as parent vectors
	var shapes [][]int
	var gen func(par []int)
	gen = func(par []int) {
		shapes = append(shapes, append([]int{}, par...))
		if len(par) == maxNodes {
			return
		}
		// a new node attaches to any node on the right-most path (canonical ordered trees)
		n := len(par)
		// compute depth of each node
		depth := make([]int, n)
		for i := 1; i < n; i++ {
			depth[i] = depth[par[i]] + 1
		}
		// right-most path: follow last node up
		onPath := map[int]bool{}
		for x := n - 1; ; x = par[x] {
			onPath[x] = true
			if x == 0 {
				break
			}
		}
		for p := 0; p < n; p++ {
			if onPath[p] && depth[p] < 2 {
				gen(append(append([]int{}, par...), p))
			}
		}
	}
	gen([]int{-1})
	for _, sh := range shapes {
		n := len(sh)
		labels := make([]int, n) // mode*4 + fail*2 + fresh
		var rec func(i int)
		rec = func(i int) {
			if i == n {
				nodes := make([]*Node, n)
				for k := 0; k < n; k++ {
					nodes[k] = &Node{Mode: int(modes[labels[k]/4]), Fail: labels[k]/2%2 == 1, Fresh: labels[k]%2 == 1}
				}
				for k := 1; k < n; k++ {
					nodes[sh[k]].Children = append(nodes[sh[k]].Children, nodes[k])
				}
				yield(nodes[0])
				return
			}
			for l := 0; l < 24; l++ {
				if i == 0 && l%2 == 1 {
					continue // the root has no edge
				}
				labels[i] = l
				rec(i + 1)
			}
		}
		rec(0)
	}
}

type ctxKey string

func hasShared(n *Node, isRoot bool) bool {
	if !isRoot && !n.Fresh {
		return true
	}
	for _, c := range n.Children {
		if hasShared(c, false) {
			return true
		}
	}
	return false
}

func evalTree(r *rep.Run, root *Node, idx int) {
	e := getEnv()
	e.TC.ResetState()
	rf := &ref{}
	rf.eval(root, 0)
	rn := &run{}
	var escaped string
	func() {
		defer func() {
			if p := recover(); p != nil {
				escaped = fmt.Sprint(p)
			}
		}()
		rn.exec(context.Background(), root)
	}()
	r.Eval(len(root.Children) > 0)
	if idx%9973 == 0 {
		r.Sample(map[string]interface{}{"tree": root.String(), "expected_requests": fmt.Sprint(rf.events)})
	}
	// observed coordinator log, transactions numbered in begin order
	xidNo := map[string]int{}
	var got []refEvent
	for _, ev := range e.TC.Events() {
		if ev.Dir != "c2s" {
			continue
		}
		switch b := ev.Msg.Body.(type) {
		case message.GlobalBeginRequest:
			got = append(got, refEvent{"begin", len(xidNo) + 1})
		case message.GlobalCommitRequest:
			got = append(got, refEvent{"commit", xidNo[b.Xid]})
		case message.GlobalRollbackRequest:
			got = append(got, refEvent{"rollback", xidNo[b.Xid]})
		}
		if ev.Dir == "c2s" {
			continue
		}
	}
	// xids are learnt from the begin responses, in order
	n := 0
	got = got[:0]
	for _, ev := range e.TC.Events() {
		switch b := ev.Msg.Body.(type) {
		case message.GlobalBeginResponse:
			if ev.Dir == "s2c" {
				n++
				xidNo[b.Xid] = n
			}
		}
	}
	beginNo := 0
	for _, ev := range e.TC.Events() {
		if ev.Dir != "c2s" {
			continue
		}
		switch b := ev.Msg.Body.(type) {
		case message.GlobalBeginRequest:
			beginNo++
			got = append(got, refEvent{"begin", beginNo})
		case message.GlobalCommitRequest:
			got = append(got, refEvent{"commit", xidNo[b.Xid]})
		case message.GlobalRollbackRequest:
			got = append(got, refEvent{"rollback", xidNo[b.Xid]})
		}
	}
	shared := "fresh-only"
	if hasShared(root, true) {
		shared = "shared-ctx"
	}
	sigShape := func() string {
		// the mode of the innermost non-root scope on a shared edge characterises the known defect; otherwise the root mode
		s := modeNames[tm.Propagation(root.Mode)]
		var walk func(n *Node)
		inner := ""
		walk = func(n *Node) {
			for _, c := range n.Children {
				inner = modeNames[tm.Propagation(c.Mode)]
				walk(c)
			}
		}
		walk(root)
		if inner != "" {
			s += ">" + inner
		}
		return s
	}
	viol := func(clause, detail string) {
		r.Violate(fmt.Sprintf("%s/%s/%s", clause, shared, sigShape()), "requests equal the documented propagation semantics; the inner callback sees the right xid; the enclosing scope's xid, role and name are intact afterwards", map[string]interface{}{"idx": idx, "tree": root},
			fmt.Sprintf("%s | tree=%s expected=%v observed=%v", detail, root.String(), rf.events, got))
	}
	if escaped != "" {
		viol("panic", "a panic escaped: "+escaped)
		return
	}
	// a scope that joins the transaction bound to its context (Required / Supports / Mandatory entered with an xid) never
	// decides it: between its entry and its exit no commit or rollback for that xid goes out. This holds on shared and on
	// fresh contexts alike (the shared-context finding is about what the OUTER scope does afterwards).
	evs := e.TC.Events()
	for i, sc := range rn.scopes {
		m := tm.Propagation(sc.Mode)
		if sc.EnterXid == "" || !(m == tm.Required || m == tm.Supports || m == tm.Mandatory) || sc.ExitEv > len(evs) {
			continue
		}
		for _, ev := range evs[sc.EnterEv:sc.ExitEv] {
			if ev.Dir != "c2s" {
				continue
			}
			x := ""
			switch b := ev.Msg.Body.(type) {
			case message.GlobalCommitRequest:
				x = b.Xid
			case message.GlobalRollbackRequest:
				x = b.Xid
			}
			if x != "" && x == sc.EnterXid {
				r.Violate(fmt.Sprintf("joined-scope-decides/%s", modeNames[m]), "a scope that joins an existing transaction never commits or rolls it back", map[string]interface{}{"idx": idx, "tree": root},
					fmt.Sprintf("scope %d joined %s and a %T for it was sent while the scope ran | tree=%s", i, sc.EnterXid, ev.Msg.Body, root.String()))
				return
			}
		}
	}
	if fmt.Sprint(got) != fmt.Sprint(rf.events) {
		viol("requests", "coordinator request log differs from the reference")
		return
	}
	for i := range rf.scopes {
		if i >= len(rn.scopes) {
			break
		}
		want, ob := rf.scopes[i], rn.scopes[i]
		if want.Ran != ob.Ran {
			viol("scope-ran", fmt.Sprintf("scope %d: callback ran=%v, expected %v", i, ob.Ran, want.Ran))
			return
		}
		if want.Ran && xidNo[ob.Xid] != want.Tx {
			viol("scope-xid", fmt.Sprintf("scope %d saw transaction #%d (%q), expected #%d", i, xidNo[ob.Xid], ob.Xid, want.Tx))
			return
		}
		if want.Failed && ob.Err == "" {
			viol("scope-error", fmt.Sprintf("scope %d should have failed", i))
			return
		}
		if len(ob.AfterChild) > 0 {
			viol("context-clobbered", fmt.Sprintf("scope %d after an inner scope returned: %v", i, ob.AfterChild))
			return
		}
	}
}

// ---- integrations ------------------------------------------------------------

var xids = []string{"a", "192.168.0.1:8091:2001", strings.Repeat("x", 4096), "世界:8091:1", "a,b;c=d&e", " lead", "UPPER:lower:Mixed", "12+34", "abc%3A42", "node%2B1:8091:7", "100%"}

type fakeInvoker struct {
	protocol.Invoker
	seen context.Context
	inv  protocol.Invocation
}

func (f *fakeInvoker) Invoke(ctx context.Context, inv protocol.Invocation) protocol.Result {
	f.seen, f.inv = ctx, inv
	return &protocol.RPCResult{}
}

func participantChecks(r *rep.Run, name, xid string, ctx context.Context, key string) {
	e := getEnv()
	r.Eval(true)
	got := ""
	if ctx != nil {
		got = tm.GetXID(ctx)
	}
	cs := map[string]interface{}{"integration": name, "xid": xid[:min(len(xid), 40)], "carrier": key}
	if got != xid {
		r.Violate(fmt.Sprintf("integration/%s/xid-lost/%s", name, key), "an xid carried by the integration arrives unchanged", cs, fmt.Sprintf("callee sees %q (len %d), sent len %d", got[:min(len(got), 60)], len(got), len(xid)))
		return
	}
	e.TC.ResetState()
	err := tm.WithGlobalTx(ctx, &tm.GtxConfig{Name: "callee", Propagation: tm.Required}, func(c context.Context) error {
		if tm.GetXID(c) != xid {
			return fmt.Errorf("inner xid %q", tm.GetXID(c))
		}
		return nil
	})
	if err != nil {
		r.Violate(fmt.Sprintf("integration/%s/callee-error/%s", name, key), "the callee is a participant", cs, err.Error())
	}
	for _, ev := range e.TC.Events() {
		if ev.Dir == "c2s" {
			switch ev.Msg.Body.(type) {
			case message.GlobalBeginRequest, message.GlobalCommitRequest, message.GlobalRollbackRequest:
				r.Violate(fmt.Sprintf("integration/%s/participant-ends-tx/%s", name, key), "a participant never begins or ends the transaction", cs, fmt.Sprintf("%T", ev.Msg.Body))
			}
		}
	}
}

func min(a, b int) int {
	if a < b {
		return a
	}
	return b
}

func integrations(r *rep.Run) {
	getEnv()
	for _, xid := range xids {
		// gRPC: client interceptor -> metadata -> server interceptor
		octx := tm.InitSeataContext(context.Background())
		tm.SetXID(octx, xid)
		var outgoing metadata.MD
		sgrpc.ClientTransactionInterceptor(octx, "/svc/m", nil, nil, nil, func(ctx context.Context, method string, req, reply interface{}, cc *grpc.ClientConn, opts ...grpc.CallOption) error {
			outgoing, _ = metadata.FromOutgoingContext(ctx)
			return nil
		})
		// a middle service: its context already carries outgoing metadata (forwarded from its own caller) - an older xid under the
		// same key, or unrelated keys - when the client interceptor adds the xid bound to the context
		for _, pre := range []struct {
			name string
			md   metadata.MD
		}{
			{"stale-xid-in-outgoing", metadata.Pairs("tx_xid", "10.9.9.9:8091:777")},
			{"stale-xid-upper-in-outgoing", metadata.MD{"TX_XID": []string{"10.9.9.9:8091:778"}}},
			{"other-keys-in-outgoing", metadata.Pairs("k", "v")},
		} {
			pctx := metadata.NewOutgoingContext(octx, pre.md.Copy())
			var out2 metadata.MD
			sgrpc.ClientTransactionInterceptor(pctx, "/svc/m", nil, nil, nil, func(ctx context.Context, method string, req, reply interface{}, cc *grpc.ClientConn, opts ...grpc.CallOption) error {
				out2, _ = metadata.FromOutgoingContext(ctx)
				return nil
			})
			// what grpc puts on the wire: keys lower-cased, values of equal keys concatenated in order
			wire := metadata.MD{}
			for k, v := range out2 {
				wire[strings.ToLower(k)] = append(wire[strings.ToLower(k)], v...)
			}
			var callee context.Context
			sgrpc.ServerTransactionInterceptor(metadata.NewIncomingContext(context.Background(), wire), nil, nil, func(ctx context.Context, req interface{}) (interface{}, error) {
				callee = ctx
				return nil, nil
			})
			participantChecks(r, "grpc", xid, callee, pre.name)
		}
		for _, variant := range []string{"as-sent", "lower-case-key"} {
			md := metadata.MD{}
			for k, v := range outgoing {
				if variant == "lower-case-key" {
					k = strings.ToLower(k)
				}
				md[k] = v
			}
			var callee context.Context
			sgrpc.ServerTransactionInterceptor(metadata.NewIncomingContext(context.Background(), md), nil, nil, func(ctx context.Context, req interface{}) (interface{}, error) {
				callee = ctx
				return nil, nil
			})
			participantChecks(r, "grpc", xid, callee, variant)
		}
		// gin
		for _, hk := range []string{"TX_XID", "tx_xid", "Tx_Xid"} {
			gin.SetMode(gin.ReleaseMode)
			eng := gin.New()
			eng.ContextWithFallback = true
			var callee context.Context
			status := 0
			eng.Use(sgin.TransactionMiddleware())
			eng.GET("/x", func(c *gin.Context) { callee = c.Request.Context() })
			req := httptest.NewRequest(http.MethodGet, "/x", nil)
			req.Header.Set(hk, xid)
			w := httptest.NewRecorder()
			eng.ServeHTTP(w, req)
			status = w.Code
			if callee == nil {
				// net/http canonicalises and validates header values: an xid that is not a legal header value cannot arrive at all
				if strings.TrimSpace(xid) != xid || !isHeaderSafe(xid) {
					continue
				}
				r.Eval(true)
				r.Violate("integration/gin/rejected/"+hk, "an xid carried by the integration arrives", map[string]interface{}{"xid": xid[:min(len(xid), 40)], "header": hk}, fmt.Sprintf("status %d", status))
				continue
			}
			if strings.TrimSpace(xid) != xid || !isHeaderSafe(xid) {
				continue
			}
			participantChecks(r, "gin", xid, callee, hk)
		}
		// dubbo: consumer side puts the xid into attachments, provider side reads it back
		f := dubbo.GetDubboTransactionFilter()
		cinv := invocation.NewRPCInvocation("m", nil, map[string]interface{}{})
		fi := &fakeInvoker{}
		cctx := tm.InitSeataContext(context.Background())
		tm.SetXID(cctx, xid)
		f.Invoke(cctx, fi, cinv)
		sent := map[string]string{}
		for _, k := range []string{"SEATA_XID", "TX_XID"} {
			if v, ok := cinv.GetAttachment(k); ok {
				sent[k] = v
			}
		}
		r.Eval(true)
		if sent["SEATA_XID"] != xid || sent["TX_XID"] != xid {
			r.Violate("integration/dubbo/consumer", "the consumer filter attaches the xid", xid[:min(len(xid), 40)], fmt.Sprint(len(sent)))
		}
		// the response passes through the filter with the caller's own context (dubbo's filter chain calls OnResponse after
		// Invoke): the enclosing transaction's xid is still bound afterwards, and a second call carries it again
		if xid != "" {
			f.OnResponse(cctx, &protocol.RPCResult{}, fi, cinv)
			r.Eval(true)
			if got := tm.GetXID(cctx); got != xid {
				r.Violate("integration/dubbo/consumer-context-after-response", "when the inner scope ends the enclosing transaction's xid is intact", xid[:min(len(xid), 40)], fmt.Sprintf("after Invoke + OnResponse on the consumer side the caller's context is bound to %q", got))
			}
			cinv2 := invocation.NewRPCInvocation("m2", nil, map[string]interface{}{})
			f.Invoke(cctx, &fakeInvoker{}, cinv2)
			if v, _ := cinv2.GetAttachment("TX_XID"); v != xid {
				r.Violate("integration/dubbo/consumer-second-call", "an xid carried by the integration arrives unchanged", xid[:min(len(xid), 40)], fmt.Sprintf("the second call of the same scope carries %q", v))
			}
		}
		// a relaying service: the invocation it passes on still carries the attachment it received (an older xid) while its
		// context is bound to another transaction (a RequiresNew scope): the wire and the handed-on context carry the bound xid
		for _, stale := range []map[string]interface{}{
			{"SEATA_XID": "10.9.9.9:8091:555", "TX_XID": "10.9.9.9:8091:555"},
			{"TX_XID": "10.9.9.9:8091:556"},
			{"tx_xid": "10.9.9.9:8091:557"},
		} {
			if xid == "" {
				continue
			}
			att := map[string]interface{}{}
			for k, v := range stale {
				att[k] = v
			}
			rinv := invocation.NewRPCInvocation("m", nil, att)
			ri := &fakeInvoker{}
			rctx := tm.InitSeataContext(context.Background())
			tm.SetXID(rctx, xid)
			f.Invoke(rctx, ri, rinv)
			r.Eval(true)
			var keys []string
			for k := range stale {
				keys = append(keys, k)
			}
			sort.Strings(keys)
			tag := "relay/" + strings.Join(keys, "+")
			for _, k := range []string{"SEATA_XID", "TX_XID"} {
				if v, _ := rinv.GetAttachment(k); v != xid {
					r.Violate("integration/dubbo/"+tag+"/wire", "an xid carried by the integration arrives unchanged", xid[:min(len(xid), 40)], fmt.Sprintf("attachment %s = %q on the wire, the caller's context is bound to another xid", k, v))
				}
			}
			if ri.seen != nil && tm.IsSeataContext(ri.seen) && tm.GetXID(ri.seen) != xid {
				r.Violate("integration/dubbo/"+tag+"/context", "an xid carried by the integration arrives unchanged", xid[:min(len(xid), 40)], fmt.Sprintf("the context handed on is bound to %q", tm.GetXID(ri.seen)))
			}
		}
		for _, key := range []string{"SEATA_XID", "TX_XID", "seata_xid", "tx_xid"} {
			pinv := invocation.NewRPCInvocation("m", nil, map[string]interface{}{key: xid})
			pi := &fakeInvoker{}
			f.Invoke(context.Background(), pi, pinv)
			participantChecks(r, "dubbo", xid, pi.seen, key)
			// the triple protocol hands attachments over as string slices
			sinv := invocation.NewRPCInvocation("m", nil, map[string]interface{}{key: []string{xid}})
			si := &fakeInvoker{}
			f.Invoke(context.Background(), si, sinv)
			participantChecks(r, "dubbo", xid, si.seen, key+"[]")
		}
	}
}

func isHeaderSafe(s string) bool {
	for _, c := range []byte(s) {
		if c < 0x20 || c == 0x7f {
			return false
		}
	}
	return true
}

func Run(r *rep.Run) {
	thorough := r.Tier == "thorough"
	maxNodes := 3
	if thorough {
		maxNodes = 4
	}
	r.Rule = fmt.Sprintf("all ordered scope trees with <= %d nodes and depth <= 3, every node labelled with one of the six propagation modes and an outcome {nil, error}, every edge {shared context, fresh context carrying the xid}; compared with a reference interpreter of the documented semantics (request log per transaction, xid seen by each callback, failing scopes, context intact after each inner scope). Integrations: 7 xid strings x gRPC (metadata as sent / lower-cased keys), gin (3 header spellings), dubbo (consumer attachments; provider with 4 attachment spellings). Non-trivial = tree with at least one inner scope / every integration case.", maxNodes)
	r.Assume = []string{"coordinator = faketc", "a scope's outcome is independent of its children's outcomes (callbacks ignore inner errors)"}
	if replay := os.Getenv("VERIF_REPLAY"); replay != "" {
		b, err := os.ReadFile(replay)
		if err != nil {
			r.Broken = err.Error()
			return
		}
		var f struct {
			Case struct {
				Idx  int   `json:"idx"`
				Tree *Node `json:"tree"`
			} `json:"case"`
		}
		json.Unmarshal(b, &f)
		if f.Case.Tree != nil {
			evalTree(r, f.Case.Tree, f.Case.Idx)
		}
		return
	}
	shard, nshards, worker := rep.Shard()
	if !worker {
		integrations(r)
		rep.RunSharded(r, 16, 20*60*1e9)
		return
	}
	idx := 0
	trees(maxNodes, func(root *Node) {
		if idx%nshards == shard {
			evalTree(r, root, idx)
		}
		idx++
	})
}
