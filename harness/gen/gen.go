// Package gen holds the shared generators: schemas, row pools, statement alphabets, programs.
package gen

import (
	"fmt"
	"strings"
)

type Schema struct {
	ID    string
	Table string
	DDL   string
	PK    []string
	Rows  []string // row pool, as VALUES tuples for a full-column INSERT
	Stmts []Stmt   // quick alphabet
	More  []Stmt   // extra statements of the thorough alphabet
}

// Stmt is one DML statement with its bound arguments.
type Stmt struct {
	Name string        `json:"name"`
	Kind string        `json:"kind"` // insert, update, delete, upsert
	SQL  string        `json:"sql"`
	Args []interface{} `json:"args,omitempty"`
}

func st(kind, name, sql string, args ...interface{}) Stmt {
	return Stmt{Name: name, Kind: kind, SQL: sql, Args: args}
}

var S1 = Schema{
	ID: "s1", Table: "t_s1", PK: []string{"id"},
	DDL:  "CREATE TABLE t_s1 (id BIGINT NOT NULL, name VARCHAR(32), cnt INT NOT NULL DEFAULT 0, PRIMARY KEY (id))",
	Rows: []string{"(1,'a',10)", "(2,'b',20)", "(3,NULL,30)", "(9007199254740993,'big',40)"},
	Stmts: []Stmt{
		st("insert", "ins-lit", "INSERT INTO t_s1 (id, name, cnt) VALUES (5, 'e', 50)"),
		st("insert", "ins-bound", "INSERT INTO t_s1 (id, name, cnt) VALUES (?, ?, ?)", int64(6), "f", 60),
		st("insert", "ins-mixed", "INSERT INTO t_s1 (id, name, cnt) VALUES (?, 'g', ?)", int64(7), 70),
		st("insert", "ins-2rows-lit", "INSERT INTO t_s1 (id, name, cnt) VALUES (5, 'e', 50), (6, 'f', 60)"),
		st("insert", "ins-2rows-bound", "INSERT INTO t_s1 (id, name, cnt) VALUES (?, ?, ?), (?, ?, ?)", int64(5), "e", 50, int64(6), "f", 60),
		st("insert", "ins-null-default", "INSERT INTO t_s1 (id, name, cnt) VALUES (8, NULL, DEFAULT)"),
		st("insert", "ins-nocols", "INSERT INTO t_s1 VALUES (5, 'e', 50)"),
		st("insert", "ins-keylast", "INSERT INTO t_s1 (name, cnt, id) VALUES ('e', 50, 5)"),
		st("insert", "ins-partial", "INSERT INTO t_s1 (id) VALUES (?)", int64(5)),
		st("update", "upd-key-lit", "UPDATE t_s1 SET cnt = 11 WHERE id = 1"),
		st("update", "upd-key-bound", "UPDATE t_s1 SET cnt = ? WHERE id = ?", 12, int64(1)),
		st("update", "upd-set-bound", "UPDATE t_s1 SET name = ? WHERE id = 2", "bb"),
		st("update", "upd-where-bound", "UPDATE t_s1 SET cnt = cnt + 1 WHERE id = ?", int64(2)),
		st("update", "upd-many", "UPDATE t_s1 SET cnt = cnt + 100 WHERE cnt >= 20"),
		st("update", "upd-none", "UPDATE t_s1 SET cnt = 1 WHERE id = 404"),
		st("update", "upd-in", "UPDATE t_s1 SET name = 'x' WHERE id IN (1, ?, 404)", int64(3)),
		st("update", "upd-between", "UPDATE t_s1 SET cnt = 0 WHERE id BETWEEN ? AND ?", int64(2), int64(3)),
		st("update", "upd-andor", "UPDATE t_s1 SET name = 'y' WHERE (id = 1 OR id = ?) AND cnt < ?", int64(2), 25),
		st("update", "upd-orderlimit", "UPDATE t_s1 SET cnt = -1 WHERE cnt > 0 ORDER BY id DESC LIMIT 1"),
		st("update", "upd-null", "UPDATE t_s1 SET name = NULL WHERE id = 1"),
		st("update", "upd-same", "UPDATE t_s1 SET cnt = 10 WHERE id = 1"),
		st("update", "upd-big", "UPDATE t_s1 SET cnt = 41 WHERE id = 9007199254740993"),
		st("delete", "del-key-lit", "DELETE FROM t_s1 WHERE id = 1"),
		st("delete", "del-key-bound", "DELETE FROM t_s1 WHERE id = ?", int64(2)),
		st("delete", "del-many", "DELETE FROM t_s1 WHERE cnt >= ?", 20),
		st("delete", "del-none", "DELETE FROM t_s1 WHERE id = 404"),
		st("delete", "del-in", "DELETE FROM t_s1 WHERE id IN (?, ?)", int64(1), int64(3)),
		st("delete", "del-orderlimit", "DELETE FROM t_s1 WHERE cnt > 0 ORDER BY cnt DESC LIMIT 2"),
		st("upsert", "ups-insert", "INSERT INTO t_s1 (id, name, cnt) VALUES (5, 'e', 50) ON DUPLICATE KEY UPDATE cnt = cnt + 1"),
		st("upsert", "ups-update", "INSERT INTO t_s1 (id, name, cnt) VALUES (1, 'z', 99) ON DUPLICATE KEY UPDATE cnt = cnt + 1"),
		st("upsert", "ups-update-values", "INSERT INTO t_s1 (id, name, cnt) VALUES (?, ?, ?) ON DUPLICATE KEY UPDATE cnt = VALUES(cnt), name = VALUES(name)", int64(2), "zz", 77),
		// updates an existing row and inserts a new one whose key sorts before it
		st("upsert", "ups-2rows-newlow", "INSERT INTO t_s1 (id, name, cnt) VALUES (3, 'z', 99), (?, 'e', 50) ON DUPLICATE KEY UPDATE cnt = cnt + 1", int64(-5)),
	},
	More: []Stmt{
		st("insert", "ins-3rows-mixed", "INSERT INTO t_s1 (id, name, cnt) VALUES (5, ?, 50), (?, 'f', ?), (7, 'g', 70)", "e", int64(6), 60),
		st("update", "upd-all", "UPDATE t_s1 SET cnt = cnt * 2"),
		st("update", "upd-two-cols", "UPDATE t_s1 SET name = ?, cnt = ? WHERE id = ?", "q", 5, int64(3)),
		st("update", "upd-not", "UPDATE t_s1 SET cnt = 3 WHERE NOT (id = 1)"),
		st("update", "upd-isnull", "UPDATE t_s1 SET name = 'n' WHERE name IS NULL"),
		st("update", "upd-like", "UPDATE t_s1 SET cnt = 8 WHERE name LIKE 'b%'"),
		st("delete", "del-all", "DELETE FROM t_s1"),
		st("delete", "del-between", "DELETE FROM t_s1 WHERE id BETWEEN 2 AND 3"),
		st("upsert", "ups-2rows", "INSERT INTO t_s1 (id, name, cnt) VALUES (1, 'z', 99), (5, 'e', 50) ON DUPLICATE KEY UPDATE cnt = cnt + 1"),
	},
}

var S2 = Schema{
	ID: "s2", Table: "t_s2", PK: []string{"id"},
	DDL:  "CREATE TABLE t_s2 (id INT NOT NULL AUTO_INCREMENT, name VARCHAR(32) NOT NULL DEFAULT 'n', cnt INT, PRIMARY KEY (id))",
	Rows: []string{"(1,'a',10)", "(2,'b',20)", "(3,'c',NULL)", "(10,'j',100)"},
	Stmts: []Stmt{
		st("insert", "ins-auto", "INSERT INTO t_s2 (name, cnt) VALUES ('e', 50)"),
		st("insert", "ins-auto-bound", "INSERT INTO t_s2 (name, cnt) VALUES (?, ?)", "f", 60),
		st("insert", "ins-auto-2rows", "INSERT INTO t_s2 (name, cnt) VALUES ('e', 50), ('f', 60)"),
		st("insert", "ins-auto-2rows-bound", "INSERT INTO t_s2 (name, cnt) VALUES (?, ?), (?, ?)", "e", 50, "f", 60),
		st("insert", "ins-explicit-key", "INSERT INTO t_s2 (id, name, cnt) VALUES (20, 'e', 50)"),
		st("insert", "ins-null-key", "INSERT INTO t_s2 (id, name, cnt) VALUES (NULL, 'e', 50)"),
		st("insert", "ins-default-name", "INSERT INTO t_s2 (cnt) VALUES (5)"),
		st("update", "upd-key", "UPDATE t_s2 SET cnt = ? WHERE id = ?", 11, 1),
		st("update", "upd-nullcol", "UPDATE t_s2 SET cnt = 1 WHERE cnt IS NULL"),
		st("update", "upd-many", "UPDATE t_s2 SET name = 'm' WHERE id <= 2"),
		st("delete", "del-key", "DELETE FROM t_s2 WHERE id = ?", 3),
		st("delete", "del-many", "DELETE FROM t_s2 WHERE id > 1"),
		st("upsert", "ups-insert-auto", "INSERT INTO t_s2 (name, cnt) VALUES ('e', 50) ON DUPLICATE KEY UPDATE cnt = 0"),
		st("upsert", "ups-update", "INSERT INTO t_s2 (id, name, cnt) VALUES (1, 'e', 50) ON DUPLICATE KEY UPDATE cnt = VALUES(cnt)"),
	},
	More: []Stmt{
		st("insert", "ins-auto-3rows", "INSERT INTO t_s2 (name, cnt) VALUES ('e', 50), ('f', 60), ('g', 70)"),
		st("insert", "ins-zero-key", "INSERT INTO t_s2 (id, name, cnt) VALUES (0, 'e', 50)"),
	},
}

var S3 = Schema{
	ID: "s3", Table: "t_s3", PK: []string{"a", "b"},
	DDL:  "CREATE TABLE t_s3 (v VARCHAR(16), b VARCHAR(8) NOT NULL, a INT NOT NULL, cnt INT, PRIMARY KEY (a, b))",
	Rows: []string{"('v1','x',1,10)", "('v2','y',1,20)", "('v3','x',2,30)", "(NULL,'z_1',3,40)"},
	Stmts: []Stmt{
		st("insert", "ins-lit", "INSERT INTO t_s3 (v, b, a, cnt) VALUES ('n', 'q', 5, 50)"),
		st("insert", "ins-bound", "INSERT INTO t_s3 (a, b, v, cnt) VALUES (?, ?, ?, ?)", 5, "q", "n", 50),
		st("insert", "ins-2rows", "INSERT INTO t_s3 (a, b, v, cnt) VALUES (5, 'q', 'n', 50), (?, ?, 'm', 60)", 6, "r"),
		st("insert", "ins-nocols", "INSERT INTO t_s3 VALUES ('n', 'q', 5, 50)"),
		st("update", "upd-key", "UPDATE t_s3 SET cnt = ? WHERE a = ? AND b = ?", 11, 1, "x"),
		st("update", "upd-partial-key", "UPDATE t_s3 SET cnt = cnt + 1 WHERE a = 1"),
		st("update", "upd-nonkey", "UPDATE t_s3 SET v = 'w' WHERE cnt >= 20"),
		st("update", "upd-underscore-key", "UPDATE t_s3 SET cnt = 41 WHERE b = 'z_1'"),
		st("delete", "del-key", "DELETE FROM t_s3 WHERE a = 2 AND b = 'x'"),
		st("delete", "del-partial", "DELETE FROM t_s3 WHERE b = ?", "x"),
		st("upsert", "ups-insert", "INSERT INTO t_s3 (a, b, v, cnt) VALUES (5, 'q', 'n', 50) ON DUPLICATE KEY UPDATE cnt = cnt + 1"),
		st("upsert", "ups-update", "INSERT INTO t_s3 (a, b, v, cnt) VALUES (1, 'x', 'n', 50) ON DUPLICATE KEY UPDATE cnt = cnt + 1"),
	},
}

var S4 = Schema{
	ID: "s4", Table: "t_s4", PK: []string{"code"},
	DDL:  "CREATE TABLE t_s4 (code VARCHAR(16) NOT NULL, cnt INT, note VARCHAR(32), PRIMARY KEY (code))",
	Rows: []string{"('k1',10,'a')", "('k2',20,'b')", "('0123',30,NULL)", "('a,b;c:d',40,'odd')"},
	Stmts: []Stmt{
		st("insert", "ins-lit", "INSERT INTO t_s4 (code, cnt, note) VALUES ('k5', 50, 'e')"),
		st("insert", "ins-bound", "INSERT INTO t_s4 (code, cnt, note) VALUES (?, ?, ?)", "k6", 60, "f"),
		st("insert", "ins-2rows", "INSERT INTO t_s4 (code, cnt, note) VALUES ('k5', 50, 'e'), (?, ?, ?)", "k6", 60, "f"),
		st("update", "upd-key", "UPDATE t_s4 SET cnt = 11 WHERE code = 'k1'"),
		st("update", "upd-key-bound", "UPDATE t_s4 SET note = ? WHERE code = ?", "nn", "k2"),
		st("update", "upd-numeric-looking-key", "UPDATE t_s4 SET cnt = 31 WHERE code = '0123'"),
		st("update", "upd-separator-key", "UPDATE t_s4 SET cnt = 41 WHERE code = ?", "a,b;c:d"),
		st("update", "upd-many", "UPDATE t_s4 SET cnt = cnt + 1 WHERE cnt < 35"),
		st("delete", "del-key", "DELETE FROM t_s4 WHERE code = ?", "k1"),
		st("delete", "del-many", "DELETE FROM t_s4 WHERE cnt >= 20"),
		st("upsert", "ups-insert", "INSERT INTO t_s4 (code, cnt, note) VALUES ('k5', 50, 'e') ON DUPLICATE KEY UPDATE cnt = cnt + 1"),
		st("upsert", "ups-update", "INSERT INTO t_s4 (code, cnt, note) VALUES ('k1', 50, 'e') ON DUPLICATE KEY UPDATE cnt = cnt + 1"),
	},
}

var S5 = Schema{
	ID: "s5", Table: "t_s5", PK: []string{"id"},
	DDL:  "CREATE TABLE t_s5 (id BIGINT NOT NULL, email VARCHAR(32), score DOUBLE, memo TEXT, PRIMARY KEY (id), UNIQUE KEY uk_email (email))",
	Rows: []string{"(1,'a@x',1.5,'m1')", "(2,'b@x',NULL,NULL)", "(3,NULL,0.1,'test')", "(4,'d@x',-2.25,'dGVzdA==')"},
	Stmts: []Stmt{
		st("insert", "ins-lit", "INSERT INTO t_s5 (id, email, score, memo) VALUES (5, 'e@x', 5.5, 'm5')"),
		st("insert", "ins-nulls", "INSERT INTO t_s5 (id, email, score, memo) VALUES (?, NULL, NULL, NULL)", int64(6)),
		st("insert", "ins-base64-text", "INSERT INTO t_s5 (id, email, score, memo) VALUES (7, 'g@x', 0, ?)", "abcd"),
		st("update", "upd-to-null", "UPDATE t_s5 SET email = NULL, memo = NULL WHERE id = 1"),
		st("update", "upd-from-null", "UPDATE t_s5 SET score = 2.5, memo = 'x' WHERE id = 2"),
		st("update", "upd-double", "UPDATE t_s5 SET score = score + 0.2 WHERE id = 3"),
		st("update", "upd-text", "UPDATE t_s5 SET memo = ? WHERE id = ?", "test", int64(1)),
		st("update", "upd-by-unique", "UPDATE t_s5 SET score = 9 WHERE email = 'd@x'"),
		st("delete", "del-nullrow", "DELETE FROM t_s5 WHERE id = 2"),
		st("delete", "del-by-unique", "DELETE FROM t_s5 WHERE email = ?", "a@x"),
		st("upsert", "ups-unique-update", "INSERT INTO t_s5 (id, email, score, memo) VALUES (9, 'a@x', 7, 'u') ON DUPLICATE KEY UPDATE score = VALUES(score)"),
		st("upsert", "ups-insert", "INSERT INTO t_s5 (id, email, score, memo) VALUES (9, 'n@x', 7, 'u') ON DUPLICATE KEY UPDATE score = VALUES(score)"),
	},
}

// S6: one column per type of the C08 catalogue, plus the key.
var S6 = Schema{
	ID: "s6", Table: "t_s6", PK: []string{"id"},
	DDL: "CREATE TABLE t_s6 (id BIGINT NOT NULL, c_tiny TINYINT, c_small SMALLINT, c_int INT, c_big BIGINT, c_float FLOAT, c_double DOUBLE, c_dec DECIMAL(10,2), " +
		"c_char CHAR(8), c_vc VARCHAR(32), c_text TEXT, c_long LONGTEXT, c_json JSON, c_date DATE, c_dt DATETIME(6), c_ts TIMESTAMP NULL, c_bin VARBINARY(16), c_blob BLOB, PRIMARY KEY (id))",
	Rows: []string{
		"(1, 1, 2, 3, 4, 1.5, 2.5, 3.25, 'ch', 'vc', 'tx', 'long', '{\"a\":1}', '2024-02-29', '2024-02-29 13:14:15.123456', '2024-02-29 13:14:15', 'bin', 'blob')",
		"(2, NULL, NULL, NULL, NULL, NULL, NULL, NULL, NULL, NULL, NULL, NULL, NULL, NULL, NULL, NULL, NULL, NULL)",
		// empty, non-NULL values in every character and binary column
		"(3, 0, 0, 0, 0, 0, 0, 0, '', '', '', '', '[]', '2024-01-01', '2024-01-01 00:00:00', '2024-01-01 00:00:00', '', '')",
	},
	Stmts: []Stmt{
		st("update", "upd-ints", "UPDATE t_s6 SET c_tiny = 7, c_small = 8, c_int = 9, c_big = 9007199254740993 WHERE id = 1"),
		st("update", "upd-floats", "UPDATE t_s6 SET c_float = 0.1, c_double = 0.1, c_dec = 99.99 WHERE id = 1"),
		st("update", "upd-strings", "UPDATE t_s6 SET c_char = 'test', c_vc = ?, c_text = 'abcd', c_long = 'lng', c_json = '[1]' WHERE id = 1", "dGVzdA=="),
		st("update", "upd-times", "UPDATE t_s6 SET c_date = '2025-01-01', c_dt = ?, c_ts = '2025-01-01 00:00:01' WHERE id = 1", "2025-01-01 01:02:03.000004"),
		st("update", "upd-binary", "UPDATE t_s6 SET c_bin = ?, c_blob = ? WHERE id = 1", []byte{0, 1, 254, 255}, []byte("test")),
		st("update", "upd-nullrow", "UPDATE t_s6 SET c_int = 1, c_vc = 'v', c_dt = '2025-01-01 00:00:00', c_blob = 'b' WHERE id = 2"),
		st("delete", "del-full", "DELETE FROM t_s6 WHERE id = 1"),
		st("delete", "del-nullrow", "DELETE FROM t_s6 WHERE id = 2"),
		st("delete", "del-emptyrow", "DELETE FROM t_s6 WHERE id = 3"),
		st("update", "upd-emptyrow", "UPDATE t_s6 SET c_int = 5 WHERE id = 3"),
		st("insert", "ins-full", "INSERT INTO t_s6 (id, c_tiny, c_small, c_int, c_big, c_float, c_double, c_dec, c_char, c_vc, c_text, c_long, c_json, c_date, c_dt, c_ts, c_bin, c_blob) VALUES (4, 1, 2, 3, 4, 1.5, 2.5, 3.25, 'ch', 'vc', 'tx', 'long', '{}', '2024-02-29', '2024-02-29 13:14:15.5', '2024-02-29 13:14:15', ?, ?)", []byte{1, 2}, []byte{3}),
	},
}

// S7: look-alike column names - columns that end with, start with or contain the name of the auto-increment key.
var S7 = Schema{
	ID: "s7", Table: "t_s7", PK: []string{"id"},
	DDL:  "CREATE TABLE t_s7 (id INT NOT NULL AUTO_INCREMENT, ref_id INT, idx INT, PRIMARY KEY (id))",
	Rows: []string{"(1,10,100)", "(2,20,200)", "(3,NULL,300)", "(10,70,NULL)"},
	Stmts: []Stmt{
		st("insert", "ins-suffix-col", "INSERT INTO t_s7 (ref_id, idx) VALUES (40, 400)"),
		st("insert", "ins-suffix-only", "INSERT INTO t_s7 (ref_id) VALUES (?)", 41),
		st("insert", "ins-prefix-only", "INSERT INTO t_s7 (idx) VALUES (402), (403)"),
		st("insert", "ins-all", "INSERT INTO t_s7 (id, ref_id, idx) VALUES (9, 90, 900)"),
		st("update", "upd-suffix-col", "UPDATE t_s7 SET ref_id = ? WHERE id = ?", 11, 1),
		st("update", "upd-by-suffix-col", "UPDATE t_s7 SET idx = idx + 1 WHERE ref_id = 20"),
		st("delete", "del-by-suffix-col", "DELETE FROM t_s7 WHERE ref_id >= ?", 10),
		st("delete", "del-key", "DELETE FROM t_s7 WHERE id = 3"),
	},
}

// S8: auto-increment key plus a unique key the upserts go through.
var S8 = Schema{
	ID: "s8", Table: "t_s8", PK: []string{"id"},
	DDL:  "CREATE TABLE t_s8 (id INT NOT NULL AUTO_INCREMENT, email VARCHAR(32), cnt INT, PRIMARY KEY (id), UNIQUE KEY uk_email (email))",
	Rows: []string{"(1,'a@x',10)", "(2,'b@x',20)", "(3,NULL,30)", "(10,'j@x',100)"},
	Stmts: []Stmt{
		st("upsert", "ups-unique-keeps-key", "INSERT INTO t_s8 (email, cnt) VALUES ('a@x', 5) ON DUPLICATE KEY UPDATE cnt = cnt + 1"),
		st("upsert", "ups-unique-changes-key", "INSERT INTO t_s8 (email, cnt) VALUES ('a@x', 5) ON DUPLICATE KEY UPDATE email = 'new@x', cnt = cnt + 1"),
		st("upsert", "ups-unique-insert", "INSERT INTO t_s8 (email, cnt) VALUES (?, 7) ON DUPLICATE KEY UPDATE cnt = cnt + 1", "n@x"),
		st("update", "upd-unique-col", "UPDATE t_s8 SET email = 'c@x' WHERE id = 2"),
		st("delete", "del-by-unique", "DELETE FROM t_s8 WHERE email = ?", "b@x"),
		st("insert", "ins-auto", "INSERT INTO t_s8 (email, cnt) VALUES ('e@x', 50)"),
	},
}

var Schemas = []*Schema{&S1, &S2, &S3, &S4, &S5, &S6, &S7, &S8}

// S9 is the bulk table: row counts at the undo executors' IN-list batch size (1000). It is not part of Schemas - only C01
// enumerates it (sixth-round seed) - but every closed system creates it.
var S9 = Schema{
	ID: "s9", Table: "t_s9", PK: []string{"id"},
	DDL:  "CREATE TABLE t_s9 (id INT NOT NULL, cnt INT NOT NULL DEFAULT 0, PRIMARY KEY (id))",
	Rows: bulkRows(2001),
	Stmts: []Stmt{
		st("update", "upd-all", "UPDATE t_s9 SET cnt = cnt + 1"),
		st("delete", "del-all", "DELETE FROM t_s9"),
	},
}

func bulkRows(n int) []string {
	out := make([]string, n)
	for i := range out {
		out[i] = fmt.Sprintf("(%d,%d)", i+1, i%7)
	}
	return out
}

// Extra holds schemas created in every closed system but enumerated only by the checks that name them.
var Extra = []*Schema{&S9}

func SchemaByID(id string) *Schema {
	for _, s := range Extra {
		if s.ID == id {
			return s
		}
	}
	for _, s := range Schemas {
		if s.ID == id {
			return s
		}
	}
	return nil
}

// Alphabet returns the statements of the tier.
func (s *Schema) Alphabet(thorough bool) []Stmt {
	if thorough {
		return append(append([]Stmt{}, s.Stmts...), s.More...)
	}
	return s.Stmts
}

// InitialSets enumerates all subsets of at most max rows of the pool (by index mask).
func (s *Schema) InitialSets(max int) [][]int {
	var out [][]int
	n := len(s.Rows)
	for mask := 0; mask < 1<<n; mask++ {
		var idx []int
		for i := 0; i < n; i++ {
			if mask&(1<<i) != 0 {
				idx = append(idx, i)
			}
		}
		if len(idx) <= max {
			out = append(out, idx)
		}
	}
	return out
}

func (s *Schema) InsertSQL(idx []int) string {
	if len(idx) == 0 {
		return ""
	}
	var vals []string
	for _, i := range idx {
		vals = append(vals, s.Rows[i])
	}
	return fmt.Sprintf("INSERT INTO %s VALUES %s", s.Table, strings.Join(vals, ", "))
}

// Step is one statement of a program with its transactional placement.
type Step struct {
	Stmt  Stmt `json:"stmt"`
	Group int  `json:"group"` // 0 = autocommit; n>0 = n-th explicit local transaction
}

// Program is a sequence of statements partitioned into local transactions.
type Program struct {
	Schema string `json:"schema"`
	Steps  []Step `json:"steps"`
	Pinned bool   `json:"pinned"` // issued through one *sql.Conn instead of the pool
	Init   []int  `json:"init"`
	// ContinueOnError: the business code ignores a failed statement / local commit and goes on with the next step
	ContinueOnError bool `json:"continue_on_error,omitempty"`
	// KeepTx: with ContinueOnError, a statement that fails inside an explicit local transaction does not end it: the next
	// statements run in the same local transaction, which is committed at the end of its group
	KeepTx bool `json:"keep_tx,omitempty"`
	// TwoConns: the first step (with its local transaction) runs on a connection of its own that stays checked out until the
	// program ends; the later steps go through the pool and therefore reach the database on another connection
	TwoConns bool `json:"two_conns,omitempty"`
}

func (p Program) Names() string {
	var parts []string
	for _, s := range p.Steps {
		g := "a"
		if s.Group > 0 {
			g = fmt.Sprintf("t%d", s.Group)
		}
		parts = append(parts, s.Stmt.Name+"/"+g)
	}
	pin := ""
	if p.Pinned {
		pin = "+pinned"
	}
	if p.TwoConns {
		pin += "+twoconns"
	}
	return strings.Join(parts, ",") + pin
}

func (p Program) Kinds() string {
	var parts []string
	for _, s := range p.Steps {
		parts = append(parts, s.Stmt.Kind)
	}
	return strings.Join(parts, "+")
}

// Partitions enumerates the ways to place n statements into autocommit / at most 2 explicit local transactions
// (contiguous groups; a group id of 0 means autocommit).
func Partitions(n int) [][]int {
	switch n {
	case 1:
		return [][]int{{0}, {1}}
	case 2:
		return [][]int{{0, 0}, {1, 1}, {1, 2}, {0, 1}, {1, 0}}
	case 3:
		return [][]int{{0, 0, 0}, {1, 1, 1}, {1, 1, 2}, {1, 2, 2}, {0, 1, 1}, {1, 1, 0}}
	}
	return nil
}
