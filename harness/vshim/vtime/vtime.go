// Package vtime stands in for the timer functions of package time (and of gost's
// timer wheel) in the repository files the overlay rewrites. In pass-through mode
// every call is the real one; in virtual mode no wall clock is involved: a timer
// either fires at once or stays pending until the harness fires it.
package vtime

import (
	"sync"
	"time"
)

type Duration = time.Duration
type Time = time.Time

// Policy decides, in virtual mode, what a new timer of duration d does:
// true = it has already expired when the caller looks at it, false = it stays pending.
type Policy func(d time.Duration) bool

var (
	mu      sync.Mutex
	virtual bool
	policy  Policy
	now     = time.Date(2024, 1, 2, 3, 4, 5, 0, time.UTC)
	pending []*timer
	tickers []*Ticker
	created int
)

type timer struct {
	id    int
	d     time.Duration
	ch    chan time.Time
	fired bool
}

// OnCreate, when set, is told about every virtual timer that stays pending.
var OnCreate func(id int, d time.Duration)

// PendingIDs lists the ids of timers that have not fired, oldest first.
func PendingIDs() []int {
	mu.Lock()
	defer mu.Unlock()
	var out []int
	for _, t := range pending {
		if !t.fired {
			out = append(out, t.id)
		}
	}
	return out
}

// FireID fires one pending timer.
func FireID(id int) bool {
	mu.Lock()
	defer mu.Unlock()
	for _, t := range pending {
		if !t.fired && t.id == id {
			t.fired = true
			now = now.Add(t.d)
			t.ch <- now
			return true
		}
	}
	return false
}

// SetVirtual switches to virtual time with the given policy (nil = every timer fires at once).
func SetVirtual(p Policy) {
	mu.Lock()
	virtual, policy = true, p
	pending = nil // tickers created in virtual mode stay known: they tick only when Tick is called, in either mode
	mu.Unlock()
}

func SetPassThrough() {
	mu.Lock()
	virtual = false
	mu.Unlock()
}

func IsVirtual() bool {
	mu.Lock()
	defer mu.Unlock()
	return virtual
}

// Created is the number of timers created since the process started (virtual mode).
func Created() int {
	mu.Lock()
	defer mu.Unlock()
	return created
}

func After(d time.Duration) <-chan time.Time {
	mu.Lock()
	if !virtual {
		mu.Unlock()
		return time.After(d)
	}
	created++
	t := &timer{id: created, d: d, ch: make(chan time.Time, 1)}
	fire := policy == nil || policy(d)
	if fire {
		now = now.Add(d)
		t.fired = true
		t.ch <- now
	} else {
		pending = append(pending, t)
	}
	cb := OnCreate
	mu.Unlock()
	if !fire && cb != nil {
		cb(t.id, d)
	}
	return t.ch
}

// Pending lists the durations of timers that have not fired.
func Pending() []time.Duration {
	mu.Lock()
	defer mu.Unlock()
	var out []time.Duration
	for _, t := range pending {
		if !t.fired {
			out = append(out, t.d)
		}
	}
	return out
}

// FirePending fires every pending timer of duration d (all when d == 0); returns how many fired.
func FirePending(d time.Duration) int {
	mu.Lock()
	defer mu.Unlock()
	n := 0
	for _, t := range pending {
		if !t.fired && (d == 0 || t.d == d) {
			t.fired = true
			now = now.Add(t.d)
			t.ch <- now
			n++
		}
	}
	return n
}

func Now() time.Time {
	mu.Lock()
	defer mu.Unlock()
	if !virtual {
		return time.Now()
	}
	return now
}

func Sleep(d time.Duration) {
	mu.Lock()
	v := virtual
	if v {
		now = now.Add(d)
	}
	mu.Unlock()
	if !v {
		time.Sleep(d)
	}
}

// Ticker mirrors time.Ticker.
type Ticker struct {
	C    <-chan time.Time
	c    chan time.Time
	real *time.Ticker
	d    time.Duration
	stop bool
}

// AutoTick, in virtual mode, makes every new ticker deliver ticks without end and without waiting (a polling loop over it
// runs through its iterations at once); such tickers are not kept and Tick does not see them.
var AutoTick bool

// AutoTickers counts the tickers created under AutoTick.
var AutoTickers int

func NewTicker(d time.Duration) *Ticker {
	mu.Lock()
	defer mu.Unlock()
	if !virtual {
		rt := time.NewTicker(d)
		return &Ticker{C: rt.C, real: rt, d: d}
	}
	if AutoTick {
		c := make(chan time.Time)
		close(c)
		AutoTickers++
		return &Ticker{C: c, d: d, stop: true}
	}
	c := make(chan time.Time, 1)
	t := &Ticker{C: c, c: c, d: d}
	tickers = append(tickers, t)
	return t
}

func (t *Ticker) Stop() {
	if t.real != nil {
		t.real.Stop()
		return
	}
	mu.Lock()
	t.stop = true
	mu.Unlock()
}

func (t *Ticker) Reset(d time.Duration) {
	if t.real != nil {
		t.real.Reset(d)
	}
}

// Tick delivers one tick to every live virtual ticker of period d (all when d == 0); returns how many.
func Tick(d time.Duration) int {
	mu.Lock()
	defer mu.Unlock()
	n := 0
	for _, t := range tickers {
		if t.stop || t.c == nil || (d != 0 && t.d != d) {
			continue
		}
		now = now.Add(t.d)
		select {
		case t.c <- now:
			n++
		default:
		}
	}
	return n
}
