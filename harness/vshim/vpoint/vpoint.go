// Package vpoint is injected (by -overlay) into the repository's module namespace. The rewriter inserts
// vpoint.Point("<file>:<line>") before (and after) channel and sync.Map / mutex / atomic operations of the listed
// repository files; with no Hook installed a point is a no-op, so only schedule-exploring checks are affected.
package vpoint

import "sync/atomic"

var hook atomic.Value // func(string)

type holder struct{ f func(string) }

// SetHook installs (or, with nil, removes) the scheduler's parking function.
func SetHook(f func(string)) { hook.Store(holder{f}) }

func Point(where string) {
	if h, ok := hook.Load().(holder); ok && h.f != nil {
		h.f(where)
	}
}
